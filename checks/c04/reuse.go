package main

import (
	"context"
	"fmt"
	"os"
	"path/filepath"

	"github.com/itchio/wharf/archiver"
	"github.com/itchio/wharf/pwr"

	"verif/lib/runner"
	"verif/lib/wh"
)

// ReuseCase: one ValidatorContext validates a damaged copy first (History), then
// the pristine build. The statement quantifies over every way a signature and
// a validation come about; the history of the context object is one of them.
type ReuseCase struct {
	Build  wh.Build `json:"build"`
	Damage string   `json:"damage"` // what the first validation meets
	Mode   string   `json:"mode"`   // wounds | failfast | heal
}

func reuseBuilds() []wh.Build {
	return []wh.Build{
		{wh.D("x"), wh.D("x/y"), wh.F("x/y/f", "=ffff"), wh.F("x/g", "A.=t"), wh.L("l", "x/g"), wh.F("e", "")},
		{wh.F("a", "=a"), wh.D("d"), wh.F("d/b", "B"), wh.L("d/l", "b"), wh.D("d/sub"), wh.F("d/sub/c", "=c")},
	}
}

var reuseDamages = []string{"dir->file", "dir->twin-symlink", "subdir->file", "flip", "missing-file", "retarget", "everything-missing", "none"}

// applyReuseDamage damages dir; the first directory / file / symlink in build order is the victim.
func applyReuseDamage(dir string, b wh.Build, damage string) {
	first := func(kind string, nth int) string {
		for _, e := range b {
			if e.Kind == kind {
				if nth == 0 {
					return filepath.Join(dir, filepath.FromSlash(e.Path))
				}
				nth--
			}
		}
		return ""
	}
	switch damage {
	case "dir->file":
		p := first("d", 0)
		os.RemoveAll(p)
		os.WriteFile(p, []byte("in the way"), 0o644)
	case "dir->twin-symlink":
		p := first("d", 0)
		os.Rename(p, p+".twin")
		os.Symlink(filepath.Base(p)+".twin", p)
	case "subdir->file":
		p := first("d", 1)
		os.RemoveAll(p)
		os.WriteFile(p, []byte("in the way"), 0o644)
	case "flip":
		p := first("f", 0)
		data, _ := os.ReadFile(p)
		if len(data) > 0 {
			data[0] ^= 1
		}
		os.WriteFile(p, data, 0o644)
	case "missing-file":
		os.Remove(first("f", 1))
	case "retarget":
		p := first("l", 0)
		os.Remove(p)
		os.Symlink("elsewhere", p)
	case "everything-missing":
		os.RemoveAll(dir)
		os.MkdirAll(dir, 0o755)
	case "none":
	}
}

func reuseSub(w *runner.W) {
	type prep struct {
		dir string
		sig *pwr.SignatureInfo
		zip string
	}
	preps := map[string]*prep{}
	n := 0
	sub := runner.NewSub(w, "context-reuse", func(c ReuseCase, r *runner.Rec) {
		key := fmt.Sprintf("%v", c.Build)
		p := preps[key]
		if p == nil {
			dir := filepath.Join(w.Scratch(), fmt.Sprintf("reuse-pristine%d", len(preps)))
			if err := c.Build.Materialize(dir, w.Seed); err != nil {
				panic(err)
			}
			sig, err := wh.SignDir(dir)
			if err != nil {
				panic(err)
			}
			zp := dir + ".zip"
			f, err := os.Create(zp)
			if err != nil {
				panic(err)
			}
			if _, err := archiver.CompressZip(f, dir, wh.Quiet()); err != nil {
				panic(err)
			}
			f.Close()
			p = &prep{dir: dir, sig: sig, zip: zp}
			preps[key] = p
		}
		n++
		damaged := filepath.Join(w.Scratch(), fmt.Sprintf("reuse-damaged%d", n))
		woundsPath := damaged + ".pww"
		defer os.RemoveAll(damaged)
		defer os.Remove(woundsPath)
		defer os.RemoveAll(damaged + ".twin")
		if err := wh.CopyTree(p.dir, damaged); err != nil {
			panic(err)
		}
		applyReuseDamage(damaged, c.Build, c.Damage)
		vctx := &pwr.ValidatorContext{Consumer: wh.Quiet()}
		switch c.Mode {
		case "wounds":
			vctx.WoundsPath = woundsPath
		case "failfast":
			vctx.FailFast = true
		case "heal":
			vctx.HealPath = "archive," + p.zip
		}
		// history: the context meets the damaged copy first
		_ = vctx.Validate(context.Background(), damaged, p.sig)
		os.Remove(woundsPath)
		// now the pristine build, same context
		if c.Mode == "heal" {
			before, _ := wh.Snapshot(p.dir)
			if err := vctx.Validate(context.Background(), p.dir, p.sig); err != nil {
				r.Failf("reused-context:heal:error-on-pristine", "second Validate (pristine build) with a reused healing context: %v", err)
			}
			after, _ := wh.Snapshot(p.dir)
			if d := wh.DiffSnaps(after, before, true); len(d) > 0 {
				r.Failf("reused-context:heal:pristine-modified", "healing the pristine build with a reused context changed it: %v", d)
			}
		} else {
			err := vctx.Validate(context.Background(), p.dir, p.sig)
			if err != nil {
				r.Failf("reused-context:"+c.Mode+":error-on-pristine", "second Validate (pristine build) with a reused context: %v", err)
			}
			if vctx.WoundsConsumer != nil && vctx.WoundsConsumer.HasWounds() {
				r.Failf("reused-context:"+c.Mode+":haswounds-on-pristine", "HasWounds() is true after validating the pristine build with a reused context (first validation met damage %q)", c.Damage)
			}
			if b, err := os.ReadFile(woundsPath); err == nil {
				if _, ws, derr := wh.DecodeWounds(b); derr == nil && len(ws) > 0 {
					r.Failf("reused-context:wounds:wound-on-pristine", "%d wound(s) on the pristine build with a reused context, first: kind=%v index=%d", len(ws), ws[0].Kind, ws[0].Index)
				}
			}
		}
		if c.Damage != "none" {
			r.Nontrivial()
		}
		r.Trans(2)
		r.Outcome(c.Mode + "/" + c.Damage)
	}, runner.Journal())
	if sub.Active() {
		for _, b := range reuseBuilds() {
			for _, d := range reuseDamages {
				for _, m := range []string{"wounds", "failfast", "heal"} {
					sub.Do(ReuseCase{Build: b, Damage: d, Mode: m})
				}
			}
		}
		sub.Done()
	}
}
