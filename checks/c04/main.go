// C04 — a build validates against its own signature, however that was
// produced. Bounded exhaustive enumeration of builds (file sizes on/around
// block multiples) x producers (stand-alone signing, diff-time signing against
// an empty or an identical old build) x compression of the signature stream x
// read slicings of the source pool (choice tape, deviation bound 2), against an
// independent re-computation of the per-block hashes.
package main

import (
	"bytes"
	"context"
	"fmt"
	"os"
	"path/filepath"
	"time"

	"github.com/golang/protobuf/proto"
	"github.com/itchio/lake"
	"github.com/itchio/lake/pools/fspool"
	"github.com/itchio/lake/tlc"
	"github.com/itchio/wharf/pwr"
	"github.com/itchio/wharf/wire"
	"github.com/itchio/wharf/wsync"

	"verif/lib/explore"
	"verif/lib/runner"
	"verif/lib/wh"
)

const (
	prodStandalone = "standalone"
	prodDiffEmpty  = "diff-empty-old"
	prodDiffSame   = "diff-same-old"
)

var producers = []string{prodStandalone, prodDiffEmpty, prodDiffSame}

type Case struct {
	Build wh.Build `json:"build"`
	Prod  string   `json:"prod"`
	Comp  wh.Comp  `json:"comp"`
	// slicing sub-check only:
	Bound  int   `json:"bound,omitempty"`  // explore every read slicing with at most Bound deviations
	Single bool  `json:"single,omitempty"` // run exactly Tape instead of exploring (set in reported failures)
	Tape   []int `json:"tape,omitempty"`
}

const watchdog = 120 * time.Second

func main() {
	runner.Main(runner.Config{
		ID:    "C04",
		Level: "model_checking",
		Rule:  "bounded exhaustive enumeration. Builds: every ordered tuple of 1-3 files with sizes from {0,1,B-1,B,B+1,2B-1,2B,2B+1,3B} (B=64KiB, seeded pseudo-random content), the empty build, zero-filled files, a build with unusual names (paths differing only by case, prefixes of one another, spaces, dots - also two at the end of a directory name -, non-ASCII), a build with permission bits other than 0644/0755, and a slice with 40 one-byte files / symlinks (plain, dangling, not lexically clean, upwards, absolute destinations) / an empty directory. Sub-check context-reuse: one ValidatorContext first validates (wounds file / fail-fast / heal) a damaged copy, then the pristine build: the second verdict must be clean. Producers: stand-alone signing (ComputeSignature, and ComputeSignatureToWriter framed into a signature stream) and diff-time signing (WritePatch against an empty and against an identical old build). Compression of the stream: every registered setting on the extras slice, none/gzip-1/brotli-1 in rotation elsewhere. Sub-check 'slicing': for every size multiset and both diff-time producers, every read slicing of the source pool with at most 2 deviations (a deviation answers one Read call with 1 or 16383 bytes instead of the full 16KiB request, or reports io.EOF together with the last bytes of a file instead of on a further empty read), explored depth-first over a choice tape. Oracle: an independent re-computation (own weak checksum, crypto/md5, own block splitting over os.ReadFile) must equal ComputeSignature, pwr.ReadSignature of the stream and the harness' own decoding of the stream, hash for hash (position, weak, strong, short size); the container read back must equal the walked container; Validate with WoundsPath on the pristine build returns nil, writes no wound, HasWounds is false; AssertValid returns nil. Non-trivial = the build's reference signature contains a full block and a short or empty block (plain sub-checks) / the execution deviates inside a file of more than one block (slicing).",
		Assumptions: []string{
			"file contents are seeded pseudo-random (VERIF_SEED) or zeros; other byte values are not enumerated",
			"stand-alone signature streams are framed by the check with wharf's own wire/CompressWire/ComputeSignatureToWriter (wharf has no single entry point for it; this is what its command-line front end does)",
			"WritePatch runs its goroutines under the Go scheduler (not enumerated here, see C15); only the sizes returned by the source pool's Read calls are enumerated",
			"slicings with more than 2 short reads per diff are not explored",
		},
		QuickBudget:    80 * time.Second,
		ThoroughBudget: 14 * time.Minute,
	}, body)
}

// ---------------------------------------------------------------------------
// builds

var sizes = []int{0, 1, wh.B - 1, wh.B, wh.B + 1, 2*wh.B - 1, 2 * wh.B, 2*wh.B + 1, 3 * wh.B}
var paths = []string{"a", "m/b", "z"}

func fileOf(i, size int) wh.Entry {
	if size == 0 {
		return wh.F(paths[i], "")
	}
	return wh.F(paths[i], fmt.Sprintf("r%d/%d", i+1, size))
}

// tuples returns every tuple of 1..3 sizes; ordered=false keeps only
// non-decreasing ones (multisets).
func tuples(ordered bool) []wh.Build {
	var out []wh.Build
	for n := 1; n <= 3; n++ {
		idx := make([]int, n)
		for {
			ok := true
			if !ordered {
				for i := 1; i < n; i++ {
					if idx[i] < idx[i-1] {
						ok = false
					}
				}
			}
			if ok {
				var b wh.Build
				for i, k := range idx {
					b = append(b, fileOf(i, sizes[k]))
				}
				out = append(out, b)
			}
			i := n - 1
			for ; i >= 0; i-- {
				idx[i]++
				if idx[i] < len(sizes) {
					break
				}
				idx[i] = 0
			}
			if i < 0 {
				break
			}
		}
	}
	return out
}

func many() wh.Build {
	var b wh.Build
	for i := 0; i < 40; i++ {
		b = append(b, wh.F(fmt.Sprintf("many/f%02d", i), fmt.Sprintf("=%c", 'a'+i%26)))
	}
	return b
}

// extras is the slice run under every compression setting: each size alone and
// a few pairs, combined with 40 one-byte files, a symlink and an empty
// directory; plus builds without any regular file.
func modeF(path, content string, mode uint32) wh.Entry {
	e := wh.F(path, content)
	e.Mode = mode
	return e
}

func extras() []wh.Build {
	var out []wh.Build
	ld := wh.Build{wh.L("lnk", "a"), wh.D("emptydir")}
	for i, s := range sizes {
		base := wh.Build{fileOf(0, s)}
		switch i % 3 {
		case 0:
			out = append(out, append(append(wh.Build{}, base...), many()...))
		case 1:
			out = append(out, append(append(wh.Build{}, base...), ld...))
		case 2:
			out = append(out, append(append(append(wh.Build{}, base...), many()...), ld...))
		}
	}
	for _, p := range [][2]int{{0, wh.B}, {wh.B, 0}, {wh.B + 1, 2 * wh.B}, {3 * wh.B, 1}, {2*wh.B - 1, 0}} {
		b := wh.Build{fileOf(0, p[0]), fileOf(2, p[1])}
		out = append(out, append(append(b, many()...), ld...))
	}
	out = append(out,
		wh.Build{},
		wh.Build{wh.D("emptydir")},
		wh.Build{wh.L("lnk", "nowhere")},
		ld,
		many(),
		append(many(), ld...),
		// symlink destinations that are not lexically clean, relative upwards, absolute, dangling
		wh.Build{wh.F("a", "=aa"), wh.D("d"), wh.F("d/b", "=b"), wh.L("l1", "./a"), wh.L("l2", "d/"), wh.L("l3", "d//b"), wh.L("l4", "d/../a"),
			wh.L("d/l5", "../a"), wh.L("l6", "/nonexistent/absolute"), wh.L("l7", "."), wh.L("d/l8", "../d/./b"), wh.L("l9", "d/.."), wh.L("l10", "a/")},
		// zero-filled content: weak checksum 0, like the empty block
		wh.Build{wh.F("a", "Z")},
		wh.Build{wh.F("a", "z/1")},
		wh.Build{wh.F("a", "Z.z/1")},
		wh.Build{wh.F("a", "Z.Z"), wh.F("e", "")},
		wh.Build{wh.F("a", ""), wh.F("b", "Z.z/65535"), wh.F("c", "")},
		// the same block in two files and twice in one file
		wh.Build{wh.F("a", "A.A"), wh.F("b", "A.A/100")},
		// unusual but legal names: paths that differ only by case, names that are prefixes of
		// one another, spaces, dots, a leading dash, non-ASCII, a directory and a file that
		// sort next to each other
		wh.Build{wh.F("include/xt_MARK.h", "A.=upper"), wh.F("include/xt_mark.h", "B/100"), wh.F("Include/xt_mark.h", "=third"),
			wh.F("a", "=1"), wh.F("a.b", "=2"), wh.F("a b", "=3"), wh.F("ab", "C/65535"), wh.F("a-", "=5"), wh.F("-a", "=6"),
			wh.F("d/x", "=7"), wh.F("d.x", "=8"), wh.F("d x", ""), wh.F("\u00e9t\u00e9/na\u00efve", "D"), wh.F(".hidden", "=9"), wh.F("d/.keep", ""),
			wh.F("saves../slot1", "=s1"), wh.F("..saves/x", "=s2"), wh.F("sa..ves", "=s3"), wh.F("trailing.", "=s4"), wh.F("x..", "=s5"), wh.F("...", "=s6")},
		// permission bits other than 0644 / 0755 (a container records mode|0644)
		wh.Build{modeF("ro", "A/100", 0o444), modeF("priv", "=p", 0o600), modeF("grp", "B", 0o640), modeF("exe-priv", "=#!", 0o700),
			modeF("exe", "=#!x", 0o755), modeF("shared", "C/7", 0o664), modeF("d/ro-empty", "", 0o444)},
	)
	return out
}

// ---------------------------------------------------------------------------
// producers

// standaloneStream frames a signature stream around ComputeSignatureToWriter,
// using only wharf's own primitives.
func standaloneStream(c *tlc.Container, dir string, comp wh.Comp) ([]byte, error) {
	var buf bytes.Buffer
	raw := wire.NewWriteContext(&buf)
	if err := raw.WriteMagic(pwr.SignatureMagic); err != nil {
		return nil, err
	}
	if err := raw.WriteMessage(&pwr.SignatureHeader{Compression: comp.Settings()}); err != nil {
		return nil, err
	}
	sw, err := pwr.CompressWire(raw, comp.Settings())
	if err != nil {
		return nil, err
	}
	if err := sw.WriteMessage(c); err != nil {
		return nil, err
	}
	err = pwr.ComputeSignatureToWriter(context.Background(), c, fspool.New(c, dir), wh.Quiet(), func(h wsync.BlockHash) error {
		return sw.WriteMessage(&pwr.BlockHash{WeakHash: h.WeakHash, StrongHash: h.StrongHash})
	})
	if err != nil {
		return nil, err
	}
	if err := sw.Close(); err != nil {
		return nil, err
	}
	return buf.Bytes(), nil
}

type env struct {
	w     *runner.W
	n     int
	empty string
}

func (e *env) fresh(b wh.Build) (string, func()) {
	e.n++
	d := filepath.Join(e.w.Scratch(), fmt.Sprintf("b%d", e.n))
	if err := b.Materialize(d, e.w.Seed); err != nil {
		panic(err)
	}
	return d, func() { os.RemoveAll(d) }
}

func (e *env) emptyDir() string {
	if e.empty == "" {
		e.empty = filepath.Join(e.w.Scratch(), "empty-old")
		os.MkdirAll(e.empty, 0o755)
	}
	return e.empty
}

// produce returns the signature stream of the build in dir.
func (e *env) produce(prod string, c *tlc.Container, dir string, comp wh.Comp, wrap func(lake.Pool) lake.Pool) ([]byte, error) {
	switch prod {
	case prodStandalone:
		return standaloneStream(c, dir, comp)
	case prodDiffEmpty, prodDiffSame:
		old := dir
		if prod == prodDiffEmpty {
			old = e.emptyDir()
		}
		dr, err := wh.DiffWithPool(old, dir, comp, wrap)
		if err != nil {
			return nil, err
		}
		return dr.Sig, nil
	}
	panic("bad producer " + prod)
}

// ---------------------------------------------------------------------------
// oracle

type fail struct{ fp, msg string }

// checkStream compares a signature stream with the reference. It returns the
// SignatureInfo read back by wharf (nil if unreadable).
func checkStream(sig []byte, comp wh.Comp, c *tlc.Container, ref []refHash) (*pwr.SignatureInfo, []fail) {
	var fails []fail
	// wharf's own reader
	info, err := wh.ReadSig(sig)
	if err != nil {
		fails = append(fails, fail{"readback-error", fmt.Sprintf("pwr.ReadSignature: %v", err)})
		info = nil
	} else {
		if !proto.Equal(info.Container, c) {
			fails = append(fails, fail{"readback-container-differs", fmt.Sprintf("container read back differs from the walked container: got %v want %v", info.Container, c)})
		}
		if cl, m := cmpFull(info.Hashes, ref); cl != "" {
			fails = append(fails, fail{"readback-hash-mismatch:" + cl, "pwr.ReadSignature vs reference: " + m})
		}
	}
	// the harness' own decoding (own framing, stdlib gzip)
	ds, err := wh.DecodeSig(sig)
	if err != nil {
		fails = append(fails, fail{"stream-undecodable", fmt.Sprintf("independent decoder: %v", err)})
	} else {
		if !proto.Equal(ds.Header.Compression, comp.Settings()) {
			fails = append(fails, fail{"stream-header-compression", fmt.Sprintf("header says %v, asked for %v", ds.Header.Compression, comp.Settings())})
		}
		if !proto.Equal(ds.Container, c) {
			fails = append(fails, fail{"stream-container-differs", "container stored in the stream differs from the walked container"})
		}
		if cl, m := cmpRaw(ds.Hashes, ref); cl != "" {
			fails = append(fails, fail{"stream-hash-mismatch:" + cl, m})
		}
	}
	return info, fails
}

// validatePristine runs both validation modes on the undamaged build.
func validatePristine(dir string, info *pwr.SignatureInfo, woundsPath string) []fail {
	var fails []fail
	os.Remove(woundsPath)
	vctx := &pwr.ValidatorContext{WoundsPath: woundsPath, Consumer: wh.Quiet()}
	done := make(chan error, 1)
	go func() { done <- vctx.Validate(context.Background(), dir, info) }()
	select {
	case err := <-done:
		if err != nil {
			fails = append(fails, fail{"validate-error-on-pristine", fmt.Sprintf("Validate(WoundsPath) on the pristine build: %v", err)})
		}
		if vctx.WoundsConsumer != nil && vctx.WoundsConsumer.HasWounds() {
			fails = append(fails, fail{"haswounds-on-pristine", "WoundsConsumer.HasWounds() is true after validating the pristine build"})
		}
		if b, err := os.ReadFile(woundsPath); err == nil {
			_, ws, derr := wh.DecodeWounds(b)
			if derr != nil {
				fails = append(fails, fail{"wounds-file-undecodable", fmt.Sprintf("%v", derr)})
			} else {
				msg := fmt.Sprintf("%d wound(s) on the pristine build", len(ws))
				if len(ws) > 0 {
					msg += fmt.Sprintf(", first: kind=%v index=%d [%d,%d)", ws[0].Kind, ws[0].Index, ws[0].Start, ws[0].End)
				}
				fails = append(fails, fail{"wound-on-pristine", msg})
			}
			os.Remove(woundsPath)
		}
	case <-time.After(watchdog):
		fails = append(fails, fail{"hang", fmt.Sprintf("Validate(WoundsPath) on the pristine build did not return within %v", watchdog)})
		return fails
	}
	done2 := make(chan error, 1)
	go func() { done2 <- pwr.AssertValid(dir, info) }()
	select {
	case err := <-done2:
		if err != nil {
			fails = append(fails, fail{"assertvalid-error-on-pristine", fmt.Sprintf("AssertValid on the pristine build: %v", err)})
		}
	case <-time.After(watchdog):
		fails = append(fails, fail{"hang", fmt.Sprintf("AssertValid on the pristine build did not return within %v", watchdog)})
	}
	return fails
}

// shape counts the block classes of a build from the container sizes.
func shape(c *tlc.Container) (full, short, empty int) {
	for _, f := range c.Files {
		if f.Size == 0 {
			empty++
		}
		full += int(f.Size / wh.B)
		if f.Size%wh.B > 0 {
			short++
		}
	}
	return
}

// ---------------------------------------------------------------------------

func body(w *runner.W) {
	e := &env{w: w}

	// plain: one (build, producer, compression) with the default read slicing
	plain := func(c Case, r *runner.Rec) {
		dir, cleanup := e.fresh(c.Build)
		defer cleanup()
		cont, err := wh.Walk(dir)
		if err != nil {
			panic(err)
		}
		ref, err := refSig(cont, dir)
		if err != nil {
			panic(err)
		}
		full, short, empty := shape(cont)
		if full > 0 && short+empty > 0 {
			r.Nontrivial()
		}
		r.Trans(len(ref))
		r.Outcome(fmt.Sprintf("%s full=%v short=%v empty=%v files=%v", c.Prod, full > 0, short > 0, empty > 0, len(cont.Files) > 0))

		// computing the signature directly
		direct, err := pwr.ComputeSignature(context.Background(), cont, fspool.New(cont, dir), wh.Quiet())
		if err != nil {
			r.Failf("computesignature-error", "%v", err)
			return
		}
		if cl, m := cmpFull(direct, ref); cl != "" {
			r.Failf("direct-hash-mismatch:"+cl, "pwr.ComputeSignature vs reference: %s", m)
		}
		sig, err := e.produce(c.Prod, cont, dir, c.Comp, nil)
		if err != nil {
			r.Failf("producer-error:"+c.Prod, "%v", err)
			return
		}
		info, fails := checkStream(sig, c.Comp, cont, ref)
		for _, f := range fails {
			r.Failf(f.fp, "%s", f.msg)
		}
		if info == nil {
			return
		}
		for _, f := range validatePristine(dir, info, filepath.Join(w.Scratch(), "pristine.pww")) {
			r.Failf(f.fp, "%s", f.msg)
		}
	}

	compRot := []wh.Comp{"none", "gzip-1", "brotli-1"}

	tup := runner.NewSub(w, "tuples", plain)
	if tup.Active() {
		builds := tuples(true)
		if w.Quick() {
			builds = tuples(false)
		}
		for bi, b := range builds {
			for pi, p := range producers {
				tup.Do(Case{Build: b, Prod: p, Comp: compRot[(bi+pi)%3]})
			}
		}
		tup.Note("builds", len(builds))
		tup.Done()
	}

	reuseSub(w)

	ext := runner.NewSub(w, "extras-allcomp", plain)
	if ext.Active() {
		builds := extras()
		comps := wh.AllComps()
		for bi, b := range builds {
			for pi, p := range producers {
				if w.Quick() {
					// every (build, producer) under three settings that rotate through all of them
					for k := 0; k < 3; k++ {
						ext.Do(Case{Build: b, Prod: p, Comp: comps[(bi*3+pi*7+k*len(comps)/3)%len(comps)]})
					}
					continue
				}
				for _, c := range comps {
					ext.Do(Case{Build: b, Prod: p, Comp: c})
				}
			}
		}
		ext.Note("builds", len(builds))
		ext.Done()
	}

	// slicing: every read slicing of the source pool within the deviation bound
	var sl *runner.Sub[Case]
	slicing := func(c Case, r *runner.Rec) {
		dir, cleanup := e.fresh(c.Build)
		defer cleanup()
		cont, err := wh.Walk(dir)
		if err != nil {
			panic(err)
		}
		ref, err := refSig(cont, dir)
		if err != nil {
			panic(err)
		}
		var baseline []byte
		var sp *slicePool
		wrap := func(t *explore.Tape) func(lake.Pool) lake.Pool {
			return func(p lake.Pool) lake.Pool {
				sp = &slicePool{Pool: p, c: cont, t: t}
				return sp
			}
		}
		// one execution; returns the failures of this slicing
		one := func(t *explore.Tape) []fail {
			sig, err := e.produce(c.Prod, cont, dir, c.Comp, wrap(t))
			if err != nil {
				return []fail{{"producer-error:" + c.Prod + ":sliced-reads", fmt.Sprintf("%v", err)}}
			}
			if baseline != nil && bytes.Equal(sig, baseline) {
				return nil // byte-identical to the stream already checked in full
			}
			info, fails := checkStream(sig, c.Comp, cont, ref)
			if len(fails) == 0 && baseline == nil {
				baseline = sig
				if info != nil {
					fails = append(fails, validatePristine(dir, info, filepath.Join(w.Scratch(), "pristine.pww"))...)
				}
			}
			for i := range fails {
				fails[i].fp = "sliced:" + fails[i].fp
			}
			return fails
		}
		if c.Single {
			t := explore.NewTape(c.Tape)
			for _, f := range one(t) {
				r.Failf(f.fp, "%s", f.msg)
			}
			r.Trans(len(t.Choices))
			if sp != nil && sp.devOnMulti {
				r.Nontrivial()
			}
			return
		}
		var execs, nontriv, trans int64
		maxReads := 0
		st := explore.DFS(c.Bound, func(t *explore.Tape) bool {
			fails := one(t)
			execs++
			trans += int64(len(t.Choices))
			if sp != nil {
				if sp.devOnMulti {
					nontriv++
				}
				if sp.reads > maxReads {
					maxReads = sp.reads
				}
				sl.BulkOutcome(fmt.Sprintf("deviations=%d ok=%v", sp.devs, len(fails) == 0), 1)
			}
			for _, f := range fails {
				sl.Report(Case{Build: c.Build, Prod: c.Prod, Comp: c.Comp, Single: true, Tape: append([]int{}, t.Choices...)}, f.fp, "%s", f.msg)
			}
			return !w.Expired()
		})
		// the runner counts this Do as one evaluation; add the rest
		sl.Bulk(execs-1, nontriv, trans)
		r.Outcome(fmt.Sprintf("explored truncated=%v", st.Truncated))
	}
	sl = runner.NewSub(w, "slicing", slicing)
	if sl.Active() {
		builds := tuples(false)
		// largest first, so that the shards finish together
		for i, j := 0, len(builds)-1; i < j; i, j = i+1, j-1 {
			builds[i], builds[j] = builds[j], builds[i]
		}
		n := 0
		for bi, b := range builds {
			for pi, p := range []string{prodDiffEmpty, prodDiffSame} {
				bound := 2
				if w.Quick() {
					// quick: pairs of deviations for one- and two-file builds, single deviations for three files
					if len(b) == 3 {
						bound = 1
					}
				}
				sl.Do(Case{Build: b, Prod: p, Comp: compRot[(bi+pi)%3], Bound: bound})
				n++
			}
		}
		sl.Note("explorations", n)
		sl.Note("deviation_bound", 2)
		sl.Done()
	}
}
