package main

import (
	"bytes"
	"crypto/md5"
	"fmt"
	"os"
	"path/filepath"

	"github.com/itchio/lake/tlc"
	"github.com/itchio/wharf/pwr"
	"github.com/itchio/wharf/wsync"

	"verif/lib/wh"
)

// refHash is one entry of the reference signature.
type refHash struct {
	File, Block int64
	Weak        uint32
	Strong      []byte
	Short       int32
}

// refWeak is the rsync-style weak checksum of one block, written from its
// definition: a = sum of bytes, b = sum of (len-i)*byte, both mod 2^16,
// packed as a | b<<16.
func refWeak(b []byte) uint32 {
	var a, s uint32
	n := uint32(len(b))
	for i, v := range b {
		a += uint32(v)
		s += (n - uint32(i)) * uint32(v)
	}
	return (a & 0xffff) | ((s & 0xffff) << 16)
}

// refSig computes the reference signature of the files of container c as they
// are on disk under dir (read with os.ReadFile, not through a pool): one entry
// per 64KiB block, a shorter final block, one entry for an empty file.
func refSig(c *tlc.Container, dir string) ([]refHash, error) {
	var out []refHash
	for fi, f := range c.Files {
		data, err := os.ReadFile(filepath.Join(dir, filepath.FromSlash(f.Path)))
		if err != nil {
			return nil, err
		}
		if int64(len(data)) != f.Size {
			return nil, fmt.Errorf("%s: container says %d bytes, disk has %d", f.Path, f.Size, len(data))
		}
		if len(data) == 0 {
			s := md5.Sum(nil)
			out = append(out, refHash{File: int64(fi), Weak: refWeak(nil), Strong: s[:]})
			continue
		}
		for bi, off := int64(0), 0; off < len(data); bi, off = bi+1, off+wh.B {
			end := off + wh.B
			short := int32(0)
			if end > len(data) {
				end = len(data)
				short = int32(end - off)
			}
			s := md5.Sum(data[off:end])
			out = append(out, refHash{File: int64(fi), Block: bi, Weak: refWeak(data[off:end]), Strong: s[:], Short: short})
		}
	}
	return out, nil
}

// cmpFull compares hashes that carry position and short size (ComputeSignature,
// ReadSignature) with the reference. Returns a failure class and a message, or "".
func cmpFull(got []wsync.BlockHash, ref []refHash) (string, string) {
	if len(got) != len(ref) {
		return "count", fmt.Sprintf("%d hashes, reference has %d", len(got), len(ref))
	}
	for i, g := range got {
		w := ref[i]
		switch {
		case g.FileIndex != w.File || g.BlockIndex != w.Block:
			return "position", fmt.Sprintf("hash %d is for file %d block %d, reference says file %d block %d", i, g.FileIndex, g.BlockIndex, w.File, w.Block)
		case g.WeakHash != w.Weak:
			return "weak", fmt.Sprintf("hash %d (file %d block %d): weak %08x, reference %08x", i, w.File, w.Block, g.WeakHash, w.Weak)
		case !bytes.Equal(g.StrongHash, w.Strong):
			return "strong", fmt.Sprintf("hash %d (file %d block %d): strong %x, reference %x", i, w.File, w.Block, g.StrongHash, w.Strong)
		case g.ShortSize != w.Short:
			return "shortsize", fmt.Sprintf("hash %d (file %d block %d): short size %d, reference %d", i, w.File, w.Block, g.ShortSize, w.Short)
		}
	}
	return "", ""
}

// cmpRaw compares the (weak,strong) pairs stored in the stream with the reference.
func cmpRaw(got []*pwr.BlockHash, ref []refHash) (string, string) {
	if len(got) != len(ref) {
		return "count", fmt.Sprintf("stream stores %d hashes, reference has %d", len(got), len(ref))
	}
	for i, g := range got {
		w := ref[i]
		switch {
		case g.WeakHash != w.Weak:
			return "weak", fmt.Sprintf("stored hash %d (file %d block %d): weak %08x, reference %08x", i, w.File, w.Block, g.WeakHash, w.Weak)
		case !bytes.Equal(g.StrongHash, w.Strong):
			return "strong", fmt.Sprintf("stored hash %d (file %d block %d): strong %x, reference %x", i, w.File, w.Block, g.StrongHash, w.Strong)
		}
	}
	return "", ""
}
