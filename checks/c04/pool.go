package main

import (
	"io"
	"sync"

	"github.com/itchio/lake"
	"github.com/itchio/lake/tlc"

	"verif/lib/explore"
)

// slicePool wraps the source pool of a diff. Every Read of a reader it hands
// out is a choice point of the tape: answer 0 = serve the read in full
// (default), other answers = return at most 1 byte, or at most 16383 bytes;
// the read that delivers the last bytes has one more choice: report io.EOF
// together with them.
// Alternatives that would not differ from the full read (request or remaining
// bytes too small) are not offered, so no two tapes describe the same slicing.
type slicePool struct {
	lake.Pool
	c  *tlc.Container
	t  *explore.Tape
	mu sync.Mutex
	// observations of one execution
	reads, devs int
	eofWithData int
	devOnMulti  bool // a deviation happened in a file of more than one block
}

func (p *slicePool) GetReader(i int64) (io.Reader, error) {
	r, err := p.Pool.GetReader(i)
	if err != nil {
		return nil, err
	}
	return &sliceReader{r: r, p: p, size: p.c.Files[i].Size, rem: p.c.Files[i].Size}, nil
}

type sliceReader struct {
	r    io.Reader
	p    *slicePool
	size int64
	rem  int64
}

var shortReads = []int{1, 16383}

func (s *sliceReader) Read(buf []byte) (int, error) {
	p := s.p
	p.mu.Lock()
	defer p.mu.Unlock()
	p.reads++
	full := int64(len(buf))
	if s.rem < full {
		full = s.rem
	}
	n := full
	if full > 1 {
		opts := []int64{full}
		for _, k := range shortReads {
			if int64(k) < full {
				opts = append(opts, int64(k))
			}
		}
		c := p.t.Choose(len(opts), "read")
		if c != 0 {
			p.devs++
			if s.size > 64*1024 {
				p.devOnMulti = true
			}
		}
		n = opts[c]
	}
	if n == 0 {
		// nothing left by the container's account (or empty request): plain pass-through
		return s.r.Read(buf)
	}
	// the read that delivers the last bytes of the file may report the end at once
	// (n > 0 together with io.EOF, as io.Reader allows and zip/gzip sources do) instead
	// of leaving it to a further, empty read: one more deviation
	withEOF := false
	if n == s.rem {
		if p.t.Choose(2, "eof-with-data") == 1 {
			withEOF = true
			p.devs++
			p.eofWithData++
			if s.size > 64*1024 {
				p.devOnMulti = true
			}
		}
	}
	m, err := io.ReadFull(s.r, buf[:n])
	s.rem -= int64(m)
	if err == io.ErrUnexpectedEOF {
		err = io.EOF
	}
	if err == nil && withEOF {
		err = io.EOF
	}
	return m, err
}
