// C11 — rsync operations always reconstruct the source and stay within the old
// files. Exhaustive small-scope enumeration of the real wsync.ComputeDiff.
package main

import (
	"bytes"
	"context"
	"fmt"
	"math/rand"
	"runtime/debug"
	"time"

	"github.com/itchio/wharf/wsync"

	"verif/lib/mempool"
	"verif/lib/runner"
)

type Case struct {
	BS   int      `json:"bs"`
	Old  []string `json:"old"`  // old files; small scale: literal bytes as digits
	New  string   `json:"new"`  // small scale: literal; real scale: spec
	Pref int64    `json:"pref"` // preferred file index
	Real *RealGen `json:"real,omitempty"`
}

// RealGen describes a real-scale case: new = fresh(PreLen) [+ old block MatchBlock] + fresh(PostLen)
type RealGen struct {
	OldBlocks int `json:"old_blocks"`
	OldTail   int `json:"old_tail"`
	PreLen    int `json:"pre"`
	Match     int `json:"match"` // -1 none; else index of old block inserted
	PostLen   int `json:"post"`
	Seed      int64
}

func digits(s string) []byte {
	b := make([]byte, len(s))
	for i := range s {
		b[i] = s[i] - '0'
	}
	return b
}

type lib struct {
	files [][]byte
	lib   *wsync.BlockLibrary
	nblk  []int64
}

func makeLib(ctx *wsync.Context, bs int, files [][]byte) *lib {
	var hashes []wsync.BlockHash
	l := &lib{files: files}
	for i, f := range files {
		n := int64(0)
		err := ctx.CreateSignature(context.Background(), int64(i), bytes.NewReader(f), func(h wsync.BlockHash) error {
			hashes = append(hashes, h)
			n++
			return nil
		})
		if err != nil {
			panic(err)
		}
		l.nblk = append(l.nblk, (int64(len(f))+int64(bs)-1)/int64(bs))
	}
	l.lib = wsync.NewBlockLibrary(hashes)
	return l
}

type opRec struct {
	typ              wsync.OpType
	fi, bi, span, dl int64
}

// checkOne runs ComputeDiff and evaluates the oracle. Returns fingerprint, message.
func checkOne(ctx *wsync.Context, bs int, l *lib, newContent []byte, pref int64, out *bytes.Buffer, ops *[]opRec, useApply bool) (fp string, msg string, hasRange bool, hasData bool) {
	defer func() {
		if e := recover(); e != nil {
			fp = "panic:" + runner.PanicSite(string(debug.Stack()))
			msg = fmt.Sprintf("panic: %v", e)
		}
	}()
	out.Reset()
	*ops = (*ops)[:0]
	var pool *mempool.Pool
	if useApply {
		pool = mempool.New(l.files)
	}
	var applyOut bytes.Buffer
	fail := func(f, m string) {
		if fp == "" {
			fp, msg = f, m
		}
	}
	err := ctx.ComputeDiff(bytes.NewReader(newContent), l.lib, func(op wsync.Operation) error {
		r := opRec{typ: op.Type, fi: op.FileIndex, bi: op.BlockIndex, span: op.BlockSpan, dl: int64(len(op.Data))}
		idx := len(*ops)
		*ops = append(*ops, r)
		switch op.Type {
		case wsync.OpBlockRange:
			if op.FileIndex < 0 || op.FileIndex >= int64(len(l.files)) {
				fail("range-bad-file", fmt.Sprintf("op %d: BLOCK_RANGE names file %d of %d", idx, op.FileIndex, len(l.files)))
				return nil
			}
			if op.BlockIndex < 0 || op.BlockSpan < 1 || op.BlockIndex+op.BlockSpan > l.nblk[op.FileIndex] {
				fail("range-out-of-bounds", fmt.Sprintf("op %d: BLOCK_RANGE file %d index %d span %d, file has %d blocks", idx, op.FileIndex, op.BlockIndex, op.BlockSpan, l.nblk[op.FileIndex]))
				return nil
			}
			f := l.files[op.FileIndex]
			s := op.BlockIndex * int64(bs)
			e := (op.BlockIndex + op.BlockSpan) * int64(bs)
			if e > int64(len(f)) {
				e = int64(len(f))
			}
			out.Write(f[s:e])
			if idx > 0 {
				p := (*ops)[idx-1]
				if p.typ == wsync.OpBlockRange && p.fi == op.FileIndex && p.bi+p.span == op.BlockIndex {
					fail("ranges-not-merged", fmt.Sprintf("ops %d,%d: adjacent ranges of file %d not merged", idx-1, idx, op.FileIndex))
				}
			}
		case wsync.OpData:
			if len(op.Data) > wsync.MaxDataOp {
				fail("data-op-too-large", fmt.Sprintf("op %d: DATA of %d bytes > MaxDataOp %d", idx, len(op.Data), wsync.MaxDataOp))
			}
			if len(op.Data) == 0 && idx != 0 {
				fail("empty-data-not-leading", fmt.Sprintf("op %d: empty DATA op that is not the first op", idx))
			}
			out.Write(op.Data)
		default:
			fail("unknown-op", fmt.Sprintf("op %d: type %d", idx, op.Type))
		}
		if useApply && fp == "" {
			if err := ctx.ApplySingle(&applyOut, pool, op); err != nil {
				fail("apply-error", fmt.Sprintf("ApplySingle op %d: %v", idx, err))
			}
		}
		return nil
	}, pref)
	if err != nil {
		fail("diff-error", fmt.Sprintf("ComputeDiff: %v", err))
	}
	if fp == "" && !bytes.Equal(out.Bytes(), newContent) {
		fail("replay-mismatch", fmt.Sprintf("replaying %d ops gives %d bytes != new content (%d bytes)", len(*ops), out.Len(), len(newContent)))
	}
	if fp == "" && useApply && !bytes.Equal(applyOut.Bytes(), newContent) {
		fail("apply-mismatch", fmt.Sprintf("ApplySingle output %d bytes != new content (%d bytes)", applyOut.Len(), len(newContent)))
	}
	for _, o := range *ops {
		if o.typ == wsync.OpBlockRange {
			hasRange = true
		} else if o.dl > 0 {
			hasData = true
		}
	}
	return fp, msg, hasRange, hasData
}

// strs enumerates all strings over alphabet size k with length in [0,maxLen].
func strs(k, maxLen int) []string {
	out := []string{""}
	prev := []string{""}
	for l := 1; l <= maxLen; l++ {
		var cur []string
		for _, p := range prev {
			for a := 0; a < k; a++ {
				cur = append(cur, p+string(rune('0'+a)))
			}
		}
		out = append(out, cur...)
		prev = cur
	}
	return out
}

type family struct {
	alpha, nOld, oldMax, newMax int
}

func main() {
	runner.Main(runner.Config{
		ID:    "C11",
		Level: "model_checking",
		Rule:  "exhaustive small scope: every (block size 1..4, 1-3 old files over a 2-3 symbol alphabet, new content, preferred index) run through the real CreateSignature+ComputeDiff, ops replayed by a reference applier and by ApplySingle; scaled MaxDataOp variants (overlay builds) enumerate every new content up to the bound so that every buffer-wrap/flush phase occurs; real-scale family enumerates fresh-run lengths around MaxDataOp multiples x match positions. Non-trivial = the op list contains both a BLOCK_RANGE and a non-empty DATA op.",
		Assumptions: []string{
			"byte values outside the small alphabets only appear in the real-scale family (seeded pseudo-random blocks)",
			"scaled variants rebuild wsync with only the MaxDataOp constant changed (go build -overlay, /repo untouched)",
		},
		Variants:       []string{"m4", "m5", "m8"},
		QuickBudget:    70 * time.Second,
		ThoroughBudget: 12 * time.Minute,
	}, body)
}

func body(w *runner.W) {
	runOne := func(c Case, r *runner.Rec) {
		ctx := wsync.NewContext(c.BS)
		var files [][]byte
		var nc []byte
		if c.Real != nil {
			files, nc = c.Real.materialize(c.BS)
		} else {
			for _, o := range c.Old {
				files = append(files, digits(o))
			}
			nc = digits(c.New)
		}
		l := makeLib(ctx, c.BS, files)
		var out bytes.Buffer
		var ops []opRec
		fp, msg, hr, hd := checkOne(ctx, c.BS, l, nc, c.Pref, &out, &ops, true)
		if hr && hd {
			r.Nontrivial()
		}
		r.Trans(len(ops))
		r.Outcome(fmt.Sprintf("range=%v data=%v", hr, hd))
		if fp != "" {
			r.Failf(fp, "%s", msg)
		}
	}

	// ---- small scope, real MaxDataOp ------------------------------------
	small := runner.NewSub(w, "small", runOne)
	if small.Active() {
		fams := []family{{2, 1, 7, 9}, {2, 2, 4, 8}, {2, 3, 3, 7}, {3, 1, 6, 7}, {3, 2, 3, 6}}
		if w.Quick() {
			fams = []family{{2, 1, 6, 8}, {2, 2, 3, 7}, {2, 3, 2, 5}, {3, 1, 4, 6}, {3, 2, 2, 5}}
		}
		ord := 0
		for _, f := range fams {
			olds := strs(f.alpha, f.oldMax)
			news := strs(f.alpha, f.newMax)
			idx := make([]int, f.nOld)
			for {
				if w.Owns(ord) && !w.Expired() {
					oldS := make([]string, f.nOld)
					files := make([][]byte, f.nOld)
					for i, k := range idx {
						oldS[i] = olds[k]
						files[i] = digits(olds[k])
					}
					for bs := 1; bs <= 4; bs++ {
						ctx := wsync.NewContext(bs)
						l := makeLib(ctx, bs, files)
						var out bytes.Buffer
						var ops []opRec
						var evals, nontriv, trans int64
						for _, ns := range news {
							nc := digits(ns)
							for pref := int64(-1); pref < int64(f.nOld); pref++ {
								fp, msg, hr, hd := checkOne(ctx, bs, l, nc, pref, &out, &ops, false)
								evals++
								trans += int64(len(ops))
								if hr && hd {
									nontriv++
								}
								if fp != "" {
									small.Report(Case{BS: bs, Old: oldS, New: ns, Pref: pref}, fp, "%s", msg)
								}
							}
						}
						small.Bulk(evals, nontriv, trans)
					}
					small.Sample(Case{BS: 2, Old: oldS, New: news[len(news)/2], Pref: -1})
				}
				ord++
				// odometer
				i := 0
				for ; i < f.nOld; i++ {
					idx[i]++
					if idx[i] < len(olds) {
						break
					}
					idx[i] = 0
				}
				if i == f.nOld {
					break
				}
			}
		}
		small.Done()
	}

	// ---- small scope through ApplySingle (subset; binds the reference applier to the real one)
	applied := runner.NewSub(w, "small-applysingle", runOne)
	if applied.Active() {
		olds := strs(2, 4)
		news := strs(2, 6)
		for _, o1 := range olds {
			for _, o2 := range []string{"", "01", "0110", "111"} {
				for bs := 1; bs <= 4; bs++ {
					for _, ns := range news {
						if (len(ns)+len(o1))%2 == 0 || w.Tier == "thorough" {
							applied.Do(Case{BS: bs, Old: []string{o1, o2}, New: ns, Pref: int64(len(ns)%3 - 1)})
						}
					}
				}
			}
		}
		applied.Done()
	}

	// ---- scaled MaxDataOp variants --------------------------------------
	for _, v := range []struct {
		name string
		m    int
	}{{"m4", 4}, {"m5", 5}, {"m8", 8}} {
		sc := runner.NewSub(w, "scaled-"+v.name, runOne, runner.Variant(v.name))
		if !sc.Active() {
			continue
		}
		if wsync.MaxDataOp != v.m {
			sc.Skip(fmt.Sprintf("MaxDataOp is %d in this build, expected %d", wsync.MaxDataOp, v.m))
			continue
		}
		maxLen := 22
		if w.Quick() {
			maxLen = 17
		}
		oldSets := [][]string{{""}, {"01"}, {"0110"}, {"011", "1"}}
		// shard on the first 8 symbols of new content
		ord := 0
		for _, oldS := range oldSets {
			files := make([][]byte, len(oldS))
			for i := range oldS {
				files[i] = digits(oldS[i])
			}
			for bs := 1; bs <= 3; bs++ {
				ctx := wsync.NewContext(bs)
				l := makeLib(ctx, bs, files)
				var out bytes.Buffer
				var ops []opRec
				var evals, nontriv, trans int64
				// enumerate by length; shard by (len, low bits)
				for ln := 0; ln <= maxLen; ln++ {
					total := 1 << uint(ln)
					chunk := 1 << 10
					for base := 0; base < total; base += chunk {
						mine := w.Owns(ord)
						ord++
						if !mine || w.Expired() {
							continue
						}
						nc := make([]byte, ln)
						for x := base; x < base+chunk && x < total; x++ {
							for i := 0; i < ln; i++ {
								nc[i] = byte(x>>uint(i)) & 1
							}
							fp, msg, hr, hd := checkOne(ctx, bs, l, nc, -1, &out, &ops, false)
							evals++
							trans += int64(len(ops))
							if hr && hd {
								nontriv++
							}
							if fp != "" {
								s := make([]byte, ln)
								for i := range nc {
									s[i] = '0' + nc[i]
								}
								sc.Report(Case{BS: bs, Old: oldS, New: string(s), Pref: -1}, fp, "%s", msg)
							}
						}
					}
				}
				sc.Bulk(evals, nontriv, trans)
			}
		}
		sc.Sample(Case{BS: 2, Old: []string{"0110"}, New: "0110100110010110", Pref: -1})
		sc.Note("max_new_len", maxLen)
		sc.Done()
	}

	// ---- real scale -----------------------------------------------------
	real := runner.NewSub(w, "real-scale", runOne)
	if real.Active() {
		M := wsync.MaxDataOp
		bss := []int{64 * 1024, 4096, 1000}
		if w.Quick() {
			bss = []int{64 * 1024, 1000}
		}
		for _, bs := range bss {
			Ls := []int{M - 1, M, M + 1, M + bs - 1, M + bs, M + bs + 1, M + 2*bs - 3, 2*M - 1, 2 * M, 2*M + 1, 2*M + 2*bs + 1}
			if w.Quick() {
				Ls = []int{M - 1, M, M + 1, M + bs + 1, 2*M + 1}
			}
			for _, L := range Ls {
				// no match
				real.Do(Case{BS: bs, Pref: -1, Real: &RealGen{OldBlocks: 3, OldTail: 17, PreLen: L, Match: -1, Seed: w.Seed}})
				// match at start / end / boundary phases
				posts := []int{0, 1, bs - 1, bs, bs + 1, M - 1, M, M + 1}
				if w.Quick() {
					posts = []int{0, bs + 1, M + 1}
				}
				for _, post := range posts {
					real.Do(Case{BS: bs, Pref: int64(post % 2), Real: &RealGen{OldBlocks: 3, OldTail: 17, PreLen: L, Match: post % 3, PostLen: post, Seed: w.Seed}})
				}
				pres := []int{0, 1, bs - 1, bs + 1}
				if w.Quick() {
					pres = []int{0, 1}
				}
				for _, pre := range pres {
					real.Do(Case{BS: bs, Pref: -1, Real: &RealGen{OldBlocks: 3, OldTail: 17, PreLen: pre, Match: 1, PostLen: L, Seed: w.Seed}})
				}
			}
		}
		// block size 1: end of input coinciding with a buffer wrap
		for _, L := range []int{M + 1, M + 2, M + 3, 2*M + 4} {
			real.Do(Case{BS: 1, Pref: -1, Real: &RealGen{OldBlocks: 0, OldTail: 0, PreLen: L, Match: -1, Seed: w.Seed}})
		}
		for _, L := range []int{M + 3, M + 4, M + 5} {
			real.Do(Case{BS: 2, Pref: -1, Real: &RealGen{OldBlocks: 1, OldTail: 1, PreLen: L, Match: -1, Seed: w.Seed}})
		}
		real.Done()
	}
}

func (g *RealGen) materialize(bs int) ([][]byte, []byte) {
	rng := rand.New(rand.NewSource(g.Seed*7919 + int64(bs)))
	old := make([]byte, g.OldBlocks*bs+g.OldTail)
	rng.Read(old)
	old2 := make([]byte, bs+1)
	rng.Read(old2)
	pre := make([]byte, g.PreLen)
	rng.Read(pre)
	post := make([]byte, g.PostLen)
	rng.Read(post)
	nc := append([]byte{}, pre...)
	if g.Match >= 0 {
		nc = append(nc, old[g.Match*bs:(g.Match+1)*bs]...)
	}
	nc = append(nc, post...)
	return [][]byte{old2, old}, nc
}
