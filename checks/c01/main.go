// C01 — diff then apply (fresh bowl) reproduces the new build exactly, for every
// compression setting. Bounded exhaustive enumeration of build pairs over a
// block alphabet, compared with an independent tree oracle.
package main

import (
	"fmt"
	"os"
	"path/filepath"
	"strings"
	"time"

	"github.com/itchio/wharf/pwr"

	"verif/lib/runner"
	"verif/lib/wh"
)

type Case struct {
	Old  wh.Build `json:"old"`
	New  wh.Build `json:"new"`
	Comp wh.Comp  `json:"comp"`
}

type dirCache struct {
	root string
	seed int64
	m    map[string]string
	n    int
}

func key(b wh.Build) string {
	var sb strings.Builder
	for _, e := range b {
		fmt.Fprintf(&sb, "%s|%s|%s|%s;", e.Path, e.Kind, e.Content, e.Dest)
	}
	return sb.String()
}

func (c *dirCache) dir(b wh.Build) string {
	k := key(b)
	if d, ok := c.m[k]; ok {
		return d
	}
	c.n++
	d := filepath.Join(c.root, fmt.Sprintf("b%d", c.n))
	if err := b.Materialize(d, c.seed); err != nil {
		panic(err)
	}
	c.m[k] = d
	return d
}

func main() {
	runner.Main(runner.Config{
		ID:    "C01",
		Level: "model_checking",
		Rule:  "bounded exhaustive enumeration of ordered build pairs: F1 all builds of <=2 files whose contents are strings of <=2 symbols over a 64KiB-block alphabet plus a tail in {none,1,B-1,B-1-prefix-of-A} (isomorphic pairs under A<->B dropped); F2 all small shape pairs (absent/empty/tiny files, symlink, empty dir) crossed with every registered compression setting; F3 enumerated limit family (runs around 4MiB/8MiB, shared blocks, aligned prefixes/suffixes, zero blocks); F4 every ordered triple of new files from a menu of ways to reuse two old files (state carried from file to file: continuing ranges, whole-file copies in between, unaligned reuse); F5 weak twins: contents over {A, a, B, b} (a lower-case block has the rolling checksum of its upper-case block and other bytes, so only the strong hash tells them apart), 0-2 blocks plus optional tails, one or two files, every ordered pair. Each pair: real WritePatch -> patcher+fresh bowl -> independent Lstat tree comparison. Non-trivial = decoded patch has a series with both BLOCK_RANGE and DATA, or a whole-file range op.",
		Assumptions: []string{
			"block contents are seeded pseudo-random (VERIF_SEED); byte values outside the block alphabet are not enumerated",
			"file modes are not compared",
		},
		QuickBudget:    80 * time.Second,
		ThoroughBudget: 20 * time.Minute,
	}, body)
}

func body(w *runner.W) {
	cache := &dirCache{root: filepath.Join(w.Scratch(), "builds"), seed: w.Seed, m: map[string]string{}}
	outN := 0
	run := func(c Case, r *runner.Rec) {
		oldDir, newDir := cache.dir(c.Old), cache.dir(c.New)
		outN++
		out := filepath.Join(w.Scratch(), fmt.Sprintf("out%d", outN))
		defer os.RemoveAll(out)
		dr, err := wh.Diff(oldDir, newDir, c.Comp)
		if err != nil {
			r.Failf("diff-error", "%v", err)
			return
		}
		// independent decode (also the non-triviality rule)
		dp, err := wh.DecodePatch(dr.Patch)
		if err != nil {
			r.Failf("patch-undecodable", "independent decoder: %v", err)
			return
		}
		mixed, whole := false, false
		nops := 0
		for i, s := range dp.Series {
			hr, hd := false, false
			for _, op := range s.Ops {
				nops++
				if op.Type == pwr.SyncOp_BLOCK_RANGE {
					hr = true
				} else if len(op.Data) > 0 {
					hd = true
				}
			}
			if hr && hd {
				mixed = true
			}
			if len(s.Ops) == 1 && s.Ops[0].Type == pwr.SyncOp_BLOCK_RANGE && s.Ops[0].BlockIndex == 0 &&
				dp.Target.Files[s.Ops[0].FileIndex].Size == dp.Source.Files[i].Size && dp.Source.Files[i].Size > 0 {
				whole = true
			}
		}
		if mixed || whole {
			r.Nontrivial()
		}
		r.Trans(nops)
		r.Outcome(fmt.Sprintf("mixed=%v whole=%v", mixed, whole))
		if err := wh.ApplyFresh(dr.Patch, oldDir, out); err != nil {
			fp := "apply-error"
			if len(c.New) == 0 && strings.HasPrefix(string(c.Comp), "gzip") && strings.HasSuffix(err.Error(), "patcher.New: EOF") {
				// the patch ends with a zero-length message (empty source container)
				fp = "apply-error:empty-new-build:gzip:eof-on-final-empty-message"
			}
			r.Failf(fp, "%v", err)
			return
		}
		got, err := wh.Snapshot(out)
		if err != nil {
			r.Failf("snapshot-error", "%v", err)
			return
		}
		want, _ := wh.Snapshot(newDir)
		if d := wh.DiffSnaps(got, want, false); len(d) > 0 {
			r.Failf("tree-mismatch", "output differs from new build: %s", strings.Join(d, "; "))
		}
	}

	// ---------------- F1: block level ----------------
	f1 := runner.NewSub(w, "F1-blocks", run)
	if f1.Active() {
		contents := f1Contents()
		builds := f1Builds(contents)
		dropped := 0
		quickOld := 0
		for oi, ob := range builds {
			if w.Quick() {
				// quick: old builds with at most one file, new builds strided
				if len(ob) > 1 {
					continue
				}
				quickOld++
			}
			for ni, nb := range builds {
				if w.Quick() && (ni+oi)%7 != 0 {
					continue
				}
				if !canonical(ob, nb) {
					dropped++
					continue
				}
				comp := wh.Comp("none")
				switch (oi + ni) % 3 {
				case 1:
					comp = "gzip-1"
				case 2:
					comp = "brotli-1"
				}
				f1.Do(Case{Old: ob, New: nb, Comp: comp})
			}
		}
		f1.Note("builds", len(builds))
		f1.Note("isomorphic_pairs_dropped", dropped)
		f1.Done()
	}

	// ---------------- F5: weak twins ----------------
	// contents over {A, a, B, b} (a lower-case block has the weak hash of its upper-case
	// block and other bytes: only the strong hash tells them apart), 0..2 blocks plus an
	// optional short tail, one or two files: every ordered pair of builds
	f5 := runner.NewSub(w, "F5-weak-twins", run)
	if f5.Active() {
		syms := []string{"A", "a", "B", "b"}
		contents := []string{""}
		for _, x := range syms {
			contents = append(contents, x, x+".A/100", x+".B/65535")
			for _, y := range syms {
				contents = append(contents, x+"."+y)
			}
		}
		var builds []wh.Build
		for _, c := range contents {
			builds = append(builds, wh.Build{wh.F("a", c)})
		}
		for _, c := range []string{"A", "a", "A.b", "a.B"} {
			for _, d := range []string{"A", "a", "b.A"} {
				builds = append(builds, wh.Build{wh.F("a", c), wh.F("d/b", d)})
			}
		}
		n := 0
		for _, ob := range builds {
			for _, nb := range builds {
				n++
				if w.Quick() && n%3 != 0 {
					continue
				}
				f5.Do(Case{Old: ob, New: nb, Comp: []wh.Comp{"none", "gzip-1", "brotli-1"}[n%3]})
			}
		}
		f5.Note("builds", len(builds))
		f5.Done()
	}

	// ---------------- F2: shapes x all compression settings ----------------
	f2 := runner.NewSub(w, "F2-shapes", run)
	if f2.Active() {
		builds := f2Builds()
		comps := wh.AllComps()
		n := 0
		for oi, ob := range builds {
			for ni, nb := range builds {
				n++
				if w.Quick() {
					// every pair under one setting chosen round-robin; a slice under all settings
					if (oi*7+ni)%31 == 0 {
						for _, c := range comps {
							f2.Do(Case{Old: ob, New: nb, Comp: c})
						}
					} else {
						f2.Do(Case{Old: ob, New: nb, Comp: comps[n%len(comps)]})
					}
					continue
				}
				for _, c := range comps {
					f2.Do(Case{Old: ob, New: nb, Comp: c})
				}
			}
		}
		f2.Note("builds", len(builds))
		f2.Done()
	}

	// ---------------- F1 slice x all compression settings ----------------
	f1c := runner.NewSub(w, "F1-slice-allcomp", run)
	if f1c.Active() {
		contents := f1Contents()
		builds := f1Builds(contents)
		comps := wh.AllComps()
		step := 3533
		if w.Quick() {
			step = 35311
		}
		for k := 0; k < len(builds)*len(builds); k += step {
			ob, nb := builds[k/len(builds)], builds[k%len(builds)]
			for _, c := range comps {
				f1c.Do(Case{Old: ob, New: nb, Comp: c})
			}
		}
		f1c.Done()
	}

	// ---------------- F4: reader state carried across files ----------------
	// The patcher keeps one rsync context and the pool one cached reader across
	// the files of a patch: every ordered triple of new files from a menu of
	// ways to reuse two old files (ranges continuing each other, whole-file
	// copies in between, unaligned reuse, prefixes) is a distinct history.
	f4 := runner.NewSub(w, "F4-file-sequences", run)
	if f4.Active() {
		old := wh.Build{wh.F("x", "A.B.C.D"), wh.F("y", "E.F")}
		menu := []string{"A.B", "C.D", "E.F", "A.B.C.D", "r9/100.A.B", "C.D.r8/100", "B.C", "E", "", "r7/50.C.D.E"}
		comps := []wh.Comp{"none", "gzip-1", "brotli-1"}
		n := 0
		for _, a := range menu {
			for _, b := range menu {
				for _, c := range menu {
					n++
					f4.Do(Case{Old: old, New: wh.Build{wh.F("f1", a), wh.F("f2", b), wh.F("f3", c)}, Comp: comps[n%3]})
				}
			}
		}
		// the same with the old files in the other order (file indices swapped)
		old2 := wh.Build{wh.F("a", "E.F"), wh.F("x", "A.B.C.D")}
		for _, a := range menu[:7] {
			for _, b := range menu[:7] {
				for _, c := range menu[:7] {
					n++
					f4.Do(Case{Old: old2, New: wh.Build{wh.F("f1", a), wh.F("f2", b), wh.F("f3", c)}, Comp: "none"})
				}
			}
		}
		f4.Done()
	}

	// ---------------- F3: limits ----------------
	f3 := runner.NewSub(w, "F3-limits", run)
	if f3.Active() {
		M := 4 * 1024 * 1024
		type pr struct{ o, n wh.Build }
		var ps []pr
		one := func(o, n string) pr {
			ob, nb := wh.Build{}, wh.Build{}
			if o != "-" {
				ob = wh.Build{wh.F("f", o)}
			}
			if n != "-" {
				nb = wh.Build{wh.F("f", n)}
			}
			return pr{ob, nb}
		}
		runs := []int{M - 1, M, M + 1, M + wh.B - 1, M + wh.B + 1, 2*M + 1}
		if w.Quick() {
			runs = []int{M, M + 1, 2*M + 1}
		}
		for _, L := range runs {
			fresh := fmt.Sprintf("r1/%d", L)
			ps = append(ps, one("-", fresh))                  // no old build at all
			ps = append(ps, one("A.B", fresh))                // unrelated old
			ps = append(ps, one("A.B", "A."+fresh))           // matching block before the run
			ps = append(ps, one("A.B", fresh+".B"))           // matching block after the run
			ps = append(ps, one("A.B", "A."+fresh+".B.C/17")) // both, plus tail
			ps = append(ps, one(fresh, fresh))                // identical big file
			ps = append(ps, one(fresh, "=x."+fresh))          // shifted by one byte
			ps = append(ps, one(fresh+".C/100", fresh))       // shrink
		}
		// two old files sharing a block; prefixes / suffixes of a larger old file
		ps = append(ps,
			pr{wh.Build{wh.F("a", "A.B"), wh.F("b", "B.C")}, wh.Build{wh.F("c", "B"), wh.F("d", "A.B.C")}},
			pr{wh.Build{wh.F("a", "A.B.C.D")}, wh.Build{wh.F("a", "A.B"), wh.F("b", "C.D"), wh.F("c", "B.C")}},
			pr{wh.Build{wh.F("a", "A.B.C.D/100")}, wh.Build{wh.F("a", "A.B.C"), wh.F("b", "A.B.C.D/99"), wh.F("c", "D/100")}},
			pr{wh.Build{wh.F("a", "A.B.C/100")}, wh.Build{wh.F("a", "A.B"), wh.F("b", "C/100"), wh.F("c", "B.C/100")}},
			pr{wh.Build{wh.F("e", ""), wh.F("z", "Z")}, wh.Build{wh.F("e", "Z"), wh.F("z", "")}},
			pr{wh.Build{wh.F("e", "")}, wh.Build{wh.F("z", "Z.Z"), wh.F("y", "z/100")}},
			pr{wh.Build{wh.F("z", "Z.Z.z/5")}, wh.Build{wh.F("z", "Z.z/5"), wh.F("y", "z/5"), wh.F("x", "Z.Z.Z")}},
			pr{wh.Build{wh.F("a", "A.A.A")}, wh.Build{wh.F("a", "A.A"), wh.F("b", "A.A.A.A"), wh.F("c", "A/1000.A")}},
			pr{wh.Build{wh.F("a", "A.B/65535")}, wh.Build{wh.F("a", "A.B"), wh.F("b", "B/65535.A")}},
		)
		// unusual but legal names: paths that differ only by case, prefixes of one another,
		// spaces, non-ASCII; contents swapped between look-alike paths
		namesA := wh.Build{wh.F("include/xt_MARK.h", "A.=upper"), wh.F("include/xt_mark.h", "B/100"), wh.F("Include/xt_mark.h", "=third"),
			wh.F("a", "=1"), wh.F("a.b", "=2"), wh.F("a b", "=3"), wh.F("ab", "C/65535"), wh.F("\u00e9t\u00e9/na\u00efve", "D"), wh.F("d/.keep", ""), wh.F("saves../slot1", "=s1"), wh.F("..saves/x", "=s2"), wh.F("x..", "=s5"), wh.F("...", "=s6")}
		namesB := wh.Build{wh.F("include/xt_MARK.h", "B/100"), wh.F("include/xt_mark.h", "A.=upper"), wh.F("Include/xt_MARK.h", "=third"),
			wh.F("a", "=2"), wh.F("a.b", "=1"), wh.F("a b", "D"), wh.F("Ab", "C/65535"), wh.F("\u00e9t\u00e9/naive", "=3"), wh.F("d/.Keep", ""), wh.F("saves../slot2", "=s1"), wh.F("..saves/x", "=s2!"), wh.F("x..", ""), wh.F("..../y", "=s6")}
		ps = append(ps, pr{namesA, namesB}, pr{namesB, namesA}, pr{namesA, namesA})
		// siblings whose names differ in the byte after a directory's name ('/' sorts after ' ',
		// '-', '.'): d/x next to "d x", "d-x", "d.x", "d0"
		sortA := wh.Build{wh.F("d/x", "=7"), wh.F("d.x", "=8"), wh.F("d-x", "=9"), wh.F("d x", ""), wh.F("d0", "A/100"), wh.F("d/y/z", "=z")}
		sortB := wh.Build{wh.F("d/x", "=8"), wh.F("d.x", "=7"), wh.F("d-x", ""), wh.F("d x", "=9"), wh.F("d0/x", "A/100"), wh.F("d/y", "=z")}
		ps = append(ps, pr{sortA, sortB}, pr{sortB, sortA})
		// very many tiny files, most of them with the same few contents
		var manyA, manyB wh.Build
		for i := 0; i < 300; i++ {
			manyA = append(manyA, wh.F(fmt.Sprintf("t/%03d", i), fmt.Sprintf("=content %d", i%5)))
			manyB = append(manyB, wh.F(fmt.Sprintf("u/%03d", (i*7)%300), fmt.Sprintf("=content %d", i%7)))
		}
		ps = append(ps, pr{manyA, manyB}, pr{manyB, manyA})
		comps := []wh.Comp{"none", "gzip-1", "brotli-1"}
		for i, p := range ps {
			if w.Quick() {
				f3.Do(Case{Old: p.o, New: p.n, Comp: comps[i%3]})
				continue
			}
			for _, c := range append(comps, "gzip-9", "brotli-9") {
				f3.Do(Case{Old: p.o, New: p.n, Comp: c})
			}
		}
		f3.Done()
	}
}

func f1Contents() []string {
	syms := []string{"", "A", "B", "A.A", "A.B", "B.A", "B.B"}
	tails := []string{"", "C/1", "C/65535", "A/65535"}
	var out []string
	for _, s := range syms {
		for _, t := range tails {
			c := s
			if t != "" {
				if c != "" {
					c += "."
				}
				c += t
			}
			out = append(out, c)
		}
	}
	return out
}

func f1Builds(contents []string) []wh.Build {
	var out []wh.Build
	opts := append([]string{"<absent>"}, contents...)
	for _, a := range opts {
		for _, b := range opts {
			var bd wh.Build
			if a != "<absent>" {
				bd = append(bd, wh.F("a", a))
			}
			if b != "<absent>" {
				bd = append(bd, wh.F("d/b", b))
			}
			out = append(out, bd)
		}
	}
	return out
}

// canonical drops pairs whose first full-block symbol (scanning old then new)
// is B: swapping A and B maps them onto a pair that is kept. Tails referring to
// A ("A/65535") break the symmetry, so pairs containing one are always kept.
func canonical(o, n wh.Build) bool {
	var sb strings.Builder
	for _, e := range o {
		sb.WriteString(e.Content + ";")
	}
	for _, e := range n {
		sb.WriteString(e.Content + ";")
	}
	s := sb.String()
	if strings.Contains(s, "A/") {
		return true
	}
	for i := 0; i < len(s); i++ {
		if s[i] == 'A' {
			return true
		}
		if s[i] == 'B' {
			return false
		}
	}
	return true
}

func f2Builds() []wh.Build {
	var out []wh.Build
	for _, a := range []string{"-", "", "=x", "=y"} {
		for _, b := range []string{"-", "=x"} {
			for _, c := range []string{"-", "=x", "=yy"} {
				for _, l := range []bool{false, true} {
					for _, d := range []bool{false, true} {
						var bd wh.Build
						if a != "-" {
							bd = append(bd, wh.F("a", a))
						}
						if b != "-" {
							bd = append(bd, wh.F("b", b))
						}
						if c != "-" {
							bd = append(bd, wh.F("d/c", c))
						}
						if l {
							bd = append(bd, wh.L("l", "a"))
						}
						if d {
							bd = append(bd, wh.D("e"))
						}
						out = append(out, bd)
					}
				}
			}
		}
	}
	return out
}
