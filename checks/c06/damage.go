package main

// Damage catalogue of C06 (same idea as the C05 catalogue, plus the kind swaps
// that hide whole subtrees and the "directory missing / empty" cases). Every
// operation is deterministic; offsets and lengths come from the boundary set of
// the file it touches.

import (
	"fmt"
	"os"
	"path/filepath"
	"sort"
	"strings"

	"github.com/itchio/lake/tlc"

	"verif/lib/wh"
)

// Damage is one operation.
//
//	flip       XOR 0x01 into the byte at offset N of regular file Path
//	truncate   cut regular file Path to N bytes (0 < N < size)
//	empty      cut regular file Path to 0 bytes
//	extend     append N pseudo-random bytes to non-empty regular file Path
//	fill       write N pseudo-random bytes into the empty regular file Path
//	delete     remove Path (recursively)
//	retarget   point symlink Path at To
//	kind       replace Path (recursively) by another kind, To:
//	             "file"          regular file containing "swapped"
//	             "dir"           directory with one child file (non-empty directory)
//	             "dangling"      symlink to a name that does not exist
//	             "twin"          the original is renamed to Path+".twin" and Path becomes a
//	                             symlink to it (everything below stays reachable through the link)
//	             "link-to-file"  symlink to a regular file created next to it (Path+".target")
//	emptydir   remove everything below directory Path, keep the directory
//	wipe       remove everything below the root, keep the root ("directory empty")
//	rmroot     remove the root directory itself ("directory missing")
//	extra      add an entry that is not part of the build: To "file" (Path = new file) or "dir"
type Damage struct {
	Op   string `json:"op"`
	Path string `json:"path,omitempty"`
	N    int64  `json:"n,omitempty"`
	To   string `json:"to,omitempty"`
}

func (d Damage) String() string {
	switch d.Op {
	case "flip", "truncate", "extend", "fill":
		return fmt.Sprintf("%s(%s,%d)", d.Op, d.Path, d.N)
	case "kind", "retarget", "extra":
		return fmt.Sprintf("%s(%s->%s)", d.Op, d.Path, d.To)
	case "wipe", "rmroot":
		return d.Op
	}
	return fmt.Sprintf("%s(%s)", d.Op, d.Path)
}

// Apply performs the damage under dir. applied=false means the operation does
// not make sense on the current state (target absent or of the wrong kind).
func (d Damage) Apply(dir string, seed int64) (applied bool, err error) {
	switch d.Op {
	case "rmroot":
		return true, os.RemoveAll(dir)
	case "wipe":
		ents, err := os.ReadDir(dir)
		if err != nil {
			return false, nil
		}
		for _, e := range ents {
			if err := os.RemoveAll(filepath.Join(dir, e.Name())); err != nil {
				return false, err
			}
		}
		return len(ents) > 0, nil
	}
	p := filepath.Join(dir, filepath.FromSlash(d.Path))
	st, lerr := os.Lstat(p)
	if d.Op == "extra" {
		if lerr == nil {
			return false, nil
		}
		if _, perr := os.Stat(filepath.Dir(p)); perr != nil {
			return false, nil
		}
		if d.To == "dir" {
			return true, os.Mkdir(p, 0o755)
		}
		return true, os.WriteFile(p, []byte("not part of the build"), 0o644)
	}
	if lerr != nil {
		return false, nil
	}
	isFile := st.Mode().IsRegular()
	isLink := st.Mode()&os.ModeSymlink != 0
	switch d.Op {
	case "flip":
		if !isFile || d.N >= st.Size() {
			return false, nil
		}
		f, err := os.OpenFile(p, os.O_RDWR, 0)
		if err != nil {
			return false, err
		}
		defer f.Close()
		var b [1]byte
		if _, err := f.ReadAt(b[:], d.N); err != nil {
			return false, err
		}
		b[0] ^= 0x01
		_, err = f.WriteAt(b[:], d.N)
		return true, err
	case "truncate":
		if !isFile || d.N >= st.Size() || d.N <= 0 {
			return false, nil
		}
		return true, os.Truncate(p, d.N)
	case "empty":
		if !isFile || st.Size() == 0 {
			return false, nil
		}
		return true, os.Truncate(p, 0)
	case "extend", "fill":
		if !isFile || d.N <= 0 || (d.Op == "fill") != (st.Size() == 0) {
			return false, nil
		}
		f, err := os.OpenFile(p, os.O_WRONLY|os.O_APPEND, 0)
		if err != nil {
			return false, err
		}
		defer f.Close()
		_, err = f.Write(wh.Content(fmt.Sprintf("r9/%d", d.N), seed))
		return true, err
	case "delete":
		return true, os.RemoveAll(p)
	case "emptydir":
		if !st.IsDir() {
			return false, nil
		}
		ents, err := os.ReadDir(p)
		if err != nil || len(ents) == 0 {
			return false, err
		}
		for _, e := range ents {
			if err := os.RemoveAll(filepath.Join(p, e.Name())); err != nil {
				return false, err
			}
		}
		return true, nil
	case "retarget":
		if !isLink {
			return false, nil
		}
		if err := os.Remove(p); err != nil {
			return false, err
		}
		return true, os.Symlink(d.To, p)
	case "kind":
		if d.To == "twin" {
			if isLink {
				return false, nil
			}
			if err := os.Rename(p, p+".twin"); err != nil {
				return false, err
			}
			return true, os.Symlink(filepath.Base(p)+".twin", p)
		}
		if (d.To == "file" && isFile) || (d.To == "dir" && st.IsDir()) {
			return false, nil
		}
		if err := os.RemoveAll(p); err != nil {
			return false, err
		}
		switch d.To {
		case "file":
			return true, os.WriteFile(p, []byte("swapped"), 0o644)
		case "dir":
			if err := os.Mkdir(p, 0o755); err != nil {
				return false, err
			}
			return true, os.WriteFile(filepath.Join(p, "child"), []byte("child"), 0o644)
		case "dangling":
			return true, os.Symlink("dangling-target", p)
		case "link-to-file":
			if err := os.WriteFile(p+".target", []byte("link target"), 0o644); err != nil {
				return false, err
			}
			return true, os.Symlink(filepath.Base(p)+".target", p)
		}
	}
	return false, fmt.Errorf("bad damage %+v", d)
}

// boundaries returns {0, 1, size-1, size} and {kB-1, kB, kB+1} for every block
// boundary kB <= size, restricted to [0,size].
func boundaries(size int64) []int64 {
	set := map[int64]bool{0: true, 1: true, size - 1: true, size: true}
	for k := int64(1); k*wh.B <= size; k++ {
		set[k*wh.B-1], set[k*wh.B], set[k*wh.B+1] = true, true, true
	}
	var out []int64
	for v := range set {
		if v >= 0 && v <= size {
			out = append(out, v)
		}
	}
	sort.Slice(out, func(i, j int) bool { return out[i] < out[j] })
	return out
}

var growths = []int64{1, wh.B - 1, wh.B + 1}

// Catalogue lists every single damage for the signed container: files first,
// then symlinks, then directories deepest first (so that in a sequence the
// operation on a descendant is applied before the one on its ancestor), then
// the whole-directory cases.
func Catalogue(c *tlc.Container) []Damage {
	var out []Damage
	for _, f := range c.Files {
		if f.Size == 0 {
			for _, n := range growths {
				out = append(out, Damage{Op: "fill", Path: f.Path, N: n})
			}
		} else {
			for _, o := range boundaries(f.Size) {
				if o < f.Size {
					out = append(out, Damage{Op: "flip", Path: f.Path, N: o})
				}
			}
			for _, o := range boundaries(f.Size) {
				if o > 0 && o < f.Size {
					out = append(out, Damage{Op: "truncate", Path: f.Path, N: o})
				}
			}
			out = append(out, Damage{Op: "empty", Path: f.Path})
			for _, n := range growths {
				out = append(out, Damage{Op: "extend", Path: f.Path, N: n})
			}
		}
		out = append(out, Damage{Op: "delete", Path: f.Path})
		for _, to := range []string{"dir", "dangling", "twin"} {
			out = append(out, Damage{Op: "kind", Path: f.Path, To: to})
		}
	}
	for _, l := range c.Symlinks {
		out = append(out, Damage{Op: "delete", Path: l.Path})
		out = append(out, Damage{Op: "retarget", Path: l.Path, To: l.Dest + "x"})
		out = append(out, Damage{Op: "retarget", Path: l.Path, To: "./" + l.Dest})
		out = append(out, Damage{Op: "kind", Path: l.Path, To: "file"})
		out = append(out, Damage{Op: "kind", Path: l.Path, To: "dir"})
	}
	dirs := append([]*tlc.Dir{}, c.Dirs...)
	sort.SliceStable(dirs, func(i, j int) bool { return len(dirs[i].Path) > len(dirs[j].Path) })
	for _, d := range dirs {
		out = append(out, Damage{Op: "delete", Path: d.Path})
		out = append(out, Damage{Op: "emptydir", Path: d.Path})
		for _, to := range []string{"file", "dangling", "twin", "link-to-file"} {
			out = append(out, Damage{Op: "kind", Path: d.Path, To: to})
		}
	}
	out = append(out, Damage{Op: "wipe"}, Damage{Op: "rmroot"})
	return out
}

// Harmless lists the operations that leave the directory valid (entries that
// are not part of the build): healing must then change nothing.
func Harmless(c *tlc.Container) []Damage {
	out := []Damage{{Op: "extra", Path: "zz-extra-file", To: "file"}, {Op: "extra", Path: "zz-extra-dir", To: "dir"}}
	for _, d := range c.Dirs {
		out = append(out, Damage{Op: "extra", Path: d.Path + "/zz-extra-file", To: "file"})
	}
	return out
}

// below says what the signed build expects underneath directory path p.
func below(c *tlc.Container, p string) string {
	pre := p + "/"
	hasDir, hasLink, hasFile := false, false, false
	for _, d := range c.Dirs {
		if strings.HasPrefix(d.Path, pre) {
			hasDir = true
		}
	}
	for _, l := range c.Symlinks {
		if strings.HasPrefix(l.Path, pre) {
			hasLink = true
		}
	}
	for _, f := range c.Files {
		if strings.HasPrefix(f.Path, pre) {
			hasFile = true
		}
	}
	switch {
	case hasDir || hasLink:
		return "nested" // the build expects directories or symlinks underneath
	case hasFile:
		return "files" // only regular files underneath
	}
	return "leaf"
}

func kindOf(c *tlc.Container, p string) string {
	for _, d := range c.Dirs {
		if d.Path == p {
			return "dir"
		}
	}
	for _, l := range c.Symlinks {
		if l.Path == p {
			return "symlink"
		}
	}
	for _, f := range c.Files {
		if f.Path == p {
			return "file"
		}
	}
	return "unknown"
}

// Class names the class of a damage for fingerprints: what kind of signed entry
// was hit, what it became and (for directories) what the build expects below.
func (d Damage) Class(c *tlc.Container) string {
	switch d.Op {
	case "wipe":
		return "root-emptied"
	case "rmroot":
		return "root-missing"
	case "extra":
		return "extra-" + d.To
	case "flip", "truncate", "empty", "extend", "fill":
		return "file-" + d.Op
	case "retarget":
		return "symlink-retargeted"
	}
	k := kindOf(c, d.Path)
	suffix := ""
	if k == "dir" {
		suffix = ":" + below(c, d.Path)
	}
	switch d.Op {
	case "delete":
		return k + "-deleted" + suffix
	case "emptydir":
		return "dir-emptied" + suffix
	case "kind":
		// twinlink = symlink to the renamed original, filelink = symlink to a regular file
		to := map[string]string{"file": "file", "dir": "dir", "dangling": "dangling",
			"twin": "twinlink", "link-to-file": "filelink"}[d.To]
		return k + "-replaced-by-" + to + suffix
	}
	return d.Op
}
