//go:build vsched

package main

// Scheduler-controlled part of C06: the real Validate + archive healer run under
// the controlled scheduler with file-system calls as visible (mutually
// dependent) operations, so every interleaving of the validator's directory /
// symlink pass, the validate worker, the per-file relays and aggregators, the
// healer's wound loop and its heal worker is enumerated up to a preemption bound.
// All files are smaller than one copy chunk, so every file-system access of any
// goroutine happens in a segment that starts with a visible file-system point
// (this is what makes happens-before caching sound here).

import (
	"context"
	"fmt"
	"os"
	"strings"

	"github.com/itchio/wharf/pwr"
	"github.com/itchio/wharf/zzverif/vsched"

	"verif/lib/runner"
	"verif/lib/wh"
)

func init() { schedSubs = schedBody }

// SchedCase is one scheduler scenario (and the replay artefact).
type SchedCase struct {
	Build    wh.Build `json:"build"`
	Damages  []Damage `json:"damages"`
	Cap      int      `json:"cap"` // wound channel capacity (0 = 1024)
	Bound    int      `json:"bound"`
	Schedule []int    `json:"schedule,omitempty"`
}

func schedScenarios(quick bool) []SchedCase {
	b := wh.Build{wh.D("x"), wh.D("x/y"), wh.F("x/y/f", "=ffff"), wh.F("x/g", "r1/5000"), wh.L("l", "x/g"), wh.F("e", "")}
	small := wh.Build{wh.D("x"), wh.F("x/f", "=ffff"), wh.F("g", "=gg")}
	bd := func(q, t int) int {
		if quick {
			return q
		}
		return t
	}
	var out []SchedCase
	add := func(build wh.Build, q, t int, caps []int, ds ...Damage) {
		for _, c := range caps {
			out = append(out, SchedCase{Build: build, Damages: ds, Cap: c, Bound: bd(q, t)})
		}
	}
	// small build: deeper bounds
	add(small, 1, 2, []int{1}, Damage{Op: "flip", Path: "x/f", N: 0})
	if !quick {
		add(small, 1, 2, []int{0}, Damage{Op: "flip", Path: "x/f", N: 0})
		add(b, 1, 1, []int{0}, Damage{Op: "flip", Path: "x/y/f", N: 1})
	}
	add(small, 1, 2, []int{1}, Damage{Op: "kind", Path: "x", To: "file"})
	add(small, 1, 2, []int{1, 2}, Damage{Op: "wipe"})
	add(small, 1, 2, []int{1}, Damage{Op: "rmroot"})
	add(small, 1, 2, []int{1}, Damage{Op: "truncate", Path: "g", N: 1}, Damage{Op: "delete", Path: "x/f"})
	add(small, 0, 2, []int{1})
	// design build
	add(b, 0, 1, []int{1}, Damage{Op: "kind", Path: "x", To: "file"})
	add(b, 0, 1, []int{1}, Damage{Op: "kind", Path: "x/y", To: "file"})
	add(b, 1, 1, []int{1}, Damage{Op: "flip", Path: "x/y/f", N: 1})
	add(b, 0, 1, []int{1}, Damage{Op: "truncate", Path: "x/g", N: 100})
	add(b, 0, 1, []int{1}, Damage{Op: "retarget", Path: "l", To: "e"})
	add(b, 0, 1, []int{1, 2}, Damage{Op: "wipe"})
	add(b, 0, 1, []int{1}, Damage{Op: "kind", Path: "x/g", To: "dir"}, Damage{Op: "flip", Path: "x/y/f", N: 0})
	add(b, 0, 1, []int{1}, Damage{Op: "kind", Path: "x", To: "dangling"}, Damage{Op: "fill", Path: "e", N: 10})
	return out
}

func schedBody(w *runner.W) {
	env := NewEnv(w.Scratch(), w.Seed)
	var sub *runner.Sub[SchedCase]
	sub = runner.NewSub(w, "interleavings", func(sc SchedCase, r *runner.Rec) {
		p, err := env.Prepare(sc.Build)
		if err != nil {
			panic(err)
		}
		zipPath, err := env.Zip(p, "zip")
		if err != nil {
			panic(err)
		}
		target := env.Fresh("sched-target")
		defer os.RemoveAll(target)
		c := Case{Build: sc.Build, Damages: sc.Damages, Zip: "zip"}
		vsched.SetCapOverride(sc.Cap)
		defer vsched.SetCapOverride(0)
		var verr error
		var returned bool
		var before map[string]wh.Snap
		bodyFn := func() {
			verr, returned = nil, false
			// fresh damaged copy (no other goroutine exists yet)
			os.RemoveAll(target)
			if err := wh.CopyTree(p.Dir, target); err != nil {
				panic(err)
			}
			for _, d := range sc.Damages {
				if _, err := d.Apply(target, env.Seed); err != nil {
					panic(err)
				}
			}
			before, _ = wh.Snapshot(target)
			vctx := &pwr.ValidatorContext{Consumer: wh.Quiet(), HealPath: "archive," + zipPath}
			verr = vctx.Validate(context.Background(), target, p.Sig)
			returned = true
		}
		judge := func(out vsched.Result) (string, string) {
			switch out.Kind {
			case "done":
			case "deadlock":
				return "deadlock:" + attribute(c, p, "", true), "Validate with healer never returns: deadlock [" + out.Detail + "]"
			case "step-budget":
				return "livelock", out.Detail
			case "panic":
				return "panic:" + runner.PanicSite(out.Detail), out.Detail
			default:
				return "harness:" + out.Kind, out.Detail
			}
			if !returned {
				return "harness:no-return", ""
			}
			if verr != nil {
				ec, _ := errnoClass(verr)
				return "heal-error:" + ec + ":" + attribute(c, p, "", true), fmt.Sprintf("Validate with healer returned an error: %v", verr)
			}
			after, err := wh.Snapshot(target)
			if err != nil {
				return "harness:snapshot", err.Error()
			}
			wrongBefore := wh.MissingOrWrong(before, p.Want)
			if len(wrongBefore) == 0 {
				if d := wh.DiffSnaps(after, before, true); len(d) > 0 {
					return "valid-dir-modified:" + attribute(c, p, "", true), "healing a valid directory changed it: " + strings.Join(d, "; ")
				}
				return "", ""
			}
			if wrong := wh.MissingOrWrong(after, p.Want); len(wrong) > 0 {
				return "unhealed:" + attribute(c, p, "", true), "Validate with healer returned nil but the directory is not the signed build: " + strings.Join(wrong, "; ")
			}
			if aerr := pwr.AssertValid(target, p.Sig); aerr != nil {
				return "failfast-rejects-healed:" + attribute(c, p, "", true), aerr.Error()
			}
			return "", ""
		}
		opts := vsched.Options{PreemptionBound: sc.Bound, StepBudget: 50000}
		if sc.Schedule != nil {
			out := vsched.RunOnce(opts, sc.Schedule, bodyFn)
			if fp, msg := judge(out); fp != "" {
				r.Failf(fp, "%s", msg)
			}
			return
		}
		opts.Deadline = w.Deadline()
		split := sc.Bound >= 2 || len(sc.Build) > 3 && sc.Bound >= 1
		if split {
			opts.ShardIdx, opts.ShardN = w.Index(), w.N()
		}
		reported := map[string]bool{}
		outcomes := map[string]int{}
		st := vsched.Explore(opts, bodyFn, func(out vsched.Result) bool {
			fp, msg := judge(out)
			outcomes[out.Kind+"/"+fp]++
			if fp != "" && !reported[fp] {
				reported[fp] = true
				again := vsched.RunOnce(vsched.Options{PreemptionBound: sc.Bound, StepBudget: 50000}, out.Choices, bodyFn)
				if fp2, _ := judge(again); fp2 != fp {
					r.Failf("harness:nondeterministic-replay", "schedule %v gave %q then %q", out.Choices, fp, fp2)
					return false
				}
				cc := sc
				cc.Schedule = append([]int{}, out.Choices...)
				sub.Report(cc, fp, "%s; schedule=%v", msg, out.Choices)
			}
			return true
		})
		if os.Getenv("VERIF_DEBUG") != "" {
			fmt.Fprintf(os.Stderr, "scenario %v cap=%d bound=%d: %+v %v\n", sc.Damages, sc.Cap, sc.Bound, st, outcomes)
		}
		if st.HarnessError != "" {
			r.Failf("harness:explore", "%s", st.HarnessError)
		}
		sub.Count(int64(st.Executions), int64(st.States), int64(st.Transitions))
		first := !split || w.Index() == 0
		if first && len(sc.Damages) > 0 {
			r.Nontrivial()
		}
		r.Outcome(fmt.Sprintf("%d-damages/maxg=%d", len(sc.Damages), st.MaxGoroutines))
		sub.AddNote("executions", st.Executions)
		sub.AddNote("pruned_by_hb_cache", st.Pruned)
		sub.AddNote("alternatives_skipped_by_lookahead", st.Skipped)
		sub.MaxNote("max_goroutines", st.MaxGoroutines)
		sub.MaxNote("max_preemptions_used", st.MaxPreempts)
		sub.MaxNote("max_choice_depth", st.MaxDepth)
		if first {
			if st.Complete {
				sub.AddNote(fmt.Sprintf("scenarios_complete_bound_%d", sc.Bound), 1)
			} else {
				sub.AddNote("scenarios_cut_by_deadline", 1)
				sub.Note(fmt.Sprintf("cut:%v/cap%d/b%d", sc.Damages, sc.Cap, sc.Bound), st.Executions)
			}
		}
		if st.MaxGoroutines < 3 {
			// not an error of anybody: the code may have been restructured so that this scenario
			// has nothing to interleave any more; the evidence says so
			sub.AddNote("scenarios_without_concurrency", 1)
			sub.Incomplete("a scenario never had three goroutines alive at once: nothing to interleave there")
		}
	}, runner.Variant("sched"))
	if sub.Active() {
		scs := schedScenarios(w.Quick())
		isSplit := func(sc SchedCase) bool { return sc.Bound >= 2 || len(sc.Build) > 3 && sc.Bound >= 1 }
		for _, sc := range scs {
			if isSplit(sc) {
				sub.DoOwned(sc)
			}
		}
		for _, sc := range scs {
			if !isSplit(sc) {
				sub.Do(sc)
			}
		}
		sub.Done()
	}
}
