package main

// Scenario bodies and oracles of C06 as plain functions (no dependency on the
// runner): HealOnce performs one damage+heal execution and evaluates the
// oracle, HealCase repeats it and classifies failures as deterministic or
// schedule-dependent. A scheduler-controlled variant can call HealOnce directly.

import (
	"bytes"
	"context"
	"errors"
	"fmt"
	"os"
	"path/filepath"
	"runtime/debug"
	"sort"
	"strings"
	"syscall"
	"time"

	"github.com/itchio/lake/pools/fspool"
	"github.com/itchio/wharf/archiver"
	"github.com/itchio/wharf/archiver/containerarchiver"
	"github.com/itchio/wharf/pwr"

	"verif/lib/runner"
	"verif/lib/wh"
)

// ---------------------------------------------------------------- results

type Fail struct{ FP, Msg string }

type Out struct {
	Fails      []Fail
	Class      string
	Nontrivial bool
	Trans      int
}

func (o *Out) failf(fp, format string, a ...any) {
	o.Fails = append(o.Fails, Fail{fp, fmt.Sprintf(format, a...)})
}

// ---------------------------------------------------------------- environment

// Env owns the scratch space of one worker and caches prepared builds.
type Env struct {
	Root  string
	Seed  int64
	n     int
	preps map[string]*Prepared
}

// Prepared is a signed pristine build with its heal archives.
type Prepared struct {
	Dir  string
	Want map[string]wh.Snap
	Sig  *pwr.SignatureInfo
	zips map[string]string
}

func NewEnv(root string, seed int64) *Env {
	return &Env{Root: root, Seed: seed, preps: map[string]*Prepared{}}
}

func (e *Env) Fresh(prefix string) string {
	e.n++
	return filepath.Join(e.Root, fmt.Sprintf("%s%d", prefix, e.n))
}

func buildKey(b wh.Build) string {
	var sb strings.Builder
	for _, en := range b {
		fmt.Fprintf(&sb, "%s|%s|%s|%s;", en.Path, en.Kind, en.Content, en.Dest)
	}
	return sb.String()
}

// Prepare materialises and signs the build (cached).
func (e *Env) Prepare(b wh.Build) (*Prepared, error) {
	k := buildKey(b)
	if p, ok := e.preps[k]; ok {
		return p, nil
	}
	dir := e.Fresh("pristine")
	if err := b.Materialize(dir, e.Seed); err != nil {
		return nil, err
	}
	want, err := wh.Snapshot(dir)
	if err != nil {
		return nil, err
	}
	sig, err := wh.SignDir(dir)
	if err != nil {
		return nil, err
	}
	p := &Prepared{Dir: dir, Want: want, Sig: sig, zips: map[string]string{}}
	e.preps[k] = p
	return p, nil
}

// Zip returns the path of the archive of the pristine build made by the real
// compressor: "zip" archiver.CompressZip, "czip" containerarchiver.CompressZip.
func (e *Env) Zip(p *Prepared, producer string) (string, error) {
	if z, ok := p.zips[producer]; ok {
		return z, nil
	}
	var buf bytes.Buffer
	switch producer {
	case "zip":
		if _, err := archiver.CompressZip(&buf, p.Dir, wh.Quiet()); err != nil {
			return "", err
		}
	case "czip":
		pool := fspool.New(p.Sig.Container, p.Dir)
		_, err := containerarchiver.CompressZip(&buf, p.Sig.Container, pool, wh.Quiet())
		pool.Close()
		if err != nil {
			return "", err
		}
	default:
		return "", fmt.Errorf("unknown producer %q", producer)
	}
	path := e.Fresh("heal") + ".zip"
	if err := os.WriteFile(path, buf.Bytes(), 0o644); err != nil {
		return "", err
	}
	p.zips[producer] = path
	return path, nil
}

// ---------------------------------------------------------------- one execution

// Case: pristine copy of Build, Damages applied in order, then Validate with an
// archive healer fed from the zip of the pristine build.
type Case struct {
	Build   wh.Build `json:"build"`
	Damages []Damage `json:"damages"`
	Zip     string   `json:"zip"`  // zip | czip
	Reps    int      `json:"reps"` // executions of the same case (free-running goroutines)
}

const watchdog = 120 * time.Second

// guarded runs f under the watchdog and recovers a panic of f's own goroutine.
func guarded(f func() error) (err error, hung bool, panicAt string) {
	type ret struct {
		err error
		pat string
	}
	ch := make(chan ret, 1)
	go func() {
		defer func() {
			if e := recover(); e != nil {
				ch <- ret{fmt.Errorf("panic: %v", e), runner.PanicSite(string(debug.Stack()))}
			}
		}()
		ch <- ret{f(), ""}
	}()
	select {
	case r := <-ch:
		return r.err, false, r.pat
	case <-time.After(watchdog):
		return nil, true, ""
	}
}

func errnoClass(err error) (string, string) {
	path := ""
	var pe *os.PathError
	if errors.As(err, &pe) {
		path = pe.Path
	}
	var le *os.LinkError
	if errors.As(err, &le) {
		path = le.New
	}
	var en syscall.Errno
	if errors.As(err, &en) {
		switch en {
		case syscall.ENOTDIR:
			return "enotdir", path
		case syscall.EISDIR:
			return "eisdir", path
		case syscall.ENOENT:
			return "enoent", path
		case syscall.EEXIST:
			return "eexist", path
		case syscall.ENOTEMPTY:
			return "enotempty", path
		case syscall.ELOOP:
			return "eloop", path
		case syscall.EINVAL:
			return "einval", path
		}
		return fmt.Sprintf("errno%d", int(en)), path
	}
	return "other", path
}

// attribute names the class of the damage responsible for a failure at rel: among
// the damages that hit rel or an ancestor of it, the deepest one when deepest is
// set (an error at a path is caused by the closest damaged ancestor), else the
// outermost one (an entry that stays missing was hidden by the outermost swap).
// Whole-root damages win; without a path all classes are joined.
func attribute(c Case, p *Prepared, rel string, deepest bool) string {
	rel = filepath.ToSlash(rel)
	for _, d := range c.Damages {
		if d.Op == "wipe" || d.Op == "rmroot" {
			return d.Class(p.Sig.Container)
		}
	}
	pick := func(match func(d Damage) bool, deep bool) int {
		best := -1
		for i, d := range c.Damages {
			if rel == "" || !match(d) {
				continue
			}
			if best < 0 || (deep && len(d.Path) > len(c.Damages[best].Path)) || (!deep && len(d.Path) < len(c.Damages[best].Path)) {
				best = i
			}
		}
		return best
	}
	covers := func(d Damage) bool { return rel == d.Path || strings.HasPrefix(rel, d.Path+"/") }
	best := -1
	if deepest {
		// an error below a path is first of all explained by the outermost damage that
		// made a strict ancestor resolve to a regular file (it wiped whatever was inside)
		best = pick(func(d Damage) bool {
			return strings.HasPrefix(rel, d.Path+"/") && d.Op == "kind" && (d.To == "file" || d.To == "link-to-file")
		}, false)
	}
	if best < 0 {
		best = pick(covers, deepest)
	}
	if best >= 0 {
		return c.Damages[best].Class(p.Sig.Container)
	}
	var cl []string
	for _, d := range c.Damages {
		cl = append(cl, d.Class(p.Sig.Container))
	}
	sort.Strings(cl)
	if len(cl) == 0 {
		return "pristine"
	}
	return strings.Join(cl, "+")
}

// RunResult is the outcome of one execution.
type RunResult struct {
	Fails    []Fail // fingerprints without the schedule-dependence suffix
	Applied  bool   // every damage made sense on the state it met
	Deviated bool   // the directory handed to Validate differed from the signed build
	Repaired int    // signed entries that were missing/wrong before and right afterwards
	Verdict  string
}

// HealOnce performs one execution of the case and evaluates the oracle.
func HealOnce(env *Env, p *Prepared, c Case) (r RunResult) {
	failf := func(fp, format string, a ...any) {
		r.Fails = append(r.Fails, Fail{fp, fmt.Sprintf(format, a...)})
	}
	zipPath, err := env.Zip(p, c.Zip)
	if err != nil {
		failf("harness:zip", "%v", err)
		return
	}
	target := env.Fresh("target")
	defer os.RemoveAll(target)
	if err := wh.CopyTree(p.Dir, target); err != nil {
		failf("harness:copy", "%v", err)
		return
	}
	if len(p.Want) == 0 {
		os.MkdirAll(target, 0o755)
	}
	r.Applied = true
	for _, d := range c.Damages {
		ok, err := d.Apply(target, env.Seed)
		if err != nil {
			failf("harness:damage", "%s: %v", d, err)
			return
		}
		if !ok {
			r.Applied = false
			r.Verdict = "inapplicable"
			return
		}
	}
	before, err := wh.Snapshot(target)
	if err != nil {
		failf("harness:snapshot", "%v", err)
		return
	}
	wrongBefore := wh.MissingOrWrong(before, p.Want)
	r.Deviated = len(wrongBefore) > 0

	vctx := &pwr.ValidatorContext{Consumer: wh.Quiet(), HealPath: "archive," + zipPath}
	verr, hung, pat := guarded(func() error { return vctx.Validate(context.Background(), target, p.Sig) })
	switch {
	case hung:
		failf("hang:"+attribute(c, p, "", true), "Validate with healer did not return within %s", watchdog)
		r.Verdict = "hang"
		return
	case pat != "":
		failf("panic:"+pat, "%v", verr)
		r.Verdict = "panic"
		return
	case verr != nil:
		ec, path := errnoClass(verr)
		rel, _ := filepath.Rel(target, path)
		if path == "" || strings.HasPrefix(rel, "..") {
			rel = ""
		}
		failf("heal-error:"+ec+":"+attribute(c, p, rel, true), "Validate with healer returned an error: %v", verr)
		r.Verdict = "error:" + ec
		return
	}

	after, err := wh.Snapshot(target)
	if err != nil {
		failf("harness:snapshot", "%v", err)
		return
	}
	if !r.Deviated {
		// the directory was valid: healing must change nothing (content, inode, mtime, no new entries)
		if d := wh.DiffSnaps(after, before, true); len(d) > 0 {
			failf("valid-dir-modified:"+attribute(c, p, "", true), "healing a directory that was already valid changed it: %s", strings.Join(d, "; "))
		}
		r.Verdict = "valid-unchanged"
	} else {
		wrongAfter := wh.MissingOrWrong(after, p.Want)
		r.Repaired = len(wrongBefore) - len(wrongAfter)
		if len(wrongAfter) > 0 {
			what := "wrong"
			first := wrongAfter[0]
			rel := ""
			for _, s := range wrongAfter {
				if strings.HasPrefix(s, "missing ") {
					what = "missing"
					first = s
					break
				}
			}
			// "missing <path> (k)" | "kind of <path>: ..." | "content of <path>: ..." | "dest of <path>: ..."
			f := strings.Fields(strings.NewReplacer("kind of ", "", "content of ", "", "dest of ", "", "missing ", "").Replace(first))
			if len(f) > 0 {
				rel = strings.TrimSuffix(f[0], ":")
			}
			failf("unhealed:"+what+":"+attribute(c, p, rel, false), "Validate with healer returned nil but the directory is not the signed build: %s", strings.Join(wrongAfter, "; "))
			r.Verdict = "not-healed"
		} else {
			r.Verdict = "healed"
		}
	}
	aerr, hung, pat := guarded(func() error { return pwr.AssertValid(target, p.Sig) })
	switch {
	case hung:
		failf("hang:assert-valid", "fail-fast validation after healing did not return within %s", watchdog)
	case pat != "":
		failf("panic:"+pat, "fail-fast validation after healing: %v", aerr)
	case aerr != nil && len(r.Fails) == 0:
		// (when the tree oracle already failed, the fail-fast error is the same finding)
		failf("failfast-rejects-healed:"+attribute(c, p, "", true), "tree oracle is satisfied but fail-fast validation says: %v", aerr)
	}
	return
}

// ---------------------------------------------------------------- repetition + classification

// HealCase runs the case Reps times and merges the results: a failure class seen
// in every execution keeps its fingerprint, one seen in only some executions
// gets the suffix ":schedule-dependent".
func HealCase(env *Env, c Case) (o Out) {
	p, err := env.Prepare(c.Build)
	if err != nil {
		o.failf("harness:prepare", "%v", err)
		return
	}
	reps := c.Reps
	if reps < 1 {
		reps = 1
	}
	type agg struct {
		n   int
		msg string
	}
	seen := map[string]*agg{}
	var order []string
	verdicts := map[string]int{}
	for i := 0; i < reps; i++ {
		r := HealOnce(env, p, c)
		if !r.Applied && len(r.Fails) == 0 {
			o.Class = "inapplicable"
			return
		}
		verdicts[r.Verdict]++
		if r.Deviated || len(c.Damages) == 0 {
			o.Nontrivial = true
		}
		o.Trans += len(c.Damages) + r.Repaired
		for _, f := range r.Fails {
			a := seen[f.FP]
			if a == nil {
				a = &agg{msg: f.Msg}
				seen[f.FP] = a
				order = append(order, f.FP)
			}
			a.n++
		}
	}
	for _, fp := range order {
		a := seen[fp]
		if a.n == reps || strings.HasPrefix(fp, "harness:") {
			o.failf(fp, "%d/%d executions: %s", a.n, reps, a.msg)
		} else {
			o.failf(fp+":schedule-dependent", "%d/%d executions: %s", a.n, reps, a.msg)
		}
	}
	var vs []string
	for v := range verdicts {
		vs = append(vs, v)
	}
	sort.Strings(vs)
	cl := "pristine"
	if len(c.Damages) > 0 {
		cl = c.Damages[len(c.Damages)-1].Class(p.Sig.Container)
	}
	o.Class = cl + " => " + strings.Join(vs, "|")
	return
}
