// C06 (sequential / free-running part) — healing from an archive restores any
// damaged directory to the signed build; healing a valid directory changes
// nothing. Builds x damage sequences (length <= 2) through the real
// ValidatorContext.Validate with HealPath "archive,<zip of the pristine build>".
// Scenario bodies and oracles are in scenarios.go, the catalogue in damage.go.
package main

import (
	"fmt"
	"os"
	"path/filepath"
	"time"

	"verif/lib/runner"
	"verif/lib/wh"
)

func builds() []wh.Build {
	return []wh.Build{
		// the scenario build of the plan: nested directories with entries below, a 1-block and a
		// 2-block file, a symlink into the tree, an empty file, an empty directory
		{wh.D("x"), wh.D("x/y"), wh.F("x/y/f", "A"), wh.F("x/g", "B.C"), wh.L("l", "x/g"), wh.F("e", ""), wh.D("emptydir")},
		// symlinks and empty directories underneath directories (what a directory pass has to look at)
		{wh.F("top", "=t"), wh.F("d/sub/c", "D.D/1"), wh.L("d/l", "sub/c"), wh.D("d/sub/deep/er"), wh.L("d/sub/up", "../../top"), wh.F("d/e2", "")},
		// tiny literal files, many kinds side by side
		{wh.F("a", "=hello!"), wh.F("y/z", "=w"), wh.F("e1", ""), wh.L("y/l", "z"), wh.L("l0", "y"), wh.D("y/emptydir"), wh.D("p/q/r")},
		// block-boundary sizes without any directory
		{wh.F("m", "Z"), wh.F("n", "H/65535"), wh.F("o", "I.J/1"), wh.F("p", "z/1"), wh.L("lq", "o")},
		// the empty build and a single empty directory
		{},
		{wh.D("only")},
		// three levels, every level holding a file, a symlink and an empty directory; a symlink to a directory
		{wh.F("r", "=r"), wh.L("rl", "a/b"), wh.D("re"), wh.F("a/f", "E/100"), wh.L("a/l", "f"), wh.D("a/e"),
			wh.F("a/b/f", "F.G"), wh.L("a/b/l", "../f"), wh.D("a/b/e"), wh.F("a/b/empty", "")},
		// unusual names and permission bits
		{wh.FM("ro", "N/100", 0o444), wh.FM("priv/x", "=p", 0o600), wh.F("saves../slot1", "=s1"), wh.F("Case/x", "=1"), wh.F("case/x", "=2"),
			wh.F("a b/c d", "O/65535"), wh.L("Case/l", "../case/x"), wh.D("\u00e9t\u00e9")},
	}
}

func structural(d Damage) bool {
	switch d.Op {
	case "flip", "truncate", "empty", "extend", "fill":
		return false
	}
	return true
}

func main() {
	runner.Main(runner.Config{
		ID:    "C06",
		Level: "model_checking",
		Rule:  "(a) variant sched: stateless model checking of the real Validate + archive healer under a controlled scheduler with file-system calls as visible operations: every interleaving of validator passes, validate worker, relays/aggregators, healer wound loop and heal worker up to a preemption bound (happens-before cached DFS) on small builds x damage sets x wound-channel capacities, oracle after every execution; (b) bounded exhaustive fault enumeration, free-running goroutines: 7 builds (nested dirs with dirs/symlinks/files below, 1- and 2-block files, empty files, empty dirs, symlinks to files/dirs/upwards, the empty build) x every damage sequence of length 0, 1 and 2 and every triple of structural damages (quick: every 12th triple) (i<j<k in catalogue order: files, symlinks, dirs deepest first, whole directory) over the catalogue {flip/truncate at every boundary offset, empty, extend, fill, delete, retarget, kind swaps: file->non-empty dir/dangling symlink/symlink to its renamed original, symlink->file/non-empty dir, dir->file/dangling symlink/symlink to its renamed original/symlink to a file, dir emptied, root emptied, root missing} plus harmless extras (entries outside the build) -> real Validate with HealPath archive,<zip of the pristine build made by archiver.CompressZip or containerarchiver.CompressZip> under a 120s watchdog -> returns nil; independent Lstat tree oracle: every signed entry present with signed kind/content/dest (extras allowed); fail-fast validation of the result returns nil; a directory that was valid is unchanged incl. inode and mtime. Every case is executed 5 times (2 for pairs of pure content damages); a failure seen in only some executions is reported with the fingerprint suffix schedule-dependent. Non-trivial = the directory handed to Validate deviates from the signed build in a signed entry (or the pristine family).",
		Assumptions: []string{
			"goroutines of Validate/healer run free (Go scheduler); the interleaving dimension proper is the E2 part of C06, so a schedule-dependent defect may be missed here by chance but is never reported falsely",
			"file modes are not compared; damage bytes are seeded pseudo-random",
		},
		Variants:       []string{"sched"},
		QuickBudget:    120 * time.Second,
		ThoroughBudget: 15 * time.Minute,
	}, body)
}

func record(o Out, r *runner.Rec) {
	for _, f := range o.Fails {
		r.Failf(f.FP, "%s", f.Msg)
	}
	if o.Nontrivial {
		r.Nontrivial()
	}
	if o.Class != "" {
		r.Outcome(o.Class)
	}
	r.Trans(o.Trans)
}

var schedSubs func(w *runner.W)

func body(w *runner.W) {
	if schedSubs != nil && w.Variant == "sched" {
		schedSubs(w)
		return
	}
	// the pid keeps a worker restarted after a crash away from the leftovers of its predecessor
	env := NewEnv(filepath.Join(w.Scratch(), fmt.Sprintf("c06-%d", os.Getpid())), w.Seed)
	run := func(c Case, r *runner.Rec) { record(HealCase(env, c), r) }
	bs := builds()
	producers := []string{"zip", "czip"}

	// ---------------- valid directories ----------------
	pr := runner.NewSub(w, "valid-unchanged", run, runner.Journal())
	if pr.Active() {
		for _, b := range bs {
			p, err := env.Prepare(b)
			if err != nil {
				pr.Report(Case{Build: b}, "harness:prepare", "%v", err)
				continue
			}
			for _, z := range producers {
				pr.Do(Case{Build: b, Zip: z, Reps: 3})
				hs := Harmless(p.Sig.Container)
				for _, h := range hs {
					pr.Do(Case{Build: b, Damages: []Damage{h}, Zip: z, Reps: 3})
				}
				for i := range hs {
					for j := i + 1; j < len(hs); j++ {
						pr.Do(Case{Build: b, Damages: []Damage{hs[i], hs[j]}, Zip: z, Reps: 2})
					}
				}
			}
		}
		pr.Done()
	}

	// ---------------- single damages ----------------
	sd := runner.NewSub(w, "single", run, runner.Journal())
	if sd.Active() {
		n := 0
		for _, b := range bs {
			p, err := env.Prepare(b)
			if err != nil {
				continue
			}
			for _, d := range Catalogue(p.Sig.Container) {
				for zi, z := range producers {
					_ = zi
					sd.Do(Case{Build: b, Damages: []Damage{d}, Zip: z, Reps: 5})
				}
				n++
			}
		}
		sd.Note("catalogue_entries", n)
		sd.Done()
	}

	// ---------------- pairs ----------------
	dp := runner.NewSub(w, "pairs", run, runner.Journal())
	if dp.Active() {
		n := 0
		for _, b := range bs {
			p, err := env.Prepare(b)
			if err != nil {
				continue
			}
			cat := Catalogue(p.Sig.Container)
			// harmless extras take part in pairs too: an extra next to a damage must not prevent healing
			cat = append(cat, Harmless(p.Sig.Container)[:1]...)
			for i := range cat {
				for j := i + 1; j < len(cat); j++ {
					if w.Expired() {
						break
					}
					si, sj := structural(cat[i]), structural(cat[j])
					n++
					reps := 5
					if !si && !sj {
						reps = 2
					}
					dp.Do(Case{Build: b, Damages: []Damage{cat[i], cat[j]}, Zip: producers[n%2], Reps: reps})
					if !w.Quick() {
						dp.Do(Case{Build: b, Damages: []Damage{cat[i], cat[j]}, Zip: producers[(n+1)%2], Reps: reps})
					}
				}
			}
		}
		dp.Note("pairs_total", n)
		dp.Done()
	}

	// ---------------- triples of structural damages ----------------
	tr := runner.NewSub(w, "structural-triples", run, runner.Journal())
	if tr.Active() {
		n := 0
		for _, b := range bs {
			p, err := env.Prepare(b)
			if err != nil {
				continue
			}
			var cat []Damage
			for _, d := range Catalogue(p.Sig.Container) {
				if structural(d) && d.Op != "wipe" && d.Op != "rmroot" {
					cat = append(cat, d)
				}
			}
			for i := range cat {
				for j := i + 1; j < len(cat); j++ {
					for k := j + 1; k < len(cat); k++ {
						if w.Expired() {
							break
						}
						n++
						if w.Quick() && n%12 != 0 {
							continue
						}
						tr.Do(Case{Build: b, Damages: []Damage{cat[i], cat[j], cat[k]}, Zip: producers[n%2], Reps: 5})
					}
				}
			}
		}
		tr.Note("triples_total", n)
		tr.Done()
	}
}
