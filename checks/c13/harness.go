package main

import (
	"bytes"
	"encoding/binary"
	"encoding/gob"
	"fmt"
	"io"
	"strings"

	"github.com/golang/protobuf/proto"
	"github.com/itchio/savior/seeksource"
	"github.com/itchio/wharf/pwr"
	"github.com/itchio/wharf/wire"
	"github.com/pkg/errors"

	"verif/lib/wh"
)

// ---------------------------------------------------------------------------
// messages of an exact encoded length

func uvarintLen(n int) int {
	l := 1
	for n >= 0x80 {
		n >>= 7
		l++
	}
	return l
}

// msgOfLen builds a pwr.SyncOp whose protobuf encoding is exactly L bytes
// (L==1 is impossible in proto3: a field costs at least two bytes). The bulk
// is the bytes field, filled from data; varint fields pad the remainder.
func msgOfLen(L int, data func(n int) []byte) *pwr.SyncOp {
	if L == 0 {
		return &pwr.SyncOp{}
	}
	if L == 1 {
		panic("no protobuf message encodes to 1 byte")
	}
	type pad struct {
		cost       int
		fi, bi, bs int64
	}
	pads := []pad{{0, 0, 0, 0}, {2, 1, 0, 0}, {3, 200, 0, 0}, {4, 1, 1, 0}, {5, 200, 1, 0}, {6, 200, 300, 0}}
	for _, p := range pads {
		rest := L - p.cost
		if rest == 0 {
			return &pwr.SyncOp{FileIndex: p.fi, BlockIndex: p.bi, BlockSpan: p.bs}
		}
		for n := rest - 2; n >= 1 && n >= rest-6; n-- {
			if 1+uvarintLen(n)+n == rest {
				return &pwr.SyncOp{FileIndex: p.fi, BlockIndex: p.bi, BlockSpan: p.bs, Data: data(n)}
			}
		}
	}
	panic(fmt.Sprintf("cannot build a message of %d bytes", L))
}

var words = strings.Fields("the of and to in is that for it as was with be by on not he this are or his from at which but have an had they you were their one all we can her has there been if more when will would who so no out up into than them its only time new some could these two may then do first any my now such like our over man me even most made after also did many before must through back years where much your way well down should because each just those people how too little state good very make world still own see men work long get here between both life being under never day same another know while last might us great old year off come since against go came right used take three")

// filler produces the byte content of message bodies: one long stream per
// case, sliced consecutively.
type filler struct {
	kind string
	src  []byte
	off  int
}

func newFiller(kind string, total int, seed int64) *filler {
	f := &filler{kind: kind}
	switch kind {
	case "rand":
		f.src = wh.Content(fmt.Sprintf("r5/%d", total), seed)
	case "text":
		// words picked by a seeded stream: compresses to roughly a third
		r := wh.Content(fmt.Sprintf("r6/%d", total/3+16), seed)
		b := make([]byte, 0, total+16)
		for i := 0; len(b) < total; i++ {
			b = append(b, words[int(r[i%len(r)])%len(words)]...)
			b = append(b, ' ')
		}
		f.src = b[:total]
	case "zero":
		f.src = make([]byte, total)
	default:
		panic("bad kind " + kind)
	}
	return f
}

func (f *filler) take(n int) []byte {
	b := f.src[f.off : f.off+n]
	f.off += n
	return b
}

// ---------------------------------------------------------------------------
// a written stream, cross-checked by independent framing

type stream struct {
	key    string
	msgs   []*pwr.SyncOp
	bodies [][]byte // expected protobuf bodies
	raw    []byte   // magic + header + (compressed) messages
	bounds []int64  // offsets of message boundaries in the decompressed message section; bounds[k] = offset after k messages
	werr   error    // failure of the independent cross-check (nil = the written stream is what it should be)
}

const streamMagic = pwr.PatchMagic

func buildStream(sizes []int, kind string, comp wh.Comp, seed int64) (*stream, error) {
	total := 0
	for _, s := range sizes {
		total += s
	}
	f := newFiller(kind, total, seed)
	st := &stream{}
	for _, L := range sizes {
		m := msgOfLen(L, f.take)
		b, err := proto.Marshal(m)
		if err != nil {
			return nil, err
		}
		if len(b) != L {
			return nil, fmt.Errorf("harness: message meant to be %d bytes encodes to %d", L, len(b))
		}
		st.msgs = append(st.msgs, m)
		st.bodies = append(st.bodies, b)
	}

	// --- written through the real wire writer and registered compressor
	var out bytes.Buffer
	wctx := wire.NewWriteContext(&out)
	if err := wctx.WriteMagic(streamMagic); err != nil {
		return nil, err
	}
	settings := comp.Settings()
	if err := wctx.WriteMessage(&pwr.PatchHeader{Compression: settings}); err != nil {
		return nil, err
	}
	cw, err := pwr.CompressWire(wctx, settings)
	if err != nil {
		return nil, err
	}
	for i, m := range st.msgs {
		if err := cw.WriteMessage(m); err != nil {
			return nil, fmt.Errorf("WriteMessage %d: %v", i, err)
		}
	}
	if err := cw.Close(); err != nil {
		return nil, fmt.Errorf("Close: %v", err)
	}
	st.raw = out.Bytes()

	// --- independent reading of what was written: own framing, stdlib gzip /
	// stand-alone brotli decoder
	st.werr = st.crossCheck(settings)
	return st, nil
}

func (st *stream) crossCheck(settings *pwr.CompressionSettings) error {
	b := st.raw
	if len(b) < 4 || int32(binary.LittleEndian.Uint32(b)) != streamMagic {
		return fmt.Errorf("magic missing")
	}
	off := 4
	hl, n := binary.Uvarint(b[off:])
	if n <= 0 || off+n+int(hl) > len(b) {
		return fmt.Errorf("header frame broken")
	}
	off += n
	hdr := &pwr.PatchHeader{}
	if err := proto.Unmarshal(b[off:off+int(hl)], hdr); err != nil {
		return fmt.Errorf("header: %v", err)
	}
	off += int(hl)
	if !proto.Equal(hdr.Compression, settings) {
		return fmt.Errorf("header carries %v, wrote %v", hdr.Compression, settings)
	}
	body, err := wh.Decompress(settings, b[off:])
	if err != nil {
		return fmt.Errorf("independent decompression: %v", err)
	}
	st.bounds = []int64{0}
	p := 0
	for i, want := range st.bodies {
		l, n := binary.Uvarint(body[p:])
		if n <= 0 {
			return fmt.Errorf("message %d: no length prefix at %d (decompressed stream has %d bytes)", i, p, len(body))
		}
		p += n
		if int(l) != len(want) {
			return fmt.Errorf("message %d: length prefix says %d, wrote %d", i, l, len(want))
		}
		if p+int(l) > len(body) {
			return fmt.Errorf("message %d: body cut short", i)
		}
		if !bytes.Equal(body[p:p+int(l)], want) {
			return fmt.Errorf("message %d: body differs from what was written", i)
		}
		p += int(l)
		st.bounds = append(st.bounds, int64(p))
	}
	if p != len(body) {
		return fmt.Errorf("%d trailing bytes after the last message", len(body)-p)
	}
	return nil
}

// ---------------------------------------------------------------------------
// reading through the real reader

// open builds a brand-new source stack + ReadContext over the stream bytes,
// the way patcher.New does: seek source -> magic -> header -> DecompressWire.
func (st *stream) open() (*wire.ReadContext, error) {
	src := seeksource.FromBytes(st.raw)
	if _, err := src.Resume(nil); err != nil {
		return nil, err
	}
	raw := wire.NewReadContext(src)
	if err := raw.ExpectMagic(streamMagic); err != nil {
		return nil, fmt.Errorf("ExpectMagic: %v", err)
	}
	hdr := &pwr.PatchHeader{}
	if err := raw.ReadMessage(hdr); err != nil {
		return nil, fmt.Errorf("header: %v", err)
	}
	rctx, err := pwr.DecompressWire(raw, hdr.Compression)
	if err != nil {
		return nil, fmt.Errorf("DecompressWire: %v", err)
	}
	return rctx, nil
}

type popped struct {
	k   int // messages read when it was popped
	cp  *wire.MessageReaderCheckpoint
	gen int
}

type readFail struct {
	what string // short class: "error", "mismatch", "no-eof", "eof-early"
	k    int
	msg  string
}

// savePlan: WantSave is called before reading message k (k==n: before the
// read that must report end of stream) when at(k) is true.
type savePlan struct {
	every bool
	at    int // -1: never
	pop   int // PopCheckpoint is called before reading message k only when k%pop == 0 (0 = 1: always)
}

func (p savePlan) want(k int) bool { return p.every || p.at == k }

func (p savePlan) popAt(k int) bool { return p.pop <= 1 || k%p.pop == 0 }

func parseSave(s string) (savePlan, error) {
	switch {
	case s == "none" || s == "":
		return savePlan{at: -1}, nil
	case s == "every":
		return savePlan{every: true, at: -1}, nil
	case strings.HasPrefix(s, "every+pop:"):
		// saves requested before every message, but the caller only comes to collect the
		// checkpoint every pop-th message (it is busy with the messages in between)
		var i int
		if _, err := fmt.Sscanf(s, "every+pop:%d", &i); err != nil || i < 2 {
			return savePlan{}, fmt.Errorf("bad save plan %q", s)
		}
		return savePlan{every: true, at: -1, pop: i}, nil
	case strings.HasPrefix(s, "at:"):
		var i int
		if _, err := fmt.Sscanf(s, "at:%d", &i); err != nil {
			return savePlan{}, err
		}
		return savePlan{at: i}, nil
	}
	return savePlan{}, fmt.Errorf("bad save plan %q", s)
}

// readFrom reads messages k0.. through rctx, comparing with what was written,
// then demands end of stream. Before every read it (optionally) asks for a
// save and pops whatever checkpoint is ready, like the patcher loops do.
func (st *stream) readFrom(rctx *wire.ReadContext, k0 int, plan savePlan, onPop func(k int, cp *wire.MessageReaderCheckpoint)) (int, *readFail) {
	return st.readRange(rctx, k0, len(st.msgs), plan, onPop)
}

// readRange reads messages k0..last-1; when last is the number of messages it
// also performs the read that must report end of stream.
func (st *stream) readRange(rctx *wire.ReadContext, k0, last int, plan savePlan, onPop func(k int, cp *wire.MessageReaderCheckpoint)) (int, *readFail) {
	n := len(st.msgs)
	got := &pwr.SyncOp{}
	reads := 0
	for k := k0; k <= n; k++ {
		if k == last && last < n {
			return reads, nil
		}
		if plan.want(k) {
			rctx.WantSave()
		}
		if plan.popAt(k) {
			if cp := rctx.PopCheckpoint(); cp != nil && onPop != nil {
				onPop(k, cp)
			}
		}
		err := rctx.ReadMessage(got)
		reads++
		if k == n {
			if err == nil {
				return reads, &readFail{"no-eof", k, fmt.Sprintf("a message (%d bytes) was returned after the last written message", proto.Size(got))}
			}
			if errors.Cause(err) != io.EOF {
				return reads, &readFail{"no-eof", k, fmt.Sprintf("end of stream reported as %q, not io.EOF", err.Error())}
			}
			return reads, nil
		}
		if err != nil {
			if errors.Cause(err) == io.EOF {
				return reads, &readFail{"eof-early", k, fmt.Sprintf("end of stream reported instead of message %d of %d (%d bytes)", k, n, len(st.bodies[k]))}
			}
			return reads, &readFail{"error", k, fmt.Sprintf("message %d of %d (%d bytes): %v", k, n, len(st.bodies[k]), firstLine(err.Error()))}
		}
		if !proto.Equal(got, st.msgs[k]) {
			return reads, &readFail{"mismatch", k, fmt.Sprintf("message %d of %d differs from what was written (got %d bytes, wrote %d)", k, n, proto.Size(got), len(st.bodies[k]))}
		}
	}
	return reads, nil
}

func firstLine(s string) string {
	if i := strings.IndexByte(s, '\n'); i >= 0 {
		return s[:i]
	}
	return s
}

// gobRoundTrip serializes a checkpoint the way butler persists it.
func gobRoundTrip(cp *wire.MessageReaderCheckpoint) (*wire.MessageReaderCheckpoint, int, error) {
	var buf bytes.Buffer
	if err := gob.NewEncoder(&buf).Encode(cp); err != nil {
		return nil, 0, fmt.Errorf("encode: %v", err)
	}
	n := buf.Len()
	out := &wire.MessageReaderCheckpoint{}
	if err := gob.NewDecoder(&buf).Decode(out); err != nil {
		return nil, n, fmt.Errorf("decode: %v", err)
	}
	return out, n, nil
}
