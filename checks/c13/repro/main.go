// Stand-alone reproduction of the two failure classes C13 reports on the
// current tree (real packages only, no harness code):
//
//		cd /verif && GOFLAGS=-mod=mod GOPROXY=off go run ./checks/c13/repro
//
//	 1. eof-instead-of-final-empty-message:gzip — a stream whose last message
//	    encodes to zero bytes is read back one message short under gzip
//	    (savior/gzipsource.ReadByte hands out the last byte together with io.EOF).
//	 2. resume-error:gzip:checkpoint-at-end-of-stream:eof — a checkpoint popped
//	    after the last message cannot be resumed under gzip
//	    (savior.DiscardByRead fails when the Read that completes the discard also
//	    reports io.EOF).
package main

import (
	"bytes"
	"fmt"

	"github.com/itchio/savior/seeksource"
	"github.com/itchio/wharf/pwr"
	"github.com/itchio/wharf/wire"

	_ "github.com/itchio/wharf/compressors/gzip"
	_ "github.com/itchio/wharf/decompressors/gzip"
)

func write(settings *pwr.CompressionSettings, msgs ...*pwr.SyncOp) []byte {
	var out bytes.Buffer
	w := wire.NewWriteContext(&out)
	w.WriteMagic(pwr.PatchMagic)
	w.WriteMessage(&pwr.PatchHeader{Compression: settings})
	cw, err := pwr.CompressWire(w, settings)
	if err != nil {
		panic(err)
	}
	for _, m := range msgs {
		if err := cw.WriteMessage(m); err != nil {
			panic(err)
		}
	}
	if err := cw.Close(); err != nil {
		panic(err)
	}
	return out.Bytes()
}

func open(b []byte) *wire.ReadContext {
	src := seeksource.FromBytes(b)
	src.Resume(nil)
	raw := wire.NewReadContext(src)
	if err := raw.ExpectMagic(pwr.PatchMagic); err != nil {
		panic(err)
	}
	h := &pwr.PatchHeader{}
	if err := raw.ReadMessage(h); err != nil {
		panic(err)
	}
	r, err := pwr.DecompressWire(raw, h.Compression)
	if err != nil {
		panic(err)
	}
	return r
}

func main() {
	for _, algo := range []pwr.CompressionAlgorithm{pwr.CompressionAlgorithm_NONE, pwr.CompressionAlgorithm_GZIP} {
		cs := &pwr.CompressionSettings{Algorithm: algo, Quality: 1}
		// 1. stream = [ {fileIndex:1}, {} ]  (the last message encodes to zero bytes)
		b := write(cs, &pwr.SyncOp{FileIndex: 1}, &pwr.SyncOp{})
		r := open(b)
		m := &pwr.SyncOp{}
		fmt.Printf("%s: read #0: err=%v\n", algo, r.ReadMessage(m))
		fmt.Printf("%s: read #1 (empty message): err=%v\n", algo, r.ReadMessage(m))
		fmt.Printf("%s: read #2 (must be EOF): err=%v\n", algo, r.ReadMessage(m))

		// 2. checkpoint popped after the last message
		b = write(cs, &pwr.SyncOp{FileIndex: 1}, &pwr.SyncOp{Data: bytes.Repeat([]byte("abc"), 20000)})
		r = open(b)
		r.WantSave()
		var cp *wire.MessageReaderCheckpoint
		for i := 0; i < 2; i++ {
			if err := r.ReadMessage(m); err != nil {
				panic(err)
			}
			if c := r.PopCheckpoint(); c != nil {
				cp = c
			}
		}
		if cp == nil {
			fmt.Printf("%s: no checkpoint\n", algo)
			continue
		}
		fmt.Printf("%s: checkpoint offset=%d source offset=%d\n", algo, cp.Offset, cp.SourceCheckpoint.Offset)
		r2 := open(b)
		err := r2.Resume(cp)
		fmt.Printf("%s: Resume on a new reader: err=%v\n", algo, err)
		if err == nil {
			fmt.Printf("%s: read after resume: err=%v\n", algo, r2.ReadMessage(m))
		}
	}
}
