package main

import (
	"fmt"

	"verif/lib/runner"
	"verif/lib/wh"
)

// seqs lists every sequence over alpha of length lo..hi.
func seqs(alpha []int, lo, hi int) [][]int {
	var out [][]int
	var rec func(cur []int)
	rec = func(cur []int) {
		if len(cur) >= lo {
			out = append(out, append([]int{}, cur...))
		}
		if len(cur) == hi {
			return
		}
		for _, a := range alpha {
			rec(append(cur, a))
		}
	}
	rec(nil)
	return out
}

// monotone lists the non-decreasing and the non-increasing sequences of
// exactly n elements (alpha sorted ascending); constant ones once.
func monotone(alpha []int, n int) [][]int {
	var out [][]int
	var rec func(cur []int, from int)
	rec = func(cur []int, from int) {
		if len(cur) == n {
			out = append(out, append([]int{}, cur...))
			if cur[0] != cur[n-1] {
				rev := make([]int, n)
				for i := range cur {
					rev[n-1-i] = cur[i]
				}
				out = append(out, rev)
			}
			return
		}
		for i := from; i < len(alpha); i++ {
			rec(append(cur, alpha[i]), i)
		}
	}
	rec(nil, 0)
	return out
}

func hasHuge(s []int) bool {
	for _, x := range s {
		if x >= MiB {
			return true
		}
	}
	return false
}

func compsQuick() []wh.Comp {
	return []wh.Comp{"none", "gzip-1", "gzip-6", "gzip-9", "brotli-0", "brotli-1", "brotli-5", "brotli-9"}
}

// plans lists the save plans for a stream of n messages.
func plans(n int) []string {
	out := []string{"none"}
	for k := 0; k <= n; k++ {
		out = append(out, fmt.Sprintf("at:%d", k))
	}
	out = append(out, "every")
	if n >= 3 {
		// the caller collects checkpoints only every 2nd message
		out = append(out, "every+pop:2")
	}
	return out
}

func enumerate(w *runner.W, run func(Case, *runner.Rec)) {
	quick := w.Quick()
	full := append(append([]int{}, small...), huge...)
	compsT := wh.AllComps()
	compsQ := compsQuick()

	// one stream = one ordinal; all its save plans run in the same worker so
	// that the stream is written (compressed) once
	doStream := func(sub *runner.Sub[Case], ord *int, c Case, pl []string) {
		mine := w.Owns(*ord)
		*ord++
		if !mine {
			return
		}
		for _, p := range pl {
			cc := c
			cc.Save = p
			cc.Gen2 = p == "every" && len(c.Sizes) <= 8 && c.Cycle == nil
			sub.DoOwned(cc)
		}
	}

	// ---- F-none: framing and buffer regrowth, uncompressed -----------------
	fn := runner.NewSub(w, "F-none", run)
	if fn.Active() {
		var list [][]int
		if quick {
			list = seqs(full, 0, 2)
			list = append(list, seqs(small, 3, 3)...)
			for _, h := range huge { // big then small, small then big
				for _, a := range []int{0, 2, 32769, 65537} {
					for _, b := range []int{0, 32768, 65536} {
						list = append(list, []int{h, a, b}, []int{a, h, b}, []int{a, b, h})
					}
				}
			}
		} else {
			list = seqs(full, 0, 3)
			list = append(list, monotone(small, 4)...)
			for _, s3 := range monotone(small, 3) { // one huge message inside a monotone run
				list = append(list, []int{s3[0], 4*MiB + 1, s3[1], s3[2]}, []int{1*MiB + 1, s3[0], s3[1], s3[2]})
			}
		}
		ord := 0
		for _, s := range list {
			doStream(fn, &ord, Case{Sizes: s, Kind: "rand", Comp: "none"}, plans(len(s)))
		}
		fn.Note("sequences", len(list))
		fn.Done()
	}

	// ---- F-comp: every setting, sizes <= 65537 -----------------------------
	fc := runner.NewSub(w, "F-comp", run)
	if fc.Active() {
		type item struct {
			s     []int
			comps []wh.Comp
			both  bool // both body kinds; else the kind alternates with the ordinal
		}
		var items []item
		if quick {
			for _, s := range seqs(small, 0, 2) {
				items = append(items, item{s, compsQ, false})
			}
			for _, s := range monotone(small, 3) {
				items = append(items, item{s, compsQ, false})
			}
		} else {
			for _, s := range seqs(small, 0, 2) {
				items = append(items, item{s, compsT, true})
			}
			for _, s := range seqs(small, 3, 3) {
				items = append(items, item{s, compsT, false})
			}
			for _, s := range monotone(small, 4) {
				items = append(items, item{s, compsQ, false})
			}
		}
		ord := 0
		streams := 0
		for i, it := range items {
			for j, c := range it.comps {
				kinds := []string{"rand", "text"}
				if !it.both {
					kinds = kinds[(i+j)%2 : (i+j)%2+1]
				}
				if c == "none" {
					kinds = []string{"text"} // content is irrelevant uncompressed; F-none uses rand
				}
				for _, k := range kinds {
					streams++
					doStream(fc, &ord, Case{Sizes: it.s, Kind: k, Comp: c}, plans(len(it.s)))
				}
			}
		}
		fc.Note("sequences", len(items))
		fc.Note("streams", streams)
		fc.Done()
	}

	// ---- F-huge: >=1MiB messages under every setting ------------------------
	fh := runner.NewSub(w, "F-huge", run)
	if fh.Active() {
		var list [][]int
		for _, h := range huge {
			list = append(list, []int{h}, []int{h, 0}, []int{h, 2}, []int{h, 32769}, []int{0, h}, []int{32769, h}, []int{2, h, 0}, []int{32769, h, 2})
		}
		list = append(list, []int{1*MiB + 1, 4*MiB + 1}, []int{4*MiB + 1, 1*MiB + 1, 0})
		// beyond any data-op size: containers of big builds and copy-only bsdiff controls
		// are single messages of arbitrary size
		list = append(list, []int{4*MiB + 65536 + 9}, []int{2, 6*MiB + 3, 0}, []int{9*MiB + 1, 32769})
		comps := compsT
		kinds := []string{"rand", "text"}
		if quick {
			comps = compsQ
		}
		ord := 0
		for i, s := range list {
			for j, c := range comps {
				ks := kinds
				if quick {
					ks = kinds[(i+j)%2 : (i+j)%2+1]
				}
				for _, k := range ks {
					doStream(fh, &ord, Case{Sizes: s, Kind: k, Comp: c}, plans(len(s)))
				}
			}
		}
		fh.Note("sequences", len(list))
		fh.Done()
	}

	// ---- F-long: many messages, many checkpoint lags -------------------------
	fl := runner.NewSub(w, "F-long", run)
	if fl.Active() {
		probe20 := append(append([]int{}, full...), 127, 0, 65537, 2, 32768, 16384, 0)
		cyc := []*Cycle{
			{Set: []int{0, 2, 3, 127, 128, 129, 1000, 4095, 4096, 16383, 16384, 300}, N: 600},
			{Set: []int{0, 2, 5, 127, 128, 200, 0, 0, 31, 2}, N: 1500},
		}
		comps := compsT
		if quick {
			comps = compsQ
		}
		ord := 0
		for _, c := range comps {
			kinds := []string{"rand", "text", "zero"}
			if c == "none" {
				kinds = []string{"rand"}
			}
			for _, k := range kinds {
				n := len(probe20)
				doStream(fl, &ord, Case{Sizes: probe20, Kind: k, Comp: c}, []string{"none", "every", "every+pop:2", "every+pop:5", "at:0", fmt.Sprintf("at:%d", n/2), fmt.Sprintf("at:%d", n)})
				for _, cy := range cyc {
					doStream(fl, &ord, Case{Cycle: cy, Kind: k, Comp: c}, []string{"none", "every", "every+pop:2", "every+pop:5", "at:0", fmt.Sprintf("at:%d", cy.N/2), fmt.Sprintf("at:%d", cy.N)})
				}
			}
		}
		fl.Done()
	}
}
