// C13 — wire messages survive any compression setting; reader checkpoints
// resume exactly. Bounded exhaustive enumeration of message-size sequences x
// compression settings x save requests; every popped checkpoint goes through
// gob and is handed to a brand-new source stack + ReadContext over the same
// bytes.
package main

import (
	"fmt"
	"io"
	"strings"
	"time"

	"github.com/itchio/wharf/wire"
	"github.com/pkg/errors"

	"verif/lib/runner"
	"verif/lib/wh"
)

// Case is one (stream, save plan). Sizes are exact protobuf body lengths.
type Case struct {
	Sizes []int   `json:"sizes,omitempty"`
	Cycle *Cycle  `json:"cycle,omitempty"` // long streams: Sizes = Cycle.Set repeated up to Cycle.N messages
	Kind  string  `json:"kind"`            // rand | text | zero
	Comp  wh.Comp `json:"comp"`
	Save  string  `json:"save"` // none | every | every+pop:<j> (checkpoints collected every j-th message only) | at:<k> (WantSave before reading message k; k==len: before the read that must hit end of stream)
	Gen2  bool    `json:"gen2,omitempty"`
}

type Cycle struct {
	Set []int `json:"set"`
	N   int   `json:"n"`
}

func (c *Case) sizes() []int {
	if c.Cycle == nil {
		return c.Sizes
	}
	out := make([]int, c.Cycle.N)
	for i := range out {
		out[i] = c.Cycle.Set[i%len(c.Cycle.Set)]
	}
	return out
}

const (
	KiB = 1024
	MiB = 1024 * KiB
)

// the size alphabet: 0, the smallest non-empty message, both sides of the
// 1->2 byte length prefix (127/128) and of the 2->3 byte prefix (16383/16384),
// both sides of the reader's 32KiB initial buffer, both sides of the next
// power of two, and two sizes that force large regrowth.
var small = []int{0, 2, 127, 128, 16383, 16384, 32767, 32768, 32769, 65536, 65537}
var huge = []int{1*MiB + 1, 4*MiB + 1}

func main() {
	runner.Main(runner.Config{
		ID:    "C13",
		Level: "model_checking",
		Rule:  "message sequences over the body-length alphabet {0,2,127,128,16383,16384,32767,32768,32769,65536,65537,1MiB+1,4MiB+1} (1 is not a possible protobuf length): F-none = every sequence of length <=3 over the full alphabet plus every non-decreasing and non-increasing sequence of length 4, uncompressed; F-comp = every sequence of length <=2 (quick) / <=3 (thorough) over the 11 sizes <=65537 plus monotone sequences of length 3 (quick) / 4 (thorough) x {none, gzip 1,6,9, brotli 0,1,5,9} (thorough: every registered setting, gzip 1-9, brotli 0-9) x {incompressible, text} bodies; F-huge = sequences with one or two >=1MiB messages in first/middle/last position (sizes 1MiB+1, 4MiB+1, 4MiB+64KiB+9, 6MiB+3, 9MiB+1) x the same settings; F-long = a 20-message 5.6MiB stream and 600-message streams cycling over small sizes x settings x {incompressible, text, zero}. Each stream x save plan in {none, before message k for every k in 0..n, before every message, before every message with the checkpoint collected only every 2nd (F-long: also 5th) message} (F-long: none, every, delayed collection, three positions). Written by wire.WriteContext + pwr.CompressWire, cross-checked with independent framing + stdlib gzip; read by a new seek source + ReadContext + pwr.DecompressWire; every checkpoint popped at a message boundary is gob-encoded/decoded and resumed on a brand-new stack, both directly and after the new reader already read two messages (as patcher.New does); with Gen2 the resumed readers ask for saves as well and their checkpoints are resumed too. Non-trivial = at least one checkpoint was popped with messages left to read and resumed.",
		Assumptions: []string{
			"message bodies are pwr.SyncOp values of the exact encoded length; content is seeded pseudo-random, dictionary text or zeros (VERIF_SEED)",
			"no checkpoint count is asserted: decompressing sources decide when they can save (brotli offers one or two per several MiB at quality >=5)",
			"brotli streams cannot be cross-checked by a second decoder (only dskompress is available offline); their content is checked against what was written",
		},
		QuickBudget:    85 * time.Second,
		ThoroughBudget: 14 * time.Minute,
	}, body)
}

type cache struct {
	key string
	st  *stream
	err error
}

func body(w *runner.W) {
	var cc cache
	getStream := func(c *Case) (*stream, error) {
		sz := c.sizes()
		key := fmt.Sprint(sz, c.Kind, c.Comp)
		if len(sz) > 64 {
			key = fmt.Sprint(c.Cycle, c.Kind, c.Comp)
		}
		if cc.key != key {
			cc.st, cc.err = buildStream(sz, c.Kind, c.Comp, w.Seed)
			cc.key = key
		}
		return cc.st, cc.err
	}

	run := func(c Case, r *runner.Rec) {
		algo := strings.SplitN(string(c.Comp), "-", 2)[0]
		st, err := getStream(&c)
		if err != nil {
			r.Failf("write-error:"+algo, "%v", err)
			return
		}
		if st.werr != nil {
			r.Failf("written-stream-wrong:"+algo, "independent reading of the written stream: %v", st.werr)
			return
		}
		plan, err := parseSave(c.Save)
		if err != nil {
			r.Failf("bad-case", "%v", err)
			return
		}
		n := len(st.msgs)
		failRead := func(phase string, rf *readFail) {
			r.Failf(readFP(st, phase, algo, rf), "%s reader, save plan %s: %s", phase, c.Save, rf.msg)
		}

		// ---- first reader
		rctx, err := st.open()
		if err != nil {
			r.Failf("open-error:"+algo, "%v", err)
			return
		}
		var queue []popped
		reads, rf := st.readFrom(rctx, 0, plan, func(k int, cp *wire.MessageReaderCheckpoint) {
			queue = append(queue, popped{k, cp, 1})
		})
		r.Trans(reads)
		if rf != nil {
			phase := "plain"
			if c.Save != "none" {
				phase = "saving"
			}
			failRead(phase, rf)
			// checkpoints popped before the failure are still resumed below
		}

		// ---- every popped checkpoint, through gob, on a brand-new stack
		var maxLag int64
		resumedInterior := false
		nCp := 0
		lastOff := int64(-1)
		for qi := 0; qi < len(queue); qi++ {
			p := queue[qi]
			nCp++
			phase := "resumed"
			if p.gen == 2 {
				phase = "resumed2"
			}
			if p.cp.SourceCheckpoint != nil {
				if lag := p.cp.Offset - p.cp.SourceCheckpoint.Offset; lag > maxLag {
					maxLag = lag
				}
			}
			if p.cp.Offset != st.bounds[p.k] {
				r.Failf("checkpoint-offset:"+algo, "checkpoint popped after %d messages has offset %d, the boundary is at %d", p.k, p.cp.Offset, st.bounds[p.k])
			}
			if p.gen == 1 {
				if p.cp.Offset < lastOff {
					r.Failf("checkpoint-offset-decreasing:"+algo, "checkpoint offsets %d then %d", lastOff, p.cp.Offset)
				}
				lastOff = p.cp.Offset
			}
			// pre-read: the new reader has consumed its first messages before
			// Resume is called (never the end of stream)
			pres := []int{0}
			if n >= 3 {
				pres = append(pres, 2)
			} else if n == 2 {
				pres = append(pres, 1)
			}
			for _, pre := range pres {
				cp2, _, err := gobRoundTrip(p.cp)
				if err != nil {
					r.Failf("checkpoint-gob:"+algo, "checkpoint popped after %d messages: %v", p.k, err)
					break
				}
				r2, err := st.open()
				if err != nil {
					r.Failf("open-error:"+algo, "%v", err)
					break
				}
				if pre > 0 {
					// the new reader has already consumed the first messages
					// (patcher.New reads both containers before Resume)
					if _, rf := st.readPrefix(r2, pre); rf != nil {
						failRead("plain", rf)
						break
					}
				}
				if err := r2.Resume(cp2); err != nil {
					fp := "resume-error:" + algo
					if p.k == n && errors.Cause(err) == io.EOF {
						// the checkpoint sits exactly at the end of the stream
						fp += ":checkpoint-at-end-of-stream:eof"
					}
					r.Failf(fp, "Resume(checkpoint popped after %d of %d messages, offset %d, source offset %d) on a new reader (pre-read %d): %v", p.k, n, p.cp.Offset, srcOff(p.cp), pre, firstLine(err.Error()))
					continue
				}
				plan2 := savePlan{at: -1}
				var onPop func(int, *wire.MessageReaderCheckpoint)
				if c.Gen2 && p.gen == 1 && pre == 0 {
					plan2 = savePlan{every: true, at: -1}
					onPop = func(k int, cp *wire.MessageReaderCheckpoint) {
						queue = append(queue, popped{k, cp, 2})
					}
				}
				reads, rf := st.readFrom(r2, p.k, plan2, onPop)
				r.Trans(reads)
				r.States(1)
				if rf != nil {
					r.Failf(readFP(st, phase, algo, rf), "%s from the checkpoint popped after %d messages (offset %d, source offset %d, pre-read %d): %s", phase, p.k, p.cp.Offset, srcOff(p.cp), pre, rf.msg)
				} else if p.k < n {
					resumedInterior = true
				}
			}
		}
		if resumedInterior {
			r.Nontrivial()
		}
		cls := "0"
		switch {
		case nCp == 1:
			cls = "1"
		case nCp >= 2 && nCp < 10:
			cls = "2-9"
		case nCp >= 10:
			cls = "10+"
		}
		lag := "lag=0"
		if maxLag > 0 {
			lag = "lag>0"
		}
		if maxLag > 64*KiB {
			lag = "lag>64KiB"
		}
		r.Outcome(fmt.Sprintf("%s checkpoints=%s %s", algo, cls, lag))
	}

	enumerate(w, run)
}

// readFP names the class of a read failure: reader phase, kind of failure and
// algorithm. One class is independent of the phase: the stream ends with a
// zero-length message and the reader reports end of stream instead of it.
func readFP(st *stream, phase, algo string, rf *readFail) string {
	if rf.what == "eof-early" && rf.k == len(st.msgs)-1 && len(st.bodies[rf.k]) == 0 {
		return "eof-instead-of-final-empty-message:" + algo
	}
	return phase + ":" + rf.what + ":" + algo
}

func srcOff(cp *wire.MessageReaderCheckpoint) int64 {
	if cp.SourceCheckpoint == nil {
		return -1
	}
	return cp.SourceCheckpoint.Offset
}

// readPrefix reads the first `pre` messages without saving.
func (st *stream) readPrefix(rctx *wire.ReadContext, pre int) (int, *readFail) {
	return st.readRange(rctx, 0, pre, savePlan{at: -1}, nil)
}
