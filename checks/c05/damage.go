package main

// Damage catalogue: the ways a valid copy of a build is damaged before it is
// validated. Every operation is deterministic; offsets and lengths come from
// the boundary set of the file it touches.

import (
	"fmt"
	"os"
	"path/filepath"
	"sort"

	"github.com/itchio/lake/tlc"

	"verif/lib/wh"
)

// Damage is one operation of the catalogue.
//
//	flip      XOR 0x01 into the byte at offset N of regular file Path
//	collide   two bit flips that keep the weak checksum of block N of regular file Path: the
//	          first offset i of that block whose byte has bit 1 clear while the byte at
//	          i+32768 has it set; both bits are flipped (+2, -2: byte sum unchanged, weighted
//	          sum changes by 2*32768 = 0 mod 2^16), so only the strong hash tells
//	truncate  cut regular file Path to N bytes (0 < N < size)
//	empty     cut regular file Path to 0 bytes
//	extend    append N bytes (Fill: "rand" pseudo-random | "zero") to non-empty regular file Path
//	fill      write N bytes (Fill) into the empty regular file Path
//	delete    remove Path (recursively)
//	kind      replace Path (recursively) by another kind, To:
//	            "file"    regular file containing "swapped"
//	            "dir"     directory with one child file
//	            "symlink" dangling symlink
//	            "twin"    symlink to an identical twin: the original entry is renamed to
//	                      Path+".twin" and Path becomes a symlink to it (same bytes reachable
//	                      through the link; only Lstat tells the difference)
//	retarget  point symlink Path at To
type Damage struct {
	Op   string `json:"op"`
	Path string `json:"path"`
	N    int64  `json:"n,omitempty"`
	Fill string `json:"fill,omitempty"`
	To   string `json:"to,omitempty"`
}

func (d Damage) String() string {
	switch d.Op {
	case "flip", "truncate", "collide":
		return fmt.Sprintf("%s(%s,%d)", d.Op, d.Path, d.N)
	case "extend", "fill":
		return fmt.Sprintf("%s(%s,%d,%s)", d.Op, d.Path, d.N, d.Fill)
	case "kind", "retarget":
		return fmt.Sprintf("%s(%s->%s)", d.Op, d.Path, d.To)
	}
	return fmt.Sprintf("%s(%s)", d.Op, d.Path)
}

func fillBytes(kind string, n int64, seed int64) []byte {
	if kind == "zero" {
		return make([]byte, n)
	}
	return wh.Content(fmt.Sprintf("r9/%d", n), seed)
}

// Apply performs the damage under dir. applied=false means the operation does
// not make sense on the current state (target absent or of another kind).
func (d Damage) Apply(dir string, seed int64) (applied bool, err error) {
	p := filepath.Join(dir, filepath.FromSlash(d.Path))
	st, lerr := os.Lstat(p)
	if lerr != nil {
		return false, nil
	}
	isFile := st.Mode().IsRegular()
	isLink := st.Mode()&os.ModeSymlink != 0
	switch d.Op {
	case "fliprun":
		// flips one bit in each of d.To consecutive 64KiB blocks starting at block d.N
		var count int64
		fmt.Sscanf(d.To, "%d", &count)
		if !isFile || (d.N+count-1)*65536 >= st.Size() || count < 1 {
			return false, nil
		}
		f, err := os.OpenFile(p, os.O_RDWR, 0)
		if err != nil {
			return false, err
		}
		defer f.Close()
		for b := d.N; b < d.N+count; b++ {
			var x [1]byte
			off := b*65536 + (b % 7)
			if _, err := f.ReadAt(x[:], off); err != nil {
				return false, err
			}
			x[0] ^= 0x01
			if _, err := f.WriteAt(x[:], off); err != nil {
				return false, err
			}
		}
		return true, nil
	case "flip":
		if !isFile || d.N >= st.Size() {
			return false, nil
		}
		f, err := os.OpenFile(p, os.O_RDWR, 0)
		if err != nil {
			return false, err
		}
		defer f.Close()
		var b [1]byte
		if _, err := f.ReadAt(b[:], d.N); err != nil {
			return false, err
		}
		b[0] ^= 0x01
		_, err = f.WriteAt(b[:], d.N)
		return true, err
	case "collide":
		if !isFile {
			return false, nil
		}
		data, err := os.ReadFile(p)
		if err != nil {
			return false, err
		}
		i, ok := collideOffset(data, d.N)
		if !ok {
			return false, nil
		}
		data[i] ^= 0x02
		data[i+32768] ^= 0x02
		return true, os.WriteFile(p, data, st.Mode().Perm())
	case "truncate":
		if !isFile || d.N >= st.Size() || d.N <= 0 {
			return false, nil
		}
		return true, os.Truncate(p, d.N)
	case "empty":
		if !isFile || st.Size() == 0 {
			return false, nil
		}
		return true, os.Truncate(p, 0)
	case "extend", "fill":
		if !isFile || d.N <= 0 || (d.Op == "fill") != (st.Size() == 0) {
			return false, nil
		}
		f, err := os.OpenFile(p, os.O_WRONLY|os.O_APPEND, 0)
		if err != nil {
			return false, err
		}
		defer f.Close()
		_, err = f.Write(fillBytes(d.Fill, d.N, seed))
		return true, err
	case "delete":
		return true, os.RemoveAll(p)
	case "retarget":
		if !isLink {
			return false, nil
		}
		if err := os.Remove(p); err != nil {
			return false, err
		}
		return true, os.Symlink(d.To, p)
	case "kind":
		if d.To == "twin" {
			if isLink {
				return false, nil
			}
			if err := os.Rename(p, p+".twin"); err != nil {
				return false, err
			}
			return true, os.Symlink(filepath.Base(p)+".twin", p)
		}
		if (d.To == "file" && isFile) || (d.To == "dir" && st.IsDir()) || (d.To == "symlink" && isLink) {
			return false, nil
		}
		if err := os.RemoveAll(p); err != nil {
			return false, err
		}
		switch d.To {
		case "file":
			return true, os.WriteFile(p, []byte("swapped"), 0o644)
		case "dir":
			if err := os.Mkdir(p, 0o755); err != nil {
				return false, err
			}
			return true, os.WriteFile(filepath.Join(p, "child"), []byte("child"), 0o644)
		case "symlink":
			return true, os.Symlink("dangling-target", p)
		}
	}
	return false, fmt.Errorf("bad damage %+v", d)
}

// collideOffset finds the first offset of block k where the double flip applies.
func collideOffset(data []byte, k int64) (int64, bool) {
	start := k * wh.B
	end := start + wh.B
	if end > int64(len(data)) {
		end = int64(len(data))
	}
	for i := start; i+32768 < end; i++ {
		if data[i]&2 == 0 && data[i+32768]&2 != 0 {
			return i, true
		}
	}
	return 0, false
}

// boundaries returns the boundary set of a file of the given size:
// {0, 1, size-1, size} and {kB-1, kB, kB+1} for every block boundary kB <= size,
// which contains the plan's {0,1,B-1,B,B+1,size-1,size}. Restricted to [0,size].
func boundaries(size int64) []int64 {
	set := map[int64]bool{0: true, 1: true, size - 1: true, size: true}
	for k := int64(1); k*wh.B <= size; k++ {
		set[k*wh.B-1], set[k*wh.B], set[k*wh.B+1] = true, true, true
	}
	var out []int64
	for v := range set {
		if v >= 0 && v <= size {
			out = append(out, v)
		}
	}
	sort.Slice(out, func(i, j int) bool { return out[i] < out[j] })
	return out
}

// growths are the extension lengths: inside the last block, up to / across a
// block boundary, several blocks.
var growths = []int64{1, wh.B - 1, wh.B, wh.B + 1, 2*wh.B + 1}

// Catalogue lists every single damage for the signed container, files first,
// then symlinks, then directories (deepest first), so that in a sequence the
// operation on a descendant is applied before the one on its ancestor.
func Catalogue(c *tlc.Container, pristine map[string][]byte) []Damage {
	var out []Damage
	for _, f := range c.Files {
		if f.Size == 0 {
			for _, n := range growths {
				out = append(out, Damage{Op: "fill", Path: f.Path, N: n, Fill: "rand"})
			}
			out = append(out, Damage{Op: "fill", Path: f.Path, N: 1, Fill: "zero"}, Damage{Op: "fill", Path: f.Path, N: wh.B, Fill: "zero"})
		} else {
			for _, o := range boundaries(f.Size) {
				if o < f.Size {
					out = append(out, Damage{Op: "flip", Path: f.Path, N: o})
				}
			}
			for k := int64(0); k*wh.B < f.Size; k++ {
				if _, ok := collideOffset(pristine[f.Path], k); ok {
					out = append(out, Damage{Op: "collide", Path: f.Path, N: k})
				}
			}
			for _, o := range boundaries(f.Size) {
				if o > 0 && o < f.Size {
					out = append(out, Damage{Op: "truncate", Path: f.Path, N: o})
				}
			}
			out = append(out, Damage{Op: "empty", Path: f.Path})
			for _, n := range growths {
				out = append(out, Damage{Op: "extend", Path: f.Path, N: n, Fill: "rand"})
				out = append(out, Damage{Op: "extend", Path: f.Path, N: n, Fill: "zero"})
			}
		}
		out = append(out, Damage{Op: "delete", Path: f.Path})
		for _, to := range []string{"dir", "symlink", "twin"} {
			out = append(out, Damage{Op: "kind", Path: f.Path, To: to})
		}
	}
	for _, l := range c.Symlinks {
		out = append(out, Damage{Op: "delete", Path: l.Path})
		out = append(out, Damage{Op: "retarget", Path: l.Path, To: l.Dest + "x"})
		out = append(out, Damage{Op: "retarget", Path: l.Path, To: "./" + l.Dest}) // resolves to the same entry, different text
		out = append(out, Damage{Op: "kind", Path: l.Path, To: "file"})
		out = append(out, Damage{Op: "kind", Path: l.Path, To: "dir"})
	}
	dirs := append([]*tlc.Dir{}, c.Dirs...)
	sort.SliceStable(dirs, func(i, j int) bool { return len(dirs[i].Path) > len(dirs[j].Path) })
	for _, d := range dirs {
		out = append(out, Damage{Op: "delete", Path: d.Path})
		for _, to := range []string{"file", "symlink", "twin"} {
			out = append(out, Damage{Op: "kind", Path: d.Path, To: to})
		}
	}
	return out
}
