// C05 — validation reports every deviation from the signed build and locates
// it. Fault enumeration: every damage sequence of length 1, and every sequence
// of length 2 touching distinct entries, from a catalogue of damages with
// boundary offsets, applied to a valid copy of each of four builds; the
// verdict of pwr.ValidatorContext (wounds file and fail-fast) is compared with
// an independent byte comparison of the damaged directory with the build.
package main

import (
	"bytes"
	"context"
	"errors"
	"fmt"
	"os"
	"path/filepath"
	"sort"
	"strings"
	"syscall"
	"time"

	"github.com/itchio/wharf/pwr"

	"verif/lib/runner"
	"verif/lib/wh"
)

type Case struct {
	Build  wh.Build `json:"build"`
	Damage []Damage `json:"damage"`
}

const watchdog = 120 * time.Second

func main() {
	runner.Main(runner.Config{
		ID:    "C05",
		Level: "fault_enumeration",
		Rule:  "fault enumeration over 6 builds (a file that repeats its blocks, unusual names and permission bits, nested directories, symlinks to a file / to a directory / inside a sub-directory, empty directories, empty files, files of 1, 6, B-1, B, B+1, B+100, 2B, 2B+100, 3B bytes incl. zero-filled ones; B=64KiB). Catalogue per signed entry: Flip(file,off), Collide(file,block) (two bit flips 32768 bytes apart that keep the weak checksum of the block), Truncate(file,len), Empty(file), Extend(file,n,rand|zero), Fill(emptyFile,n), Delete(path), Kind(path -> file | dir with child | dangling symlink | symlink to an identical twin), Retarget(symlink); off/len from {0,1,size-1,size} and {kB-1,kB,kB+1} for every block boundary (a superset of {0,1,B-1,B,B+1,size-1,size}); n from {1,B-1,B,B+1,2B+1}. Plus a long-runs family: 70- and 132-block files with 1..130 consecutive damaged blocks at several phases (contiguous damage beyond the 4MiB wound aggregation limit). Enumerated: the undamaged copy, every single damage, every pair of damages on two distinct entries, every pair (content damage, length change) on ONE regular file with the altered byte inside what is left of it (sub-check same-file) and, in the thorough tier, every triple on three distinct entries (descendant before ancestor). Each damaged copy is validated twice by the real ValidatorContext: with WoundsPath (the .pww file is decoded by the harness' own decoder) and with FailFast, each under a 120 s watchdog. Oracle: Lstat/ReadFile comparison of the damaged directory with the pristine build, per signed entry. Non-trivial = at least one signed file is still a regular file but differs in bytes or length (the streaming block check decides, not the lstat pass).",
		Assumptions: []string{
			"damage sequences longer than 2 (quick) / 3 (thorough) are not enumerated",
			"flips change one bit (0x01) of the chosen byte; appended content is seeded pseudo-random or zeros",
			"file modes are not damaged (the statement does not mention them)",
			"the 120 s watchdog only turns a deadlock into a reported case; normal validations of these builds take milliseconds",
		},
		QuickBudget:    80 * time.Second,
		ThoroughBudget: 14 * time.Minute,
	}, body)
}

func builds() []wh.Build {
	return []wh.Build{
		{wh.F("a", "r1/1"), wh.F("d/b", "A"), wh.F("d/sub/c", "B.B/1"), wh.F("e", ""), wh.L("l", "a"), wh.D("emptydir")},
		{wh.F("big", "C.D.E/100"), wh.F("two", "F.G"), wh.F("zeros", "Z.z/100"), wh.L("d/l2", "../big"), wh.D("d/x/y")},
		{wh.F("x", "=hello!"), wh.F("y/z", "=w"), wh.F("e1", ""), wh.F("y/e2", ""), wh.L("y/l", "z"), wh.L("l0", "y"), wh.D("y/emptydir")},
		{wh.F("m", "Z"), wh.F("n", "H/65535"), wh.F("q/o", "I.J.K"), wh.F("p", "z/1"), wh.L("q/lq", "o")},
		// repeated blocks inside one file and across two files (a damaged block then has a
		// neighbour with the same rolling checksum and length)
		{wh.F("rep", "L.L.M.M/300"), wh.F("rep2", "M/300"), wh.F("s", "=s")},
		// unusual names and permission bits
		{wh.FM("ro", "N/100", 0o444), wh.FM("priv/x", "=p", 0o600), wh.FM("exe", "=#!", 0o700), wh.F("saves../slot1", "=s1"), wh.F("Case/x", "=1"),
			wh.F("case/x", "=2"), wh.F("case/X", ""), wh.F("a b/c d", "O/65535"), wh.L("Case/l", "../case/x")},
	}
}

// ---------------------------------------------------------------------------
// independent oracle

type fileTruth struct {
	regular        bool // a regular file is at the path
	actual, signed int64
	diffs          []int64 // offsets below min(actual, signed) whose byte differs (capped, see maxDiffs)
	ndiff          int64
}

const maxDiffs = 1 << 20

type truth struct {
	classes []string
	files   []fileTruth
}

func (t *truth) deviates() bool { return len(t.classes) > 0 }

func (t *truth) add(c string) {
	for _, x := range t.classes {
		if x == c {
			return
		}
	}
	t.classes = append(t.classes, c)
}

// compare looks at dir with Lstat/Readlink/ReadFile only.
func compare(dir string, sig *pwr.SignatureInfo, pristine map[string][]byte) *truth {
	t := &truth{}
	c := sig.Container
	for _, d := range c.Dirs {
		st, err := os.Lstat(filepath.Join(dir, filepath.FromSlash(d.Path)))
		switch {
		case err != nil:
			t.add("dir-missing")
		case !st.IsDir():
			t.add("dir-kind")
		}
	}
	for _, l := range c.Symlinks {
		p := filepath.Join(dir, filepath.FromSlash(l.Path))
		st, err := os.Lstat(p)
		switch {
		case err != nil:
			t.add("symlink-missing")
		case st.Mode()&os.ModeSymlink == 0:
			t.add("symlink-kind")
		default:
			if dest, _ := os.Readlink(p); dest != l.Dest {
				t.add("symlink-dest")
			}
		}
	}
	for _, f := range c.Files {
		ft := fileTruth{signed: f.Size}
		p := filepath.Join(dir, filepath.FromSlash(f.Path))
		st, err := os.Lstat(p)
		switch {
		case err != nil:
			t.add("file-missing")
		case !st.Mode().IsRegular():
			t.add("file-kind")
		default:
			got, err := os.ReadFile(p)
			if err != nil {
				panic(err)
			}
			want := pristine[f.Path]
			ft.regular = true
			ft.actual = int64(len(got))
			n := len(got)
			if len(want) < n {
				n = len(want)
			}
			if !bytes.Equal(got[:n], want[:n]) {
				for i := 0; i < n; i++ {
					if got[i] != want[i] {
						ft.ndiff++
						if len(ft.diffs) < maxDiffs {
							ft.diffs = append(ft.diffs, int64(i))
						}
					}
				}
				t.add("file-content")
			}
			if ft.actual < ft.signed {
				t.add("file-shorter")
			} else if ft.actual > ft.signed {
				t.add("file-longer")
			}
		}
		t.files = append(t.files, ft)
	}
	sort.Strings(t.classes)
	return t
}

// ---------------------------------------------------------------------------
// running the validator

type verdict struct {
	hung   bool
	err    error
	has    bool // WoundsConsumer.HasWounds()
	wounds []*pwr.Wound
	decErr error
}

func runValidate(vctx *pwr.ValidatorContext, dir string, sig *pwr.SignatureInfo) (v verdict) {
	done := make(chan error, 1)
	go func() { done <- vctx.Validate(context.Background(), dir, sig) }()
	select {
	case v.err = <-done:
	case <-time.After(watchdog):
		v.hung = true
	}
	return v
}

func errnoName(err error) string {
	var pe *os.PathError
	if errors.As(err, &pe) {
		var en syscall.Errno
		name := pe.Err.Error()
		if errors.As(pe.Err, &en) {
			switch en {
			case syscall.ENOTDIR:
				name = "ENOTDIR"
			case syscall.ENOENT:
				name = "ENOENT"
			case syscall.EISDIR:
				name = "EISDIR"
			case syscall.ELOOP:
				name = "ELOOP"
			case syscall.EINVAL:
				name = "EINVAL"
			}
		}
		return pe.Op + ":" + name
	}
	return "other"
}

func kindsOf(ws []*pwr.Wound) string {
	set := map[string]bool{}
	for _, w := range ws {
		set[w.Kind.String()] = true
	}
	var ks []string
	for k := range set {
		ks = append(ks, k)
	}
	sort.Strings(ks)
	return strings.Join(ks, ",")
}

// ---------------------------------------------------------------------------

type prepared struct {
	dir      string
	sig      *pwr.SignatureInfo
	pristine map[string][]byte
}

func body(w *runner.W) {
	cache := map[string]*prepared{}
	prep := func(b wh.Build) *prepared {
		k := fmt.Sprintf("%v", b)
		if p, ok := cache[k]; ok {
			return p
		}
		dir := filepath.Join(w.Scratch(), fmt.Sprintf("pristine%d", len(cache)))
		if err := b.Materialize(dir, w.Seed); err != nil {
			panic(err)
		}
		sig, err := wh.SignDir(dir)
		if err != nil {
			panic(err)
		}
		p := &prepared{dir: dir, sig: sig, pristine: map[string][]byte{}}
		for _, f := range sig.Container.Files {
			data, err := os.ReadFile(filepath.Join(dir, filepath.FromSlash(f.Path)))
			if err != nil {
				panic(err)
			}
			p.pristine[f.Path] = data
		}
		cache[k] = p
		return p
	}

	caseN := 0
	run := func(c Case, r *runner.Rec) {
		p := prep(c.Build)
		caseN++
		dir := filepath.Join(w.Scratch(), fmt.Sprintf("case%d", caseN))
		woundsPath := filepath.Join(w.Scratch(), fmt.Sprintf("case%d.pww", caseN))
		defer os.RemoveAll(dir)
		defer os.Remove(woundsPath)
		if err := wh.CopyTree(p.dir, dir); err != nil {
			panic(err)
		}
		for _, d := range c.Damage {
			ok, err := d.Apply(dir, w.Seed)
			if err != nil {
				panic(fmt.Sprintf("damage %v: %v", d, err))
			}
			if !ok {
				r.Outcome("inapplicable")
				return
			}
		}
		r.Trans(len(c.Damage))
		sig := p.sig
		cont := sig.Container
		t := compare(dir, sig, p.pristine)
		for _, ft := range t.files {
			if ft.regular && (ft.ndiff > 0 || ft.actual != ft.signed) {
				r.Nontrivial()
			}
		}
		cls := strings.Join(t.classes, "+")
		if cls == "" {
			cls = "intact"
		}

		// ---- (a) wounds mode -------------------------------------------------
		vctx := &pwr.ValidatorContext{WoundsPath: woundsPath, Consumer: wh.Quiet()}
		v := runValidate(vctx, dir, sig)
		woundsUsable := false
		switch {
		case v.hung:
			r.Failf("hang", "Validate(WoundsPath) did not return within %v; damage %v", watchdog, c.Damage)
		case v.err != nil:
			// Validate gave up with an error of its own; the wounds consumer was abandoned
			// (its goroutine is still running), so the wounds file is not read.
			if t.deviates() {
				r.Failf("wounds-mode-abort:"+errnoName(v.err), "directory deviates (%s) but Validate(WoundsPath) reports no wound: it aborts with %q and abandons the wounds consumer", cls, v.err)
			} else {
				r.Failf("wounds-mode-error-on-intact", "Validate(WoundsPath) on an intact copy: %v", v.err)
			}
		default:
			woundsUsable = true
			v.has = vctx.WoundsConsumer.HasWounds()
			if b, err := os.ReadFile(woundsPath); err == nil {
				_, v.wounds, v.decErr = wh.DecodeWounds(b)
			}
			if v.decErr != nil {
				r.Failf("wounds-file-undecodable", "%v", v.decErr)
				woundsUsable = false
			}
		}
		if woundsUsable {
			ws := v.wounds
			if t.deviates() && len(ws) == 0 {
				r.Failf("undetected:wounds-mode:"+cls, "directory deviates (%s) but the wounds file has no wound; damage %v", cls, c.Damage)
			}
			if t.deviates() && !v.has {
				r.Failf("haswounds-false:"+cls, "directory deviates (%s) but WoundsConsumer.HasWounds() is false", cls)
			}
			if !t.deviates() && len(c.Damage) == 0 && (len(ws) > 0 || v.has) {
				r.Failf("wound-on-pristine", "undamaged copy: %d wound(s), HasWounds=%v", len(ws), v.has)
			}
			// well-formedness of every wound
			for _, wd := range ws {
				var n int
				switch wd.Kind {
				case pwr.WoundKind_FILE:
					n = len(cont.Files)
				case pwr.WoundKind_DIR:
					n = len(cont.Dirs)
				case pwr.WoundKind_SYMLINK:
					n = len(cont.Symlinks)
				default:
					r.Failf("wound-bad-kind", "wound of kind %v in the wounds file", wd.Kind)
					continue
				}
				if wd.Index < 0 || wd.Index >= int64(n) {
					r.Failf("wound-bad-index:"+wd.Kind.String(), "wound %v names entry %d of %d", wd.Kind, wd.Index, n)
					continue
				}
				if wd.Start < 0 {
					r.Failf("wound-negative-start", "wound %v #%d [%d,%d)", wd.Kind, wd.Index, wd.Start, wd.End)
				}
				if wd.Start > wd.End {
					why := "other"
					if wd.Kind == pwr.WoundKind_FILE {
						ft := t.files[wd.Index]
						if ft.regular && ft.actual > ft.signed && wd.Start == ft.actual && wd.End == ft.signed {
							why = "file-longer-than-signed"
						}
					}
					name := ""
					if wd.Kind == pwr.WoundKind_FILE {
						name = cont.Files[wd.Index].Path
					}
					r.Failf("wound-start-after-end:"+why, "wound %v #%d (%s) has start %d > end %d; damage %v", wd.Kind, wd.Index, name, wd.Start, wd.End, c.Damage)
				}
			}
			// location: differing offsets are inside a FILE wound of that file; wrong length => a wound for the file
			for fi, ft := range t.files {
				if !ft.regular {
					continue
				}
				var mine []*pwr.Wound
				for _, wd := range ws {
					if wd.Kind == pwr.WoundKind_FILE && wd.Index == int64(fi) {
						mine = append(mine, wd)
					}
				}
				rel := "same-length"
				if ft.actual < ft.signed {
					rel = "shorter"
				} else if ft.actual > ft.signed {
					rel = "longer"
				}
				if rel != "same-length" && len(mine) == 0 {
					r.Failf("no-wound-for-file:"+rel, "%s is %s than signed (%d vs %d bytes) but no wound names it; damage %v", cont.Files[fi].Path, rel, ft.actual, ft.signed, c.Damage)
				}
				for _, off := range ft.diffs {
					covered := false
					for _, wd := range mine {
						if wd.Start <= off && off < wd.End {
							covered = true
							break
						}
					}
					if !covered {
						r.Failf("uncovered-offset:"+rel, "%s differs at offset %d (signed length %d, actual %d) but no wound of that file contains it; wounds: %v; damage %v", cont.Files[fi].Path, off, ft.signed, ft.actual, mine, c.Damage)
						break
					}
				}
			}
		}

		// ---- (b) fail-fast ---------------------------------------------------
		fctx := &pwr.ValidatorContext{FailFast: true, Consumer: wh.Quiet()}
		fv := runValidate(fctx, dir, sig)
		ffClass := "nil"
		switch {
		case fv.hung:
			r.Failf("hang", "Validate(FailFast) did not return within %v; damage %v", watchdog, c.Damage)
			ffClass = "hang"
		case fv.err == nil && t.deviates():
			r.Failf("undetected:failfast:"+cls, "directory deviates (%s) but fail-fast validation returns nil; damage %v", cls, c.Damage)
		case fv.err != nil && !t.deviates() && len(c.Damage) == 0:
			r.Failf("failfast-rejects-pristine", "undamaged copy: %v", fv.err)
		}
		if fv.err != nil {
			var hw *pwr.ErrHasWound
			if errors.As(fv.err, &hw) {
				ffClass = "wound:" + hw.Wound.Kind.String()
			} else {
				ffClass = "error:" + errnoName(fv.err)
			}
		}
		wm := "wounds=" + kindsOf(v.wounds)
		if v.err != nil {
			wm = "abort:" + errnoName(v.err)
		}
		r.Outcome(fmt.Sprintf("%s | %s | failfast=%s", cls, wm, ffClass))
	}

	type plan struct {
		b   wh.Build
		cat []Damage
	}
	var plans []plan
	for _, b := range builds() {
		p := prep(b)
		plans = append(plans, plan{b, Catalogue(p.sig.Container, p.pristine)})
	}

	// long contiguous damage: more consecutive damaged blocks than the aggregator's
	// maximum wound size (4MiB = 64 blocks) holds, at several phases
	long := runner.NewSub(w, "long-runs", run, runner.Journal())
	if long.Active() {
		bigs := []wh.Build{{wh.F("big", fmt.Sprintf("r5/%d", 70*wh.B+100)), wh.F("s", "=x")}, {wh.F("big", fmt.Sprintf("r6/%d", 132*wh.B))}}
		for bi, b := range bigs {
			for _, first := range []int64{0, 1, 4} {
				for _, n := range []int{1, 63, 64, 65, 66, 69, 128, 130} {
					if bi == 0 && n > 69 || bi == 1 && n < 64 {
						continue
					}
					long.Do(Case{Build: b, Damage: []Damage{{Op: "fliprun", Path: "big", N: first, To: fmt.Sprint(n)}}})
				}
			}
		}
		long.Done()
	}

	single := runner.NewSub(w, "single", run, runner.Journal())
	if single.Active() {
		n := 0
		for _, p := range plans {
			single.Do(Case{Build: p.b})
			for _, d := range p.cat {
				single.Do(Case{Build: p.b, Damage: []Damage{d}})
				n++
			}
		}
		single.Note("damages", n)
		single.Done()
	}

	pairs := runner.NewSub(w, "pairs", run, runner.Journal())
	if pairs.Active() {
		n := 0
		for _, p := range plans {
			for i := 0; i < len(p.cat); i++ {
				for j := i + 1; j < len(p.cat); j++ {
					if p.cat[i].Path == p.cat[j].Path {
						continue
					}
					pairs.Do(Case{Build: p.b, Damage: []Damage{p.cat[i], p.cat[j]}})
					n++
				}
			}
		}
		pairs.Note("pairs", n)
		pairs.Done()
	}

	// two damages of the SAME regular file: its content is altered at a boundary offset
	// (or in a way that keeps a block's weak hash) and its length is changed as well, the
	// altered byte staying inside what is left of the file
	same := runner.NewSub(w, "same-file", run, runner.Journal())
	if same.Active() {
		n := 0
		for _, p := range plans {
			for i := 0; i < len(p.cat); i++ {
				a := p.cat[i]
				if a.Op != "flip" && a.Op != "collide" {
					continue
				}
				for j := 0; j < len(p.cat); j++ {
					b := p.cat[j]
					if b.Path != a.Path || b.Op != "truncate" && b.Op != "extend" {
						continue
					}
					if b.Op == "truncate" {
						last := a.N // highest altered offset
						if a.Op == "collide" {
							off, _ := collideOffset(prep(p.b).pristine[a.Path], a.N)
							last = off + 32768
						}
						if last >= b.N {
							continue
						}
					}
					same.Do(Case{Build: p.b, Damage: []Damage{a, b}})
					n++
				}
			}
		}
		same.Note("pairs", n)
		same.Done()
	}

	// thorough only: every sequence of three damages on three distinct entries
	triples := runner.NewSub(w, "triples", run, runner.Journal())
	if triples.Active() {
		n := 0
		for _, p := range plans {
			if w.Quick() {
				triples.Note("not_in_quick_tier", "the quick tier's bound is sequences of length <= 2")
				break
			}
			for i := 0; i < len(p.cat); i++ {
				for j := i + 1; j < len(p.cat); j++ {
					if p.cat[i].Path == p.cat[j].Path {
						continue
					}
					for k := j + 1; k < len(p.cat); k++ {
						if p.cat[k].Path == p.cat[i].Path || p.cat[k].Path == p.cat[j].Path {
							continue
						}
						triples.Do(Case{Build: p.b, Damage: []Damage{p.cat[i], p.cat[j], p.cat[k]}})
						n++
					}
				}
			}
		}
		triples.Note("triples", n)
		triples.Done()
	}
}
