//go:build vsched

package main

import (
	"context"
	"fmt"
	"os"
	"path/filepath"
	"strings"
	"time"

	"github.com/itchio/wharf/zzverif/vsched"

	"verif/lib/runner"
	"verif/lib/wh"
)

func init() { schedSubs = schedBody }

type execResult struct {
	err       error
	returned  bool
	cancelled bool
}

func schedBody(w *runner.W) {
	schedSub(w, "interleavings", "sched", scenarios(w.Quick()))
	schedSub(w, "healer-interleavings", "schedfs", healerScenarios(w.Quick()))
}

// healerScenarios: the archive healer as consumer, with and without a canceller. Runs in
// the variant whose file-system calls are visible operations (the healer writes while the
// validator reads); files are smaller than one copy chunk.
func healerScenarios(quick bool) []Scenario {
	var out []Scenario
	b := func(q, t int) int {
		if quick {
			return q
		}
		return t
	}
	for _, cancel := range []bool{true, false} {
		out = append(out,
			Scenario{Files: []string{"=x"}, Damage: "first", Consumer: "healer", Cap: 1, Cancel: cancel, Bound: b(2, 3)},
			Scenario{Files: []string{"=x", "=yy"}, Symlink: true, Damage: "all", Consumer: "healer", Cap: 1, Cancel: cancel, Bound: b(0, 1)},
		)
		lastBound := b(1, 1)
		if cancel {
			lastBound = b(0, 1)
		}
		out = append(out, Scenario{Files: []string{"=x", "=yy"}, Symlink: true, Damage: "last", Consumer: "healer", Cap: 1, Cancel: cancel, Bound: lastBound})
	}
	// more wounded files than any fixed-size queue between the wound loop and the healing
	// goroutine holds once it is scaled to one slot (three files, all damaged)
	out = append(out, Scenario{Files: []string{"=x", "=yy", "=zzz"}, Damage: "all", Consumer: "healer", Cap: 1, Bound: b(0, 1)})
	return out
}

// sliceDeadline gives one of n remaining scenarios its share of the time left.
func sliceDeadline(global time.Time, n int) time.Time {
	if global.IsZero() {
		return global
	}
	if n < 1 {
		n = 1
	}
	return time.Now().Add(time.Until(global) / time.Duration(n))
}

func schedSub(w *runner.W, subName, variant string, list []Scenario) {
	left := 0
	var sub *runner.Sub[Scenario]
	sub = runner.NewSub(w, subName, func(sc Scenario, r *runner.Rec) {
		p, err := prepare(sc, w.Scratch(), w.Seed)
		if err != nil {
			panic(err)
		}
		defer os.RemoveAll(filepath.Dir(p.dir))
		vsched.SetCapOverride(sc.Cap)
		defer vsched.SetCapOverride(0)
		var res execResult
		bodyFn := func() {
			res = execResult{}
			if p.template != "" {
				// fresh damaged copy (no other goroutine exists yet)
				os.RemoveAll(p.dir)
				if err := wh.CopyTree(p.template, p.dir); err != nil {
					panic(err)
				}
			}
			ctx, cancel := context.WithCancel(context.Background())
			if sc.Cancel {
				vsched.Go0(func() {
					vsched.Point("ctx:cancel")
					res.cancelled = true
					cancel()
				})
			}
			res.err = p.validate(ctx)
			res.returned = true
			_ = cancel
		}
		opts := vsched.Options{PreemptionBound: sc.Bound, StepBudget: 20000}
		if sc.Schedule != nil {
			// replay of one recorded execution
			out := vsched.RunOnce(opts, sc.Schedule, bodyFn)
			if fp, msg := judgeExec(p, out, res); fp != "" {
				r.Failf(fp, "%s", msg)
			}
			return
		}
		opts.Deadline = w.Deadline()
		split := heavy(sc)
		if split {
			opts.ShardIdx, opts.ShardN = w.Index(), w.N()
		}
		outcomes := map[string]int{}
		reported := map[string]bool{}
		checkFn := func(out vsched.Result) bool {
			o := out.Kind
			if res.returned {
				if res.err == nil {
					o += ":nil"
				} else {
					o += ":err"
				}
			}
			outcomes[o]++
			if fp, msg := judgeExec(p, out, res); fp != "" && !reported[fp] {
				reported[fp] = true
				// determinism check: the same schedule must fail the same way
				again := vsched.RunOnce(vsched.Options{PreemptionBound: sc.Bound, StepBudget: 20000}, out.Choices, bodyFn)
				fp2, _ := judgeExec(p, again, res)
				if fp2 != fp {
					r.Failf("harness:nondeterministic-replay", "schedule %v gave %q then %q", out.Choices, fp, fp2)
					return false
				}
				c := sc
				c.Schedule = append([]int{}, out.Choices...)
				sub.Report(c, fp, "%s; schedule=%v", msg, out.Choices)
			}
			return true
		}
		var st vsched.Stats
		completed, target := sc.Bound, sc.Bound
		if w.Quick() {
			st = vsched.Explore(opts, bodyFn, checkFn)
		} else {
			// thorough: iterative context bounding inside a time slice, so that one
			// scenario cannot starve the others; the bound completed is reported
			left--
			opts.Deadline = sliceDeadline(w.Deadline(), left+1)
			var unb bool
			st, completed, unb = vsched.ExploreIterative(opts, 0, target, bodyFn, checkFn)
			if unb {
				completed = 99
			}
		}
		if os.Getenv("VERIF_DEBUG") != "" {
			fmt.Fprintf(os.Stderr, "scenario %+v: %+v outcomes=%v\n", sc, st, outcomes)
		}
		if st.HarnessError != "" {
			r.Failf("harness:"+firstWord(st.HarnessError), "%s", st.HarnessError)
		}
		sub.Count(int64(st.Executions), int64(st.States), int64(st.Transitions))
		if (p.damaged || sc.Cancel) && (!split || w.Index() == 0) {
			r.Nontrivial()
		}
		var os_ []string
		for k := range outcomes {
			os_ = append(os_, k)
		}
		r.Outcome(fmt.Sprintf("%s/%s/%v", sc.Consumer, sc.Damage, len(os_)))
		sub.AddNote("executions", st.Executions)
		sub.AddNote("alternatives_skipped_by_lookahead", st.Skipped)
		sub.AddNote("pruned_by_hb_cache", st.Pruned)
		sub.AddNote("deadlocks", st.Deadlocks)
		sub.MaxNote("max_goroutines", st.MaxGoroutines)
		sub.MaxNote("max_preemptions_used", st.MaxPreempts)
		sub.MaxNote("max_choice_depth", st.MaxDepth)
		scName := fmt.Sprintf("%dfiles/%s/%s/cap%d/cancel=%v", len(sc.Files), sc.Damage, sc.Consumer, sc.Cap, sc.Cancel)
		if w.Quick() {
			if !split || w.Index() == 0 {
				if !st.Complete {
					sub.AddNote("scenarios_cut_by_deadline", 1)
				} else {
					sub.AddNote(fmt.Sprintf("scenarios_complete_bound_%d", sc.Bound), 1)
				}
			} else if !st.Complete {
				sub.AddNote("shards_cut_by_deadline", 1)
			}
		} else {
			// minimum over the shards = bound completed for the scenario (99 = unbounded)
			sub.MinNote("bound_completed:"+scName, completed)
			if !st.Complete {
				sub.Incomplete("some scenarios ended below their target bound, see bound_completed notes")
			}
		}
		if st.MaxGoroutines < 2 {
			// not an error of anybody: the code may have been restructured so that this scenario
			// has nothing to interleave any more; the evidence says so
			sub.AddNote("scenarios_without_concurrency", 1)
			sub.Incomplete("a scenario never had two goroutines alive at once: nothing to interleave there")
		}
	}, runner.Variant(variant))
	for i, sc := range list {
		if heavy(sc) || w.Owns(i) {
			left++
		}
	}
	if sub.Active() {
		// heavy scenarios are explored by all workers together (level-2 subtree
		// sharding); light ones are dealt round-robin
		for _, sc := range list {
			if heavy(sc) {
				sub.DoOwned(sc)
			}
		}
		for _, sc := range list {
			if !heavy(sc) {
				sub.Do(sc)
			}
		}
		sub.Done()
	}
}

func firstWord(s string) string {
	if i := strings.IndexAny(s, " :"); i > 0 {
		return s[:i]
	}
	return s
}

func judgeExec(p *prepared, out vsched.Result, res execResult) (string, string) {
	switch out.Kind {
	case "done":
	case "deadlock":
		return "deadlock:" + p.sc.Consumer + ":" + dmgClass(p), fmt.Sprintf("Validate never returns: deadlock with parked goroutines [%s]", out.Detail)
	case "step-budget":
		return "livelock:" + p.sc.Consumer, "step budget exceeded: " + out.Detail
	case "panic":
		return "panic:" + runner.PanicSite(out.Detail), out.Detail
	default:
		return "harness:" + out.Kind, out.Detail
	}
	if !res.returned {
		return "harness:no-return", "execution finished but Validate did not return"
	}
	return verdict(p, res.err, res.cancelled)
}

func dmgClass(p *prepared) string {
	if p.damaged {
		return "damaged"
	}
	return "pristine"
}

func heavy(sc Scenario) bool {
	return len(sc.Files) > 1 && (sc.Bound >= 1 || sc.Bound < 0)
}
