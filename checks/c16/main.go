// C16 — validation always terminates and a clean verdict is never caused by
// interruption. The deciding part runs the real Validate under the controlled
// scheduler (variant "sched", see sched.go); the plain build runs every
// scenario once free-running as a cross-check of the default behaviour.
package main

import (
	"context"
	"fmt"
	"os"
	"path/filepath"
	"time"

	"github.com/itchio/wharf/archiver"
	"github.com/itchio/wharf/pwr"

	"verif/lib/runner"
	"verif/lib/wh"
)

// Scenario is one validation set-up. It is also the replay artefact: Schedule,
// when present, is the exact choice sequence of one execution.
type Scenario struct {
	Files    []string `json:"files"`    // content specs, files named f0,f1,...
	Dir      bool     `json:"dir"`      // an (expected) directory d/ with a file in it
	Symlink  bool     `json:"symlink"`  // an (expected) symlink l -> f0
	Damage   string   `json:"damage"`   // none|first|last|all|nodirs|symlink|structure|rmroot
	Consumer string   `json:"consumer"` // failfast|writer|writer-badpath|printer|healer (variant schedfs)
	Cap      int      `json:"cap"`      // wound channel capacity (0 = unscaled 1024)
	Cancel   bool     `json:"cancel"`   // a canceller goroutine exists
	Bound    int      `json:"bound"`    // preemption bound (-1 unbounded)
	Schedule []int    `json:"schedule,omitempty"`
}

func (s Scenario) build() wh.Build {
	var b wh.Build
	for i, c := range s.Files {
		b = append(b, wh.F(fmt.Sprintf("f%d", i), c))
	}
	if s.Dir {
		b = append(b, wh.F("d/g", "=gg"))
	}
	if s.Symlink {
		b = append(b, wh.L("l", "f0"))
	}
	return b
}

// prepared is a materialised scenario.
type prepared struct {
	zip      string
	template string
	want     map[string]wh.Snap
	sc       Scenario
	dir      string
	sig      *pwr.SignatureInfo
	damaged  bool
	wounds   string
}

func flip(path string) {
	b, err := os.ReadFile(path)
	if err != nil {
		panic(err)
	}
	if len(b) == 0 {
		b = []byte{1}
	} else {
		b[len(b)-1] ^= 0x55
	}
	os.WriteFile(path, b, 0o644)
}

func prepare(sc Scenario, scratch string, seed int64) (*prepared, error) {
	root, err := os.MkdirTemp(scratch, "sc")
	if err != nil {
		return nil, err
	}
	dir := filepath.Join(root, "t")
	if err := sc.build().Materialize(dir, seed); err != nil {
		return nil, err
	}
	sig, err := wh.SignDir(dir)
	if err != nil {
		return nil, err
	}
	p := &prepared{sc: sc, dir: dir, sig: sig, wounds: filepath.Join(root, "wounds.pww")}
	n := len(sc.Files)
	switch sc.Damage {
	case "none":
	case "first":
		flip(filepath.Join(dir, "f0"))
		p.damaged = true
	case "last":
		flip(filepath.Join(dir, fmt.Sprintf("f%d", n-1)))
		p.damaged = true
	case "all":
		for i := 0; i < n; i++ {
			flip(filepath.Join(dir, fmt.Sprintf("f%d", i)))
		}
		if sc.Dir {
			flip(filepath.Join(dir, "d/g"))
		}
		if sc.Symlink {
			os.Remove(filepath.Join(dir, "l"))
			os.Symlink("nowhere", filepath.Join(dir, "l"))
		}
		p.damaged = true
	case "nodirs":
		os.RemoveAll(filepath.Join(dir, "d"))
		p.damaged = sc.Dir
	case "symlink":
		os.Remove(filepath.Join(dir, "l"))
		p.damaged = sc.Symlink
	case "structure":
		// directory and symlink both gone: two wounds (and, with the file below the
		// directory, a third) are found by the directory and symlink passes, before any file
		// is looked at
		os.RemoveAll(filepath.Join(dir, "d"))
		os.Remove(filepath.Join(dir, "l"))
		p.damaged = true
	case "rmroot":
		// the target directory does not exist at all: the validate worker cannot even
		// open its pool and reports an error of its own (worker-error path)
		os.RemoveAll(dir)
		p.damaged = true
	default:
		return nil, fmt.Errorf("bad damage %q", sc.Damage)
	}
	if sc.Consumer == "writer-badpath" {
		p.wounds = filepath.Join(root, "no-such-dir", "wounds.pww")
	}
	if sc.Consumer == "healer" {
		// archive of the pristine build; the damaged directory becomes a template that is
		// copied afresh for every execution (healing modifies it)
		pristine := filepath.Join(root, "pristine")
		if err := sc.build().Materialize(pristine, seed); err != nil {
			return nil, err
		}
		p.zip = filepath.Join(root, "pristine.zip")
		f, err := os.Create(p.zip)
		if err != nil {
			return nil, err
		}
		if _, err := archiver.CompressZip(f, pristine, wh.Quiet()); err != nil {
			return nil, err
		}
		f.Close()
		p.want, _ = wh.Snapshot(pristine)
		p.template = dir
		p.dir = filepath.Join(root, "work")
	}
	return p, nil
}

// validate runs the real Validate for the scenario.
func (p *prepared) validate(ctx context.Context) error {
	vctx := &pwr.ValidatorContext{Consumer: wh.Quiet()}
	switch p.sc.Consumer {
	case "failfast":
		vctx.FailFast = true
	case "writer", "writer-badpath":
		vctx.WoundsPath = p.wounds
	case "printer":
	case "healer":
		vctx.HealPath = "archive," + p.zip
	}
	return vctx.Validate(ctx, p.dir, p.sig)
}

func scenarios(quick bool) []Scenario {
	type bld struct {
		files  []string
		dir    bool
		sym    bool
		bound  int // thorough bound
		qbound int // quick bound
	}
	builds := []bld{
		{[]string{"=x"}, false, false, -1, 2},
		{[]string{"=x", "=yy"}, false, true, 2, 1},
		{[]string{"=x", "", "=zzz"}, true, false, 1, 0},
		{[]string{"=x"}, true, true, 1, 1},
		{[]string{"A.=t", "=y"}, false, false, 1, 0},
	}
	if quick {
		builds = builds[:4]
	}
	var per [][]Scenario
	for bi, b := range builds {
		var list []Scenario
		dmgs := []string{"none", "first", "last", "all", "nodirs", "symlink", "structure", "rmroot"}
		for _, dmg := range dmgs {
			if dmg == "nodirs" && !b.dir || dmg == "symlink" && !b.sym || dmg == "structure" && !(b.dir && b.sym) {
				continue
			}
			if (dmg == "last" || dmg == "all") && len(b.files) == 1 {
				continue
			}
			for _, cons := range []string{"failfast", "writer", "writer-badpath", "printer"} {
				if quick && bi == 2 && (cons == "writer" || cons == "printer") {
					continue // quick: the 3-file build only with the consumers that fail early
				}
				for _, capacity := range []int{1, 2, 0} {
					// capacities only matter when there can be >= 2 wounds
					if capacity != 1 && dmg != "all" && dmg != "rmroot" && dmg != "structure" {
						continue
					}
					if quick && capacity == 2 {
						continue
					}
					for _, cancel := range []bool{false, true} {
						bound := b.bound
						if quick {
							bound = b.qbound
						}
						if cancel && bound > 0 && len(b.files) > 1 {
							bound-- // the canceller multiplies the space; keep the budget
						}
						list = append(list, Scenario{Files: b.files, Dir: b.dir, Symlink: b.sym, Damage: dmg, Consumer: cons, Cap: capacity, Cancel: cancel, Bound: bound})
					}
				}
			}
		}
		per = append(per, list)
	}
	// interleave the builds so that round-robin sharding spreads the heavy ones
	var out []Scenario
	for i := 0; ; i++ {
		any := false
		for k := len(per) - 1; k >= 0; k-- {
			if i < len(per[k]) {
				out = append(out, per[k][i])
				any = true
			}
		}
		if !any {
			break
		}
	}
	return out
}

var schedSubs func(w *runner.W)

func main() {
	runner.Main(runner.Config{
		ID:    "C16",
		Level: "model_checking",
		Rule:  "stateless model checking of the real ValidatorContext.Validate under a controlled scheduler (instrumented build): for each scenario (build x damage (none, first/last/all files, directory gone, symlink gone, directory and symlink gone, root gone) x consumer x wound-channel capacity {1,2,1024} x canceller goroutine) every interleaving of the main, validate-worker, consumer, per-file relay and aggregator goroutines and of the cancellation instant is enumerated by preemption-bounded DFS with happens-before state caching; oracle per execution: Validate returned (no deadlock, no step-budget overrun) and a nil fail-fast verdict only on an undamaged directory. Non-trivial = scenario with damage, or with a canceller.",
		Assumptions: []string{
			"code between two visible operations (channel ops, select, mutex, context cancellation) is atomic; unsynchronised accesses are out of scope here (race pass of C15)",
			"wound channel capacity is scaled by overlay (make(chan *Wound, 1024) -> 1 or 2) so that 'more wounds than the channel holds' needs 2-3 wounds; the unscaled capacity is explored as well",
			"custom consumers cannot be injected through Validate (it overwrites WoundsConsumer); consumers that fail early are the wounds writer with an uncreatable path and the fail-fast guardian",
		},
		Variants:       []string{"sched", "schedfs"},
		QuickBudget:    100 * time.Second,
		ThoroughBudget: 20 * time.Minute,
	}, body)
}

func body(w *runner.W) {
	// free-running cross-check: the default behaviour of every scenario, 3 repetitions
	free := runner.NewSub(w, "free-running", func(sc Scenario, r *runner.Rec) {
		p, err := prepare(sc, w.Scratch(), w.Seed)
		if err != nil {
			panic(err)
		}
		defer os.RemoveAll(filepath.Dir(p.dir))
		for rep := 0; rep < 3; rep++ {
			ctx, cancel := context.WithCancel(context.Background())
			if sc.Cancel && rep == 1 {
				cancel()
			}
			done := make(chan error, 1)
			go func() { done <- p.validate(ctx) }()
			select {
			case err := <-done:
				cancelled := sc.Cancel && rep == 1
				judge(r, p, err, cancelled, "free")
			case <-time.After(120 * time.Second):
				r.Failf("hang:"+sc.Consumer, "Validate did not return within 120 s")
			}
			cancel()
		}
		if p.damaged || sc.Cancel {
			r.Nontrivial()
		}
		r.Outcome(fmt.Sprintf("%s/%s", sc.Consumer, sc.Damage))
	})
	if free.Active() {
		for _, sc := range scenarios(w.Quick()) {
			if sc.Cap != 0 {
				continue // capacity scaling needs the instrumented build
			}
			free.Do(sc)
		}
		free.Done()
	}
	if schedSubs != nil {
		schedSubs(w)
	}
}

// judge evaluates the soundness clause for one finished validation.
func judge(r *runner.Rec, p *prepared, err error, cancelled bool, mode string) {
	fp, msg := verdict(p, err, cancelled)
	if fp != "" {
		r.Failf(fp, "%s (%s)", msg, mode)
	}
}

func verdict(p *prepared, err error, cancelled bool) (string, string) {
	sc := p.sc
	if sc.Consumer == "healer" {
		// with the healer the statement demands termination (judged by the scheduler: no
		// deadlock) and, when nothing interrupts, success with a healed directory. What a
		// cancelled healing run returns is not constrained by the statement.
		if cancelled {
			return "", ""
		}
		if err != nil {
			return "heal-error:healer:no-cancel", fmt.Sprintf("Validate with healer failed without cancellation: %v", err)
		}
		got, _ := wh.Snapshot(p.dir)
		if d := wh.MissingOrWrong(got, p.want); len(d) > 0 {
			return "false-healed:healer:no-cancel", fmt.Sprintf("Validate with healer returned nil but the directory is not the signed build: %v", d)
		}
		return "", ""
	}
	if sc.Consumer == "failfast" && err == nil && p.damaged {
		c := "no-cancel"
		if cancelled {
			c = "cancelled"
		}
		return "false-valid:failfast:" + c, fmt.Sprintf("fail-fast Validate returned nil on a damaged directory (damage=%s, context %s)", sc.Damage, c)
	}
	if sc.Consumer == "failfast" && err != nil && !p.damaged && !cancelled {
		return "false-invalid:failfast", fmt.Sprintf("fail-fast Validate returned %v on a pristine directory without cancellation", err)
	}
	return "", ""
}
