// C08 — data already present in the old build is not sent again.
//
// Bounded exhaustive enumeration of (old build, new build) pairs where the new
// build is derived from the old one by renames, duplications and k localized
// edits. The real DiffContext.WritePatch runs on every pair; fresh bytes are
// counted twice: from the independently decoded op stream (wh.DecodePatch) and
// from the differ's own counters (DiffContext.FreshBytes / ReusedBytes).
//
// The number of BLOCK_RANGE ops is recorded as an outcome but never judged: the
// property does not promise a single range per copied file.
package main

import (
	"fmt"
	"os"
	"path/filepath"
	"sort"
	"strings"
	"time"

	"github.com/itchio/wharf/pwr"

	"verif/lib/runner"
	"verif/lib/wh"
)

const B = wh.B

// ---------------------------------------------------------------------------
// accounting from the independently decoded patch

type fileAcc struct {
	path                 string
	size, fresh, reused  int64
	ranges, datas, empty int
}

// account sums, per new file, the DATA bytes and the bytes covered by
// BLOCK_RANGE ops (computed from the old container's sizes with our own
// arithmetic, not pwr.ComputeBlockSize).
func account(dp *wh.Patch) ([]*fileAcc, error) {
	var out []*fileAcc
	for i, s := range dp.Series {
		f := dp.Source.Files[i]
		a := &fileAcc{path: f.Path, size: f.Size}
		if s.Bsdiff != nil {
			return nil, fmt.Errorf("file %d (%s): bsdiff series in a plain diff", i, f.Path)
		}
		for j, op := range s.Ops {
			switch op.Type {
			case pwr.SyncOp_BLOCK_RANGE:
				if op.FileIndex < 0 || op.FileIndex >= int64(len(dp.Target.Files)) {
					return nil, fmt.Errorf("file %d op %d: range names old file %d of %d", i, j, op.FileIndex, len(dp.Target.Files))
				}
				osz := dp.Target.Files[op.FileIndex].Size
				start := op.BlockIndex * B
				end := (op.BlockIndex + op.BlockSpan) * B
				if end > osz {
					end = osz
				}
				if op.BlockSpan < 1 || start < 0 || start >= end {
					return nil, fmt.Errorf("file %d op %d: empty or out-of-bounds range (index %d span %d, old size %d)", i, j, op.BlockIndex, op.BlockSpan, osz)
				}
				a.reused += end - start
				a.ranges++
			case pwr.SyncOp_DATA:
				a.fresh += int64(len(op.Data))
				if len(op.Data) == 0 {
					a.empty++
				} else {
					a.datas++
				}
			default:
				return nil, fmt.Errorf("file %d op %d: unknown op type %v", i, j, op.Type)
			}
		}
		out = append(out, a)
	}
	return out, nil
}

// expect says what the property promises for one new file.
type expect struct {
	zero  bool   // content equals some old file: no fresh bytes
	how   string // same-path | renamed | duplicate (for the fingerprint)
	bound int64  // >=0: fresh <= bound (edited file)
	kinds string // edit kinds, for the fingerprint
	free  bool   // brand-new content: nothing promised per file
}

// judge evaluates every clause of the statement on both measurements.
// Returns the per-file accounts (nil if the patch could not be decoded).
func judge(r *runner.Rec, dr *wh.DiffResult, exp map[string]expect, identical bool) []*fileAcc {
	dp, err := wh.DecodePatch(dr.Patch)
	if err != nil {
		r.Failf("patch-undecodable", "independent decoder: %v", err)
		return nil
	}
	accs, err := account(dp)
	if err != nil {
		r.Failf("bad-op-stream", "%v", err)
		return nil
	}
	var total, dFresh, dReused, allowed int64
	nops := 0
	for _, a := range accs {
		total += a.size
		dFresh += a.fresh
		dReused += a.reused
		nops += a.ranges + a.datas + a.empty
		// decoded stream: reused + fresh of a file add up to its size
		if a.fresh+a.reused != a.size {
			r.Failf("decoded-sum-mismatch", "%s: decoded ops cover %d fresh + %d reused bytes, file has %d", a.path, a.fresh, a.reused, a.size)
		}
		e, ok := exp[a.path]
		if !ok {
			r.Failf("harness:unexpected-file", "new container lists %s which the case does not describe", a.path)
			continue
		}
		switch {
		case e.zero:
			if a.fresh != 0 {
				r.Failf("copy-sends-data:"+e.how, "%s (%d bytes, content equal to an old file, %s) carries %d fresh bytes in %d DATA ops (%d ranges)", a.path, a.size, e.how, a.fresh, a.datas, a.ranges)
			}
		case e.bound >= 0:
			allowed += e.bound
			if a.fresh > e.bound {
				r.Failf("edit-bound-exceeded:"+e.kinds, "%s (%d bytes): %d fresh bytes in the decoded patch > bound %d (excess %d = %.2f blocks)", a.path, a.size, a.fresh, e.bound, a.fresh-e.bound, float64(a.fresh-e.bound)/float64(B))
			}
		case e.free:
			allowed += a.size
		}
	}
	r.Trans(nops)
	if len(accs) != len(exp) {
		r.Failf("harness:file-count", "new container has %d files, case describes %d", len(accs), len(exp))
	}
	// the differ's own counters
	if dr.Fresh+dr.Reus != total {
		r.Failf("counters-sum-mismatch", "DiffContext reports fresh %d + reused %d = %d, new build has %d bytes (decoded stream: fresh %d reused %d)", dr.Fresh, dr.Reus, dr.Fresh+dr.Reus, total, dFresh, dReused)
	}
	if dr.Fresh > allowed {
		r.Failf("reported-fresh-over-bound", "DiffContext.FreshBytes = %d > %d allowed for this build (decoded stream has %d fresh bytes)", dr.Fresh, allowed, dFresh)
	}
	if identical {
		if dFresh != 0 {
			r.Failf("identical-build-has-data", "patch between identical builds carries %d DATA bytes", dFresh)
		}
		if dr.Fresh != 0 {
			r.Failf("identical-build-reports-fresh", "DiffContext.FreshBytes = %d for identical builds", dr.Fresh)
		}
	}
	return accs
}

func bucket(n int64) string {
	switch {
	case n <= 0:
		return "0"
	case n < B:
		return "<1B"
	case n < 2*B:
		return "<2B"
	case n < 3*B:
		return "<3B"
	case n < 4*B:
		return "<4B"
	}
	return ">=4B"
}

// ---------------------------------------------------------------------------
// family (a): renames and duplications

type CopyCase struct {
	Old  wh.Build `json:"old"`
	New  wh.Build `json:"new"`
	Comp wh.Comp  `json:"comp"`
}

func subsetsUpTo(items []string, max int) [][]string {
	var out [][]string
	for m := 1; m < 1<<uint(len(items)); m++ {
		var s []string
		for i := range items {
			if m&(1<<uint(i)) != 0 {
				s = append(s, items[i])
			}
		}
		if len(s) <= max {
			out = append(out, s)
		}
	}
	return out
}

// ---------------------------------------------------------------------------
// family (b): localized edits

type Edit struct {
	Kind string `json:"kind"` // ow (overwrite in place) | ins | del | zow, zins (like ow, ins but the new bytes are all zero)
	Off  int    `json:"off"`  // offset in the OLD file
	Len  int    `json:"len"`
}

func (e Edit) span() int { // old bytes consumed
	if e.Kind == "ins" || e.Kind == "zins" {
		return 0
	}
	return e.Len
}

func (e Edit) introduced() int {
	if e.Kind == "del" {
		return 0
	}
	return e.Len
}

type EditCase struct {
	Size   int     `json:"size"`   // size of the old file "a" (stream r1)
	Edits  []Edit  `json:"edits"`  // sorted by offset, non-overlapping, in old-file coordinates
	Rename bool    `json:"rename"` // edited file appears under a new path (no preferred old file)
	Comp   wh.Comp `json:"comp"`
	Other  string  `json:"other,omitempty"` // content spec of the unrelated second file; default r9/70001
}

func applyEdits(base []byte, edits []Edit, seed int64) []byte {
	out := make([]byte, 0, len(base)+B)
	pos := 0
	for j, e := range edits {
		out = append(out, base[pos:e.Off]...)
		pos = e.Off
		switch e.Kind {
		case "ow":
			out = append(out, wh.Content(fmt.Sprintf("r%d/%d", 2+j, e.Len), seed)...)
			pos += e.Len
		case "zow":
			out = append(out, make([]byte, e.Len)...)
			pos += e.Len
		case "zins":
			out = append(out, make([]byte, e.Len)...)
		case "ins":
			out = append(out, wh.Content(fmt.Sprintf("r%d/%d", 2+j, e.Len), seed)...)
		case "del":
			pos += e.Len
		default:
			panic("bad edit kind " + e.Kind)
		}
	}
	return append(out, base[pos:]...)
}

// editSet lists every (kind, offset, length) over the boundary sets, clamped to
// the file and de-duplicated.
func editSet(size int, offs, lens []int) []Edit {
	seen := map[Edit]bool{}
	var out []Edit
	for _, kind := range []string{"ow", "ins", "del"} {
		for _, o := range offs {
			if o < 0 || o >= size {
				continue
			}
			for _, l := range lens {
				if kind != "ins" && o+l > size {
					l = size - o
				}
				if l <= 0 {
					continue
				}
				e := Edit{kind, o, l}
				if !seen[e] {
					seen[e] = true
					out = append(out, e)
				}
			}
		}
	}
	return out
}

func boundaryOffsets(size int) []int {
	set := map[int]bool{}
	for _, o := range []int{0, 1, B - 1, B, B + 1, size/2 + 777, size - B - 1, size - 1} {
		if o >= 0 && o < size {
			set[o] = true
		}
	}
	var out []int
	for o := range set {
		out = append(out, o)
	}
	sort.Ints(out)
	return out
}

func kindsOf(edits []Edit) string {
	var k []string
	for _, e := range edits {
		k = append(k, e.Kind)
	}
	return strings.Join(k, "+")
}

// ---------------------------------------------------------------------------

func main() {
	runner.Main(runner.Config{
		ID:    "C08",
		Level: "model_checking",
		Rule:  "bounded exhaustive enumeration of (old build, new build) pairs through the real WritePatch; fresh bytes counted from the independently decoded op stream and from DiffContext.FreshBytes/ReusedBytes. copies: 10 base contents (3B+100, 8B, 8B+1 pseudo-random; empty, 1 byte, B-1, B, repeated block, zeros, tail that is a prefix of a block) x every placement of the content on 1-3 of 4 paths (same path, renamed, in a sub-directory, duplicated; with/without the original) x 5 dispositions of an unrelated second file; plus weak twins: a block with the rolling checksum of an old block and other bytes, followed - in the same or a later file - by the real block, which must still be found. edits: old file of 3B+100 / 8B / 8B+1 bytes, k in {1,2} edits of kind overwrite/insert/delete at offsets {0,1,B-1,B,B+1,mid,size-B-1,size-1} with lengths {1,B-1,B,B+1} (all singles x same path/renamed, plus zero-filled insertions and overwrites of B+1 and 2B+5000 bytes at every boundary offset; all ordered non-overlapping pairs, on the 8B file only in quick), bound fresh <= introduced + (2k+2)*64KiB. shift-sweep: insertion and deletion at offset 0 of every length 1..B-1 (thorough; strided in quick) so every alignment shift mod B occurs. big: 70B+17-byte file (buffer wraps) with edits around the 4MiB/buffer boundaries and fresh runs of 4MiB-1, 4MiB, 4MiB+1, 8MiB+1, 8MiB+64KiB+12345 (thorough: more) followed by old data. Non-trivial = the new build differs from the old one and the patch contains at least one BLOCK_RANGE op.",
		Assumptions: []string{
			"file contents are seeded pseudo-random streams (VERIF_SEED); edits introduce bytes of a different stream",
			"the number of BLOCK_RANGE ops per copied file is recorded, not judged (the statement does not promise one range)",
			"k <= 2 edits per file; offsets and lengths from the stated boundary sets plus the full shift sweep",
		},
		QuickBudget:    80 * time.Second,
		ThoroughBudget: 14 * time.Minute,
	}, body)
}

func body(w *runner.W) {
	caseN := 0
	scratchFor := func() (string, string, func()) {
		caseN++
		d := filepath.Join(w.Scratch(), fmt.Sprintf("c%d", caseN))
		return filepath.Join(d, "old"), filepath.Join(d, "new"), func() { os.RemoveAll(d) }
	}

	// ---------------- copies ----------------
	runCopy := func(c CopyCase, r *runner.Rec) {
		oldDir, newDir, clean := scratchFor()
		defer clean()
		if err := c.Old.Materialize(oldDir, w.Seed); err != nil {
			panic(err)
		}
		if err := c.New.Materialize(newDir, w.Seed); err != nil {
			panic(err)
		}
		dr, err := wh.Diff(oldDir, newDir, c.Comp)
		if err != nil {
			r.Failf("diff-error", "%v", err)
			return
		}
		oldByContent := map[string][]string{}
		oldByPath := map[string]string{}
		for _, e := range c.Old {
			if e.Kind == "f" {
				oldByContent[e.Content] = append(oldByContent[e.Content], e.Path)
				oldByPath[e.Path] = e.Content
			}
		}
		exp := map[string]expect{}
		identical := len(c.Old) == len(c.New)
		seenContent := map[string]int{}
		for _, e := range c.New {
			if e.Kind != "f" {
				continue
			}
			if oc, ok := oldByPath[e.Path]; !ok || oc != e.Content {
				identical = false
			}
			seenContent[e.Content]++
		}
		for _, e := range c.New {
			if e.Kind != "f" {
				continue
			}
			if _, ok := oldByContent[e.Content]; ok {
				how := "renamed"
				if oldByPath[e.Path] == e.Content {
					how = "same-path"
				} else if seenContent[e.Content] > 1 {
					how = "duplicate"
				}
				exp[e.Path] = expect{zero: true, how: how, bound: -1}
			} else {
				exp[e.Path] = expect{free: true, bound: -1}
			}
		}
		accs := judge(r, dr, exp, identical)
		if accs == nil {
			return
		}
		ranges, maxRanges := 0, 0
		for _, a := range accs {
			ranges += a.ranges
			if a.ranges > maxRanges {
				maxRanges = a.ranges
			}
		}
		if !identical && ranges > 0 {
			r.Nontrivial()
		}
		mr := fmt.Sprint(maxRanges)
		if maxRanges > 3 {
			mr = ">3"
		}
		r.Outcome(fmt.Sprintf("identical=%v max-ranges-per-file=%s fresh=%s", identical, mr, bucket(dr.Fresh)))
	}

	copies := runner.NewSub(w, "copies", runCopy)
	if copies.Active() {
		bases := []string{
			fmt.Sprintf("r1/%d", 3*B+100), fmt.Sprintf("r1/%d", 8*B), fmt.Sprintf("r1/%d", 8*B+1),
			"", "=x", "A/65535", "A", "A.A.A", "Z.Z.z/5", "A.B.A/100",
		}
		const U, V = "r9/70001", "r8/66000"
		places := subsetsUpTo([]string{"a", "0c", "d/a", "zz"}, 3)
		comps := []wh.Comp{"none", "gzip-1", "brotli-1"}
		n := 0
		for _, X := range bases {
			old := wh.Build{wh.F("a", X), wh.F("u", U)}
			for _, ps := range places {
				for ud := 0; ud < 5; ud++ {
					var nb wh.Build
					for _, p := range ps {
						nb = append(nb, wh.F(p, X))
					}
					switch ud {
					case 0:
						nb = append(nb, wh.F("u", U)) // unchanged
					case 1:
						nb = append(nb, wh.F("0u", U)) // renamed
					case 2: // removed
					case 3:
						nb = append(nb, wh.F("u", X)) // path of u now holds a duplicate of X
					case 4:
						nb = append(nb, wh.F("u", V)) // brand-new content at u's path
					}
					n++
					if w.Quick() {
						copies.Do(CopyCase{Old: old, New: nb, Comp: comps[n%3]})
					} else {
						for _, c := range comps {
							copies.Do(CopyCase{Old: old, New: nb, Comp: c})
						}
					}
				}
			}
			// the two files swap paths
			copies.Do(CopyCase{Old: old, New: wh.Build{wh.F("a", U), wh.F("u", X)}, Comp: comps[n%3]})
			// two old files with equal content; new build keeps one, or moves both
			old2 := wh.Build{wh.F("a", X), wh.F("b", X), wh.F("u", U)}
			copies.Do(CopyCase{Old: old2, New: old2, Comp: comps[(n+1)%3]})
			copies.Do(CopyCase{Old: old2, New: wh.Build{wh.F("b", X)}, Comp: comps[(n+2)%3]})
			copies.Do(CopyCase{Old: old2, New: wh.Build{wh.F("y/a", X), wh.F("y/b", X), wh.F("y/u", U)}, Comp: comps[n%3]})
		}
		// weak twins: a block of the new build has the weak hash of an old block but not its
		// content (lower-case token), and the real block occurs later — in the same file, in
		// a later file, under another name. The real occurrences must still be found.
		for _, tw := range []struct{ old, nw wh.Build }{
			{wh.Build{wh.F("a", "A.B.C")}, wh.Build{wh.F("a", "a.B.C"), wh.F("zc", "A.B.C")}},
			{wh.Build{wh.F("a", "A.B.C")}, wh.Build{wh.F("0c", "A.B.C"), wh.F("a", "a.B.C"), wh.F("zc", "A.B.C")}},
			{wh.Build{wh.F("a", "A.B"), wh.F("b", "C.D/100")}, wh.Build{wh.F("a", "a.b"), wh.F("m", "A.B"), wh.F("n", "C.D/100")}},
			{wh.Build{wh.F("a", "A.B")}, wh.Build{wh.F("a", "a.=x.A.B"), wh.F("m", "A.B")}},
			{wh.Build{wh.F("a", "B.A")}, wh.Build{wh.F("a", "b.a.b.a"), wh.F("u", "B.A")}},
			{wh.Build{wh.F("a", "A/100")}, wh.Build{wh.F("a", "a.A/100"), wh.F("m", "A/100")}},
		} {
			for _, c := range comps {
				copies.Do(CopyCase{Old: tw.old, New: tw.nw, Comp: c})
			}
		}
		// many blocks under ONE weak hash (every all-zero block has rolling checksum 0 whatever
		// its length): a zero-filled file of 70 blocks and a tail, 80 zero-filled files of 80
		// different lengths, and both next to high-entropy data; unchanged, renamed, duplicated
		zbig := fmt.Sprintf("z/%d", 70*B+100)
		var zsmall, zsmallRenamed wh.Build
		for i := 1; i <= 80; i++ {
			zsmall = append(zsmall, wh.F(fmt.Sprintf("z%02d", i), fmt.Sprintf("z/%d", i*37)))
			zsmallRenamed = append(zsmallRenamed, wh.F(fmt.Sprintf("m/z%02d", i), fmt.Sprintf("z/%d", i*37)))
		}
		for i, zc := range []struct{ old, nw wh.Build }{
			{wh.Build{wh.F("a", zbig)}, wh.Build{wh.F("a", zbig)}},
			{wh.Build{wh.F("a", zbig), wh.F("u", U)}, wh.Build{wh.F("b", zbig), wh.F("c", zbig), wh.F("u", U)}},
			{zsmall, zsmall},
			{append(append(wh.Build{}, zsmall...), wh.F("u", U)), append(append(wh.Build{}, zsmallRenamed...), wh.F("u", U))},
			{wh.Build{wh.F("a", zbig+".A.B")}, wh.Build{wh.F("a", zbig+".A.B"), wh.F("b", "A.B")}},
		} {
			copies.Do(CopyCase{Old: zc.old, New: zc.nw, Comp: comps[i%3]})
		}
		// every registered compression setting on one rename+duplicate pair
		for _, c := range wh.AllComps() {
			copies.Do(CopyCase{Old: wh.Build{wh.F("a", bases[0]), wh.F("u", U)}, New: wh.Build{wh.F("0c", bases[0]), wh.F("zz", bases[0]), wh.F("u", U)}, Comp: c})
		}
		copies.Done()
	}

	// ---------------- edits ----------------
	runEdit := func(c EditCase, r *runner.Rec) {
		oldDir, newDir, clean := scratchFor()
		defer clean()
		other := "r9/70001"
		if c.Other != "" {
			other = c.Other
		}
		base := wh.Content(fmt.Sprintf("r1/%d", c.Size), w.Seed)
		edited := applyEdits(base, c.Edits, w.Seed)
		oth := wh.Content(other, w.Seed)
		newPath := "a"
		if c.Rename {
			newPath = "m/a2"
		}
		must := func(err error) {
			if err != nil {
				panic(err)
			}
		}
		must(os.MkdirAll(oldDir, 0o755))
		must(os.MkdirAll(filepath.Dir(filepath.Join(newDir, newPath)), 0o755))
		must(os.WriteFile(filepath.Join(oldDir, "a"), base, 0o644))
		must(os.WriteFile(filepath.Join(oldDir, "u"), oth, 0o644))
		must(os.WriteFile(filepath.Join(newDir, newPath), edited, 0o644))
		must(os.WriteFile(filepath.Join(newDir, "u"), oth, 0o644))
		dr, err := wh.Diff(oldDir, newDir, c.Comp)
		if err != nil {
			r.Failf("diff-error", "%v", err)
			return
		}
		k := len(c.Edits)
		intro := 0
		for _, e := range c.Edits {
			intro += e.introduced()
		}
		bound := int64(intro) + int64(2*k+2)*B
		exp := map[string]expect{
			newPath: {bound: bound, kinds: kindsOf(c.Edits)},
			"u":     {zero: true, how: "same-path", bound: -1},
		}
		accs := judge(r, dr, exp, false)
		if accs == nil {
			return
		}
		for _, a := range accs {
			if a.path == newPath {
				if a.ranges > 0 {
					r.Nontrivial()
				}
				r.Outcome(fmt.Sprintf("%s excess=%s", kindsOf(c.Edits), bucket(a.fresh-int64(intro))))
			}
		}
	}

	sizes := []int{3*B + 100, 8 * B, 8*B + 1}
	lens := []int{1, B - 1, B, B + 1}
	comps := []wh.Comp{"none", "gzip-1", "brotli-1"}

	k1 := runner.NewSub(w, "edits-k1", runEdit)
	if k1.Active() {
		n := 0
		for _, size := range sizes {
			for _, e := range editSet(size, boundaryOffsets(size), lens) {
				for _, ren := range []bool{false, true} {
					n++
					k1.Do(EditCase{Size: size, Edits: []Edit{e}, Rename: ren, Comp: comps[n%3]})
				}
			}
		}
		// low-entropy edits: a zero-filled stretch longer than a block (every window rolled
		// through it has the same weak hash) inserted into / written over the old data,
		// which continues after it
		for _, size := range sizes {
			for _, o := range boundaryOffsets(size) {
				for _, l := range []int{B + 1, 2*B + 5000} {
					for _, kind := range []string{"zins", "zow"} {
						if kind == "zow" && o+l+B > size {
							continue // keep at least a block of old data after the stretch
						}
						n++
						k1.Do(EditCase{Size: size, Edits: []Edit{{kind, o, l}}, Rename: n%2 == 0, Comp: comps[n%3]})
					}
				}
			}
		}
		k1.Done()
	}

	k2 := runner.NewSub(w, "edits-k2", runEdit)
	if k2.Active() {
		k2sizes := sizes
		if w.Quick() {
			k2sizes = []int{8 * B}
		}
		n := 0
		for _, size := range k2sizes {
			es := editSet(size, boundaryOffsets(size), lens)
			for _, e1 := range es {
				for _, e2 := range es {
					// ordered, non-overlapping in old-file coordinates
					if e1.Off+e1.span() > e2.Off {
						continue
					}
					if e1.Off == e2.Off && e1.Kind == "ins" && e2.Kind == "ins" {
						continue // would be one insertion
					}
					n++
					k2.Do(EditCase{Size: size, Edits: []Edit{e1, e2}, Rename: n%5 == 0, Comp: comps[n%3]})
				}
			}
		}
		k2.Note("ordered_pairs", n)
		k2.Done()
	}

	sweep := runner.NewSub(w, "shift-sweep", runEdit)
	if sweep.Active() {
		step := 1
		if w.Quick() {
			step = 31
		}
		size := 3*B + 100
		for s := 1; s < B; s += step {
			sweep.Do(EditCase{Size: size, Edits: []Edit{{"ins", 0, s}}, Comp: "none"})
			sweep.Do(EditCase{Size: size, Edits: []Edit{{"del", 0, s}}, Comp: "none"})
		}
		sweep.Note("step", step)
		sweep.Done()
	}

	big := runner.NewSub(w, "edits-big", runEdit)
	if big.Active() {
		size := 70*B + 17
		M := 4 * 1024 * 1024
		offs := []int{0, 1, B + 1, M - 1, M, M + 1, 65*B - 1, 65 * B, 66*B + 1, size - B - 1, size - 1}
		blens := []int{1, B + 1}
		if w.Quick() {
			offs = []int{1, M, 65 * B, size - B - 1}
		}
		n := 0
		for _, e := range editSet(size, offs, blens) {
			n++
			big.Do(EditCase{Size: size, Edits: []Edit{e}, Rename: n%2 == 0, Comp: "none"})
		}
		// fresh runs longer than MaxDataOp followed by old data (buffer wrap, then re-sync)
		// (two full data operations: the first may leave through the flush before a buffer wrap)
		runs := []int{M - 1, M, M + 1, M + B + 1, 2*M + 1, 2*M + B + 12345, 3*M + 1}
		if w.Quick() {
			runs = []int{M - 1, M, M + 1, 2*M + 1, 2*M + B + 12345}
		}
		for _, L := range runs {
			for _, o := range []int{0, B + 1} {
				big.Do(EditCase{Size: 8*B + 1, Edits: []Edit{{"ins", o, L}}, Comp: "none"})
				big.Do(EditCase{Size: 8*B + 1, Edits: []Edit{{"ins", o, L}, {"del", 4 * B, 7}}, Comp: "none"})
			}
		}
		big.Done()
	}
}
