// C17 — partial application by whitelist produces exactly the selected files.
//
// For every patch of an enumerated family (plain rsync patches and patches
// optimized by rediff, so that bsdiff series sit next to rsync series) and for
// EVERY subset of the new build's file indices, the real patcher runs with that
// whitelist against a recording bowl (wrapping a real fresh bowl) and a
// recording target pool. Oracle: Resume returns nil; GetTouchedFiles equals the
// size of the subset; the bowl is asked to write/copy only whitelisted files;
// old-build data is read only while a whitelisted file is being processed (and
// only from old files that the series of a whitelisted file refers to); every
// whitelisted file is byte-equal to what full application produces.
package main

import (
	"bytes"
	"encoding/gob"
	"fmt"
	"github.com/itchio/lake/tlc"
	"os"
	"path/filepath"
	"sort"
	"strings"
	"time"

	"github.com/itchio/headway/state"
	"github.com/itchio/lake/pools/fspool"
	"github.com/itchio/savior/seeksource"
	"github.com/itchio/wharf/pwr"
	"github.com/itchio/wharf/pwr/bowl"
	"github.com/itchio/wharf/pwr/patcher"

	"verif/lib/runner"
	"verif/lib/wh"
)

// Case is one (patch, whitelist) pair.
type Case struct {
	Fam  string   `json:"fam"`            // "perm" | "idx"
	Perm []string `json:"perm,omitempty"` // perm family: kind of the new file at each position
	Comp wh.Comp  `json:"comp"`
	Mode string   `json:"mode"` // plain | opt (rediff, partitions 2) | optall (rediff with ForceMapAll)
	Mask int      `json:"mask"` // whitelist: bit i = new-build file index i
	// Dense: the whitelist map has an entry for every index (true for members, false for
	// the others) instead of entries for the members only; both describe the same set.
	Dense bool `json:"dense,omitempty"`
	// Resume: additionally, the whitelisted application is interrupted at every checkpoint
	// the patcher offers (stop after save) and resumed by a brand-new patcher and bowl with
	// the same whitelist from a gob copy of the checkpoint.
	Resume bool `json:"resume,omitempty"`
}

// kinds of new file in the perm family
//
//	W whole-file copy at the same path      (one full-file BLOCK_RANGE -> Transpose)
//	R renamed copy of an old file           (one full-file BLOCK_RANGE -> Transpose)
//	P patched: one reused block + new tail  (BLOCK_RANGE + DATA; bsdiff when optimized)
//	N brand-new file at a new path          (DATA)
//	X new content at an existing path       (DATA; bsdiff against the same path when optimized)
//	E empty file                            (one empty DATA)
var allKinds = []string{"W", "R", "P", "N", "X", "E"}

func permBuilds(perm []string) (old, nw wh.Build) {
	for pos, k := range perm {
		name := fmt.Sprintf("f%d_%s", pos, strings.ToLower(k))
		switch k {
		case "W":
			old = append(old, wh.F(name, "r11/3000"))
			nw = append(nw, wh.F(name, "r11/3000"))
		case "R":
			old = append(old, wh.F("q_src_r", "r12/2500"))
			nw = append(nw, wh.F(name, "r12/2500"))
		case "P":
			old = append(old, wh.F(name, "A.r13/100"))
			nw = append(nw, wh.F(name, "A.r14/300"))
		case "N":
			nw = append(nw, wh.F(name, "r15/700"))
		case "X":
			old = append(old, wh.F(name, "r16/400"))
			nw = append(nw, wh.F(name, "r17/450"))
		case "E":
			nw = append(nw, wh.F(name, ""))
		default:
			panic("bad kind " + k)
		}
	}
	return
}

const idxOldFiles = 2051

// idxBuilds: 2051 old files o0000..o2050; the new build replaces the content of
// o2048, o2049, o2050 (same path -> the optimizer emits bsdiff series whose
// targetIndex is 2048, 2049, 2050), keeps o0000 and adds one new file.
func idxBuilds() (old, nw wh.Build) {
	for i := 0; i < idxOldFiles; i++ {
		c := fmt.Sprintf("=old file %d", i)
		if i >= 2048 {
			c = fmt.Sprintf("r%d/%d", 30+i-2048, 300+i-2048)
		}
		old = append(old, wh.F(fmt.Sprintf("o%04d", i), c))
	}
	nw = wh.Build{
		wh.F("o0000", "=old file 0"),
		wh.F("o2048", "r40/320"),
		wh.F("o2049", "r41/330"),
		wh.F("o2050", "r42/340"),
		wh.F("z_new", "r43/100"),
	}
	return
}

// prepared is everything that depends on the patch only (shared by all the
// whitelists of that patch).
type prepared struct {
	key                    string
	dir                    string
	oldDir, newDir, refDir string
	patch                  []byte
	dp                     *wh.Patch
	refs                   []map[int64]bool // per new file: old-file indices its series refers to
	nops                   int
	failFP, failMsg        string
}

func caseKey(c Case) string {
	return fmt.Sprintf("%s|%s|%s|%s", c.Fam, strings.Join(c.Perm, ""), c.Comp, c.Mode)
}

func prepare(w *runner.W, c Case, serial int) *prepared {
	p := &prepared{key: caseKey(c)}
	p.dir = filepath.Join(w.Scratch(), fmt.Sprintf("p%d", serial))
	p.oldDir, p.newDir, p.refDir = filepath.Join(p.dir, "old"), filepath.Join(p.dir, "new"), filepath.Join(p.dir, "ref")
	fail := func(fp, f string, a ...any) *prepared {
		p.failFP, p.failMsg = fp, fmt.Sprintf(f, a...)
		return p
	}
	var ob, nb wh.Build
	switch c.Fam {
	case "perm":
		ob, nb = permBuilds(c.Perm)
	case "idx":
		ob, nb = idxBuilds()
	default:
		panic("bad family " + c.Fam)
	}
	if err := ob.Materialize(p.oldDir, w.Seed); err != nil {
		panic(err)
	}
	if err := nb.Materialize(p.newDir, w.Seed); err != nil {
		panic(err)
	}
	dr, err := wh.Diff(p.oldDir, p.newDir, c.Comp)
	if err != nil {
		return fail("harness:diff-error", "%v", err)
	}
	p.patch = dr.Patch
	switch c.Mode {
	case "plain":
	case "opt", "optall":
		opt, _, err := wh.Rediff(dr.Patch, p.oldDir, p.newDir, wh.RediffParams{Partitions: 2, Concurrency: 1, ForceMapAll: c.Mode == "optall", Comp: c.Comp})
		if err != nil {
			return fail("harness:rediff-error", "%v", err)
		}
		p.patch = opt
	default:
		panic("bad mode " + c.Mode)
	}
	p.dp, err = wh.DecodePatch(p.patch)
	if err != nil {
		return fail("harness:patch-undecodable", "%v", err)
	}
	for _, s := range p.dp.Series {
		m := map[int64]bool{}
		if s.Bsdiff != nil {
			m[s.Bsdiff.TargetIndex] = true
			p.nops += len(s.Ctrl)
		}
		for _, op := range s.Ops {
			p.nops++
			if op.Type == pwr.SyncOp_BLOCK_RANGE {
				m[op.FileIndex] = true
			}
		}
		p.refs = append(p.refs, m)
	}
	// reference: full application (no whitelist), plain fresh bowl
	if err := wh.ApplyFresh(p.patch, p.oldDir, p.refDir); err != nil {
		return fail("full-apply-error", "full application failed: %v", err)
	}
	return p
}

func (p *prepared) shape() string {
	var sb strings.Builder
	for _, s := range p.dp.Series {
		switch {
		case s.Bsdiff != nil:
			sb.WriteByte('b')
		case len(s.Ops) == 1 && s.Ops[0].Type == pwr.SyncOp_BLOCK_RANGE:
			sb.WriteByte('t')
		default:
			sb.WriteByte('r')
		}
	}
	return sb.String()
}

func main() {
	runner.Main(runner.Config{
		ID:    "C17",
		Level: "model_checking",
		Rule:  "bounded exhaustive enumeration of (patch, whitelist) pairs through the real patcher with a recording bowl around a real fresh bowl and a recording target pool. perm family: new builds of 6 files, one of each kind {whole-file copy, renamed copy, patched (range+data), brand-new, new content at an old path, empty} in every order (720 permutations) x {plain rsync patch, rediff-optimized (bsdiff series next to rsync series), rediff with ForceMapAll} x {none, gzip-1, brotli-1} x ALL 64 subsets of file indices (quick: every 6th permutation for plain patches, every 12th with one round-robin compression setting for optimized ones; thorough: all permutations, optimized ones under one round-robin setting and every 6th under all three). all-compressions: one permutation (two in thorough) under every registered algorithm x quality, all 64 subsets. idx family: old build of 2051 files so that bsdiff series carry targetIndex 2048, 2049 (the numeric value of the end-marker enum) and 2050; all 32 subsets of its 5 new files. Oracle per pair: Resume nil, GetTouchedFiles = |subset|, bowl GetWriter/Transpose only for whitelisted indices, pool data access only while a whitelisted file is announced and only to old files its series refers to, whitelisted files byte-equal to full application. Non-trivial = the whitelist is neither empty nor full (files are both skipped and processed).",
		Assumptions: []string{
			"file contents are seeded pseudo-random streams (VERIF_SEED)",
			"optimized patches are produced by the real rediff with 2 partitions; every bsdiff-mapped file has >= 300 bytes (rediff crashes on degenerate inputs are C07/C12's subject)",
			"the file being processed is taken from the patcher's own Consumer.ProgressLabel announcements",
			"fresh bowl only (the whitelist feature is used with fresh output folders); files outside the whitelist are not inspected on disk",
		},
		QuickBudget:    80 * time.Second,
		ThoroughBudget: 14 * time.Minute,
	}, body)
}

func body(w *runner.W) {
	var cur *prepared
	serial := 0
	outN := 0

	run := func(c Case, r *runner.Rec) {
		if cur == nil || cur.key != caseKey(c) {
			if cur != nil {
				os.RemoveAll(cur.dir)
			}
			serial++
			cur = nil
			cur = prepare(w, c, serial)
		}
		p := cur
		if p.failFP != "" {
			r.Failf(p.failFP, "%s", p.failMsg)
			return
		}
		nfiles := len(p.dp.Source.Files)
		if c.Mask < 0 || c.Mask >= 1<<uint(nfiles) {
			r.Failf("harness:bad-mask", "mask %d for %d files", c.Mask, nfiles)
			return
		}
		wl := map[int64]bool{}
		members := 0 // size of the whitelisted set (wl may also hold explicit false entries)
		wlPaths := map[string]bool{}
		allowedOld := map[int64]bool{}
		skipsBsdiff2049 := false
		for i := 0; i < nfiles; i++ {
			if c.Mask&(1<<uint(i)) != 0 {
				wl[int64(i)] = true
				members++
				wlPaths[p.dp.Source.Files[i].Path] = true
				for t := range p.refs[i] {
					allowedOld[t] = true
				}
			} else if c.Dense {
				wl[int64(i)] = false
			}
			if c.Mask&(1<<uint(i)) != 0 {
			} else if s := p.dp.Series[i]; s.Bsdiff != nil && s.Bsdiff.TargetIndex == int64(pwr.SyncOp_HEY_YOU_DID_IT) {
				skipsBsdiff2049 = true
			}
		}
		if c.Fam == "idx" {
			// the family exists for these three values; make sure it has them
			have := map[int64]bool{}
			for _, s := range p.dp.Series {
				if s.Bsdiff != nil {
					have[s.Bsdiff.TargetIndex] = true
				}
			}
			if c.Mode != "plain" && !(have[2048] && have[2049] && have[2050]) {
				// the optimizer chose other old files for these new files: the family cannot make
				// its point on this tree (nobody's error); recorded as an outcome
				r.Outcome("idx-family-unavailable: optimized patch lacks bsdiff target index 2048/2049/2050")
				return
			}
		}
		if members != 0 && members != nfiles {
			r.Nontrivial()
		}
		r.Trans(p.nops)

		outN++
		out := filepath.Join(p.dir, fmt.Sprintf("out%d", outN))
		defer os.RemoveAll(out)

		rec := &recorder{}
		consumer := &state.Consumer{OnProgressLabel: func(l string) { rec.label = l }}
		pt, err := patcher.New(seeksource.FromBytes(p.patch), consumer)
		if err != nil {
			r.Failf("patcher-new-error", "%v", err)
			return
		}
		pool := &recPool{inner: fspool.New(pt.GetTargetContainer(), p.oldDir), rec: rec}
		fb, err := bowl.NewFreshBowl(bowl.FreshBowlParams{
			SourceContainer: pt.GetSourceContainer(),
			TargetContainer: pt.GetTargetContainer(),
			TargetPool:      pool,
			OutputFolder:    out,
		})
		if err != nil {
			r.Failf("harness:fresh-bowl", "%v", err)
			return
		}
		rb := &recBowl{inner: fb, rec: rec}
		defer rb.Close()
		pt.SetSourceIndexWhitelist(wl)
		if err := pt.Resume(nil, pool, rb); err != nil {
			fp := "resume-error:" + c.Mode
			if skipsBsdiff2049 && strings.Contains(err.Error(), "got file 0") {
				fp = "resume-error:skipped-bsdiff-series-with-target-index-2049"
			}
			r.Failf(fp, "whitelist %v of %d files (series %s): Resume: %v", maskList(c.Mask, nfiles), nfiles, p.shape(), err)
			r.Outcome("resume-error")
			return
		}
		if err := rb.Commit(); err != nil {
			r.Failf("commit-error", "%v", err)
			return
		}
		// 1. touched count
		if got := pt.GetTouchedFiles(); got != int64(members) {
			r.Failf("touched-count", "whitelist %v: GetTouchedFiles = %d, want %d", maskList(c.Mask, nfiles), got, members)
		}
		// 2. bowl calls, 3. pool accesses
		writers, transposes, reads := 0, 0, 0
		badBowl, badLabel, badRef := false, false, false // first event of each class only
		for _, e := range rec.events {
			switch e.What {
			case "writer", "transpose":
				if e.What == "writer" {
					writers++
				} else {
					transposes++
				}
				if !wl[e.Index] && !badBowl {
					badBowl = true
					r.Failf("bowl-call-for-unlisted-file:"+e.What, "whitelist %v: bowl asked for %s of new file %d (%s), which is not whitelisted", maskList(c.Mask, nfiles), e.What, e.Index, pathOf(p, e.Index))
				}
			case "open", "read", "seek":
				reads++
				if !wlPaths[e.Label] && !badLabel {
					badLabel = true
					r.Failf("pool-access-outside-whitelisted-file", "whitelist %v: old file %d accessed (%s) while %q was being processed", maskList(c.Mask, nfiles), e.Index, e.What, e.Label)
				}
				if !allowedOld[e.Index] && !badRef {
					badRef = true
					r.Failf("pool-access-to-unreferenced-old-file", "whitelist %v: old file %d accessed (%s); no whitelisted file's series refers to it", maskList(c.Mask, nfiles), e.Index, e.What)
				}
			}
		}
		// 4. content of whitelisted files == full application
		for i := 0; i < nfiles; i++ {
			if !wl[int64(i)] {
				continue
			}
			rel := filepath.FromSlash(p.dp.Source.Files[i].Path)
			got, err1 := os.ReadFile(filepath.Join(out, rel))
			want, err2 := os.ReadFile(filepath.Join(p.refDir, rel))
			if err2 != nil {
				r.Failf("harness:ref-missing", "%v", err2)
				continue
			}
			if err1 != nil {
				r.Failf("whitelisted-file-missing", "whitelist %v: %s: %v", maskList(c.Mask, nfiles), rel, err1)
				continue
			}
			if !bytes.Equal(got, want) {
				r.Failf("whitelisted-file-differs", "whitelist %v: %s has %d bytes, full application gives %d bytes (or content differs)", maskList(c.Mask, nfiles), rel, len(got), len(want))
			}
		}
		r.Outcome(fmt.Sprintf("%s n=%d writers=%d transposes=%d reads=%v", c.Mode, members, writers, transposes, reads > 0))
		if c.Resume && !r.Failed() {
			interrupted(c, r, p.patch, p.oldDir, p.refDir, filepath.Join(p.dir, fmt.Sprintf("resume%d", outN)), wl, p.dp.Source.Files)
		}
	}

	comps := []wh.Comp{"none", "gzip-1", "brotli-1"}

	// enumerate groups (one patch each); a group is owned by one worker so that
	// the patch is built once for all its whitelists.
	// stride: which permutations are used at all; fullEvery: permutations whose
	// index is a multiple of it get every compression setting, the others one
	// setting chosen round-robin.
	enumPerm := func(sub *runner.Sub[Case], modes []string, stride, fullEvery int) {
		perms := permutations(allKinds)
		g := 0
		for pi, perm := range perms {
			if pi%stride != 0 {
				continue
			}
			for mi, mode := range modes {
				for ci, comp := range comps {
					if pi%fullEvery != 0 && ci != (pi+mi)%len(comps) {
						continue
					}
					g++
					if !w.Owns(g) {
						continue
					}
					for mask := 0; mask < 1<<uint(len(perm)); mask++ {
						// both descriptions of the same whitelist, alternating so that every mask gets
						// both across the permutations (and the all-compressions slice runs both for all)
						// every 9th mask of every group is also run interrupted + resumed
						sub.DoOwned(Case{Fam: "perm", Perm: perm, Comp: comp, Mode: mode, Mask: mask, Dense: (mask+len(perm[0])+permOrdinal(perm))%2 == 1, Resume: (mask+permOrdinal(perm))%9 == 0})
					}
				}
			}
		}
		sub.Note("patches", g)
	}

	plain := runner.NewSub(w, "plain", run)
	if plain.Active() {
		if w.Quick() {
			enumPerm(plain, []string{"plain"}, 6, 1)
		} else {
			enumPerm(plain, []string{"plain"}, 1, 1)
		}
		plain.Done()
	}

	opt := runner.NewSub(w, "optimized", run, runner.Journal())
	if opt.Active() {
		// every application that processes a bsdiff series allocates the patcher's
		// LRU file buffer (~5 ms), so the optimized families are thinned in the
		// compression dimension only: all 64 whitelists are always run.
		if w.Quick() {
			enumPerm(opt, []string{"opt", "optall"}, 12, 1<<30)
		} else {
			enumPerm(opt, []string{"opt", "optall"}, 1, 6)
		}
		opt.Done()
	}

	// every registered compression setting (algorithm x quality) on one or two
	// permutations, all whitelists
	ac := runner.NewSub(w, "all-compressions", run, runner.Journal())
	if ac.Active() {
		perms := permutations(allKinds)
		pick := [][]string{perms[len(perms)/2]}
		modes := []string{"plain", "opt"}
		if !w.Quick() {
			pick = append(pick, perms[0])
			modes = append(modes, "optall")
		}
		g := 0
		for _, perm := range pick {
			for _, mode := range modes {
				for _, comp := range wh.AllComps() {
					g++
					if !w.Owns(g) {
						continue
					}
					for mask := 0; mask < 1<<uint(len(perm)); mask++ {
						ac.DoOwned(Case{Fam: "perm", Perm: perm, Comp: comp, Mode: mode, Mask: mask})
						ac.DoOwned(Case{Fam: "perm", Perm: perm, Comp: comp, Mode: mode, Mask: mask, Dense: true})
					}
				}
			}
		}
		ac.Note("patches", g)
		ac.Done()
	}

	idx := runner.NewSub(w, "idx2049", run, runner.Journal())
	if idx.Active() {
		g := 0
		for _, mode := range []string{"plain", "opt"} {
			for _, comp := range comps {
				g++
				if !w.Owns(g) {
					continue
				}
				for mask := 0; mask < 32; mask++ {
					idx.DoOwned(Case{Fam: "idx", Comp: comp, Mode: mode, Mask: mask, Dense: mask%2 == 1})
				}
			}
		}
		idx.Done()
	}
	if cur != nil {
		os.RemoveAll(cur.dir)
	}
}

func pathOf(p *prepared, i int64) string {
	if i < 0 || i >= int64(len(p.dp.Source.Files)) {
		return "?"
	}
	return p.dp.Source.Files[i].Path
}

func maskList(mask, n int) []int {
	out := []int{}
	for i := 0; i < n; i++ {
		if mask&(1<<uint(i)) != 0 {
			out = append(out, i)
		}
	}
	return out
}

func permutations(items []string) [][]string {
	var out [][]string
	var rec func(cur []string, rest []string)
	rec = func(cur []string, rest []string) {
		if len(rest) == 0 {
			out = append(out, append([]string{}, cur...))
			return
		}
		for i := range rest {
			nr := append(append([]string{}, rest[:i]...), rest[i+1:]...)
			rec(append(cur, rest[i]), nr)
		}
	}
	s := append([]string{}, items...)
	sort.Strings(s)
	rec(nil, s)
	return out
}

// permOrdinal is a cheap deterministic number of a permutation (for alternating options).
func permOrdinal(perm []string) int {
	n := 0
	for i, k := range perm {
		if len(k) > 0 {
			n += (i + 1) * int(k[0])
		}
	}
	return n
}

type stopAt struct {
	k, seen int
	ck      []byte
	err     error
}

func (s *stopAt) ShouldSave() bool { return true }
func (s *stopAt) Save(c *patcher.Checkpoint) (patcher.AfterSaveAction, error) {
	if s.seen == s.k {
		var buf bytes.Buffer
		if err := gob.NewEncoder(&buf).Encode(c); err != nil {
			s.err = err
			return patcher.AfterSaveStop, nil
		}
		s.ck = buf.Bytes()
		s.seen++
		return patcher.AfterSaveStop, nil
	}
	s.seen++
	return patcher.AfterSaveContinue, nil
}

// interrupted stops the whitelisted application at checkpoint k (every k offered), then
// resumes it with a brand-new patcher and bowl from the serialized checkpoint.
func interrupted(c Case, r *runner.Rec, patch []byte, oldDir, refDir, out string, wl map[int64]bool, files []*tlc.File) {
	session := func(ck *patcher.Checkpoint, sc patcher.SaveConsumer) error {
		pt, err := patcher.New(seeksource.FromBytes(patch), &state.Consumer{})
		if err != nil {
			return err
		}
		pool := fspool.New(pt.GetTargetContainer(), oldDir)
		fb, err := bowl.NewFreshBowl(bowl.FreshBowlParams{SourceContainer: pt.GetSourceContainer(), TargetContainer: pt.GetTargetContainer(), TargetPool: pool, OutputFolder: out})
		if err != nil {
			return err
		}
		defer fb.Close()
		pt.SetSourceIndexWhitelist(wl)
		if sc != nil {
			pt.SetSaveConsumer(sc)
		}
		if err := pt.Resume(ck, pool, fb); err != nil {
			return err
		}
		return fb.Commit()
	}
	for k := 0; k < 64; k++ {
		os.RemoveAll(out)
		st := &stopAt{k: k}
		err := session(nil, st)
		if st.err != nil {
			r.Failf("checkpoint-gob-error", "%v", st.err)
			break
		}
		if st.ck == nil {
			// fewer than k+1 checkpoints offered: the run completed (or failed for real)
			if err != nil {
				r.Failf("resume-error:always-saving", "whitelisted application with an always-saving consumer: %v", err)
			}
			break
		}
		var ck patcher.Checkpoint
		if err := gob.NewDecoder(bytes.NewReader(st.ck)).Decode(&ck); err != nil {
			r.Failf("checkpoint-gob-error", "decode: %v", err)
			break
		}
		if err := session(&ck, nil); err != nil {
			r.Failf("whitelist-resume-error", "whitelist %v: interrupted at checkpoint %d (file %d), resumed by a new patcher: %v", maskList(c.Mask, len(files)), k, ck.FileIndex, err)
			break
		}
		bad := false
		for i, f := range files {
			if !wl[int64(i)] {
				continue
			}
			rel := filepath.FromSlash(f.Path)
			got, err1 := os.ReadFile(filepath.Join(out, rel))
			want, _ := os.ReadFile(filepath.Join(refDir, rel))
			if err1 != nil || !bytes.Equal(got, want) {
				r.Failf("whitelist-resume-differs", "whitelist %v: interrupted at checkpoint %d and resumed: %s differs from the full application (%v)", maskList(c.Mask, len(files)), k, rel, err1)
				bad = true
				break
			}
		}
		if bad {
			break
		}
		r.Trans(1)
	}
	os.RemoveAll(out)
}
