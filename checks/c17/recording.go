package main

import (
	"io"

	"github.com/itchio/lake"
	"github.com/itchio/wharf/pwr/bowl"
)

// recorder is shared by the recording bowl, the recording target pool and the
// patcher's consumer: label is the path last announced through
// Consumer.ProgressLabel (the patcher announces every file, skipped or not,
// before it touches its series).
type recorder struct {
	label  string
	events []event
}

type event struct {
	What  string // writer | transpose | open | read | seek
	Index int64  // new-file index (bowl events) or old-file index (pool events)
	Aux   int64  // transpose: old-file index
	Label string // file being processed when the event happened
	N     int    // bytes (read events)
}

func (r *recorder) add(what string, index, aux int64, n int) {
	r.events = append(r.events, event{What: what, Index: index, Aux: aux, Label: r.label, N: n})
}

// ---- bowl -------------------------------------------------------------------

// recBowl wraps a real bowl and logs which new-file indices it is asked to
// write (GetWriter) or copy/move (Transpose).
type recBowl struct {
	inner bowl.Bowl
	rec   *recorder
}

var _ bowl.Bowl = (*recBowl)(nil)

func (b *recBowl) Resume(c *bowl.BowlCheckpoint) error { return b.inner.Resume(c) }
func (b *recBowl) Save() (*bowl.BowlCheckpoint, error) { return b.inner.Save() }
func (b *recBowl) Commit() error                       { return b.inner.Commit() }
func (b *recBowl) Close() error                        { return b.inner.Close() }

func (b *recBowl) GetWriter(index int64) (bowl.EntryWriter, error) {
	b.rec.add("writer", index, -1, 0)
	return b.inner.GetWriter(index)
}

func (b *recBowl) Transpose(t bowl.Transposition) error {
	b.rec.add("transpose", t.SourceIndex, t.TargetIndex, 0)
	return b.inner.Transpose(t)
}

// ---- target pool ------------------------------------------------------------

// recPool wraps the pool of the old build and logs every access to file data
// (opening a reader, reading, seeking). GetSize only consults the container and
// is not logged.
type recPool struct {
	inner lake.Pool
	rec   *recorder
}

var _ lake.Pool = (*recPool)(nil)

func (p *recPool) GetSize(fileIndex int64) int64 { return p.inner.GetSize(fileIndex) }
func (p *recPool) Close() error                  { return p.inner.Close() }

func (p *recPool) GetReader(fileIndex int64) (io.Reader, error) {
	p.rec.add("open", fileIndex, -1, 0)
	r, err := p.inner.GetReader(fileIndex)
	if err != nil {
		return nil, err
	}
	return &recReader{r: r, rec: p.rec, index: fileIndex}, nil
}

func (p *recPool) GetReadSeeker(fileIndex int64) (io.ReadSeeker, error) {
	p.rec.add("open", fileIndex, -1, 0)
	r, err := p.inner.GetReadSeeker(fileIndex)
	if err != nil {
		return nil, err
	}
	return &recReader{r: r, s: r, rec: p.rec, index: fileIndex}, nil
}

type recReader struct {
	r     io.Reader
	s     io.Seeker
	rec   *recorder
	index int64
}

func (r *recReader) Read(p []byte) (int, error) {
	n, err := r.r.Read(p)
	r.rec.add("read", r.index, -1, n)
	return n, err
}

func (r *recReader) Seek(off int64, whence int) (int64, error) {
	r.rec.add("seek", r.index, -1, 0)
	return r.s.Seek(off, whence)
}
