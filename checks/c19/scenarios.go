package main

// Scenario bodies and oracles of C19 as plain functions: each takes an Env and a
// JSON-serialisable case and returns an Out (failures with fingerprints, outcome
// class, non-triviality, transition count). Nothing here depends on the runner,
// so a scheduler-controlled variant can call the same functions.

import (
	"bytes"
	"errors"
	"fmt"
	"os"
	"path/filepath"
	"sort"
	"strconv"
	"strings"
	"sync"

	"github.com/itchio/lake/pools/fspool"
	"github.com/itchio/wharf/archiver"
	"github.com/itchio/wharf/archiver/containerarchiver"

	"verif/lib/wh"
)

// ---------------------------------------------------------------- results

type Fail struct{ FP, Msg string }

type Out struct {
	Fails      []Fail
	Class      string
	Nontrivial bool
	Trans      int
}

func (o *Out) failf(fp, format string, a ...any) {
	o.Fails = append(o.Fails, Fail{fp, fmt.Sprintf(format, a...)})
}

// ---------------------------------------------------------------- environment

// Env owns the scratch space of one worker and caches source trees/archives.
type Env struct {
	Root string
	Seed int64
	n    int
	srcs map[string]*source
}

type source struct {
	dir   string
	want  map[string]wh.Snap
	archs map[string]*Arch
}

// Arch is an archive produced by the real compressor.
type Arch struct {
	Bytes []byte   // zip producers
	Path  string   // tar
	Info  *ZipInfo // zip producers
}

func NewEnv(root string, seed int64) *Env {
	return &Env{Root: root, Seed: seed, srcs: map[string]*source{}}
}

// Fresh returns a new unique path under the scratch root (not created).
func (e *Env) Fresh(prefix string) string {
	e.n++
	return filepath.Join(e.Root, fmt.Sprintf("%s%d", prefix, e.n))
}

func buildKey(b wh.Build) string {
	var sb strings.Builder
	for _, en := range b {
		fmt.Fprintf(&sb, "%s|%s|%s|%s|%o;", en.Path, en.Kind, en.Content, en.Dest, en.Mode)
	}
	return sb.String()
}

func (e *Env) source(b wh.Build) (*source, error) {
	k := buildKey(b)
	if s, ok := e.srcs[k]; ok {
		return s, nil
	}
	if len(e.srcs) > 40 { // keep the scratch space bounded
		for kk, s := range e.srcs {
			os.RemoveAll(s.dir)
			for _, a := range s.archs {
				if a.Path != "" {
					os.Remove(a.Path)
				}
			}
			delete(e.srcs, kk)
		}
	}
	dir := e.Fresh("src")
	if err := b.Materialize(dir, e.Seed); err != nil {
		return nil, err
	}
	want, err := wh.Snapshot(dir)
	if err != nil {
		return nil, err
	}
	s := &source{dir: dir, want: want, archs: map[string]*Arch{}}
	e.srcs[k] = s
	return s, nil
}

// archive compresses the source tree with the real producer:
// "zip" archiver.CompressZip, "czip" containerarchiver.CompressZip (tlc container
// + fs pool), "tar" archiver.CompressTar.
func (e *Env) archive(s *source, producer string) (*Arch, error) {
	if a, ok := s.archs[producer]; ok {
		return a, nil
	}
	a := &Arch{}
	switch producer {
	case "zip":
		var buf bytes.Buffer
		if _, err := archiver.CompressZip(&buf, s.dir, wh.Quiet()); err != nil {
			return nil, err
		}
		a.Bytes = buf.Bytes()
	case "czip":
		c, err := wh.Walk(s.dir)
		if err != nil {
			return nil, err
		}
		pool := fspool.New(c, s.dir)
		var buf bytes.Buffer
		_, err = containerarchiver.CompressZip(&buf, c, pool, wh.Quiet())
		pool.Close()
		if err != nil {
			return nil, err
		}
		a.Bytes = buf.Bytes()
	case "tar":
		a.Path = e.Fresh("archive") + ".tar"
		f, err := os.Create(a.Path)
		if err != nil {
			return nil, err
		}
		_, err = archiver.CompressTar(f, s.dir, wh.Quiet())
		if cerr := f.Close(); err == nil {
			err = cerr
		}
		if err != nil {
			return nil, err
		}
	default:
		return nil, fmt.Errorf("unknown producer %q", producer)
	}
	if a.Bytes != nil {
		zi, err := InspectZip(a.Bytes)
		if err != nil {
			return nil, fmt.Errorf("inspect: %w", err)
		}
		a.Info = zi
	}
	s.archs[producer] = a
	return a, nil
}

// ---------------------------------------------------------------- oracle helpers

type Counts struct{ D, F, L int }

func (c Counts) String() string { return fmt.Sprintf("dirs=%d files=%d symlinks=%d", c.D, c.F, c.L) }

func countSnap(m map[string]wh.Snap) Counts {
	var c Counts
	for _, s := range m {
		switch s.Kind {
		case "d":
			c.D++
		case "f":
			c.F++
		case "l":
			c.L++
		}
	}
	return c
}

func countRes(r *archiver.ExtractResult) Counts {
	return Counts{D: r.Dirs, F: r.Files, L: r.Symlinks}
}

func wclass(workers int) string {
	if workers == 1 || workers == 0 {
		return "workers=1"
	}
	return "workers>1"
}

// countsFP is the fingerprint of a wrong ExtractResult. With several workers the
// three counters of ExtractZip are incremented without synchronisation, so the
// class "workers>1" is one defect whatever the producer or phase; a wrong count
// with one worker (or from tar) is a different failure.
func countsFP(producer string, workers int) string {
	if producer == "tar" {
		return "counts-mismatch:tar"
	}
	return "counts-mismatch:" + wclass(workers)
}

// classifyDiff maps a DiffSnaps result to the suffix of a fingerprint.
func classifyDiff(d []string) string {
	missing, wrong, extra := false, false, false
	for _, s := range d {
		switch {
		case strings.HasPrefix(s, "missing "):
			missing = true
		case strings.HasPrefix(s, "extra "):
			extra = true
		default:
			wrong = true
		}
	}
	switch {
	case missing:
		return "missing-entry"
	case wrong:
		return "wrong-entry"
	case extra:
		return "extra-entry"
	}
	return ""
}

func readLastDone(path string) (int, string) {
	b, err := os.ReadFile(path)
	if err != nil {
		return -1, "absent"
	}
	n, err := strconv.ParseInt(string(b), 10, 64)
	if err != nil {
		return -1, fmt.Sprintf("unparseable %q", b)
	}
	return int(n), string(b)
}

// extractFailed reports hang / panic / error of an extraction uniformly.
func extractFailed(o *Out, what, tag string, x ExtractOutcome) bool {
	switch {
	case x.Hung:
		o.failf("hang:"+what, "%s: ExtractZip did not return within %s", tag, watchdog)
	case x.Panic != "":
		o.failf("panic:"+x.PanicAt, "%s: panic in ExtractZip: %s", tag, x.Panic)
	case x.Err != nil:
		o.failf(what+"-error:"+tag, "%s: %v", tag, x.Err)
	default:
		return false
	}
	return true
}

// ---------------------------------------------------------------- scenario 1: round trip

// RTCase: compress the tree, extract into an empty directory, compare, extract
// again over the result.
type RTCase struct {
	Tree     string   `json:"tree"`
	Build    wh.Build `json:"build"`
	Producer string   `json:"producer"` // zip | czip | tar
	Workers  int      `json:"workers"`  // zip producers only
	Resume   bool     `json:"resume"`   // pass a (non-existing) ResumeFrom path
}

func RoundTrip(env *Env, c RTCase) (o Out) {
	src, err := env.source(c.Build)
	if err != nil {
		o.failf("harness:materialize", "%v", err)
		return
	}
	arch, err := env.archive(src, c.Producer)
	if err != nil {
		o.failf("compress-error:"+c.Producer, "%v", err)
		return
	}
	out := env.Fresh("out")
	defer os.RemoveAll(out)
	if err := os.MkdirAll(out, 0o755); err != nil {
		o.failf("harness:mkdir", "%v", err)
		return
	}
	resume := ""
	if c.Resume && c.Producer != "tar" {
		resume = env.Fresh("resume")
		defer os.Remove(resume)
	}
	want := countSnap(src.want)
	tag := c.Producer
	if c.Producer != "tar" {
		tag += ":" + wclass(c.Workers)
	}
	extract := func() (Counts, bool) {
		if c.Producer == "tar" {
			res, err := archiver.ExtractTar(arch.Path, out, archiver.ExtractSettings{Consumer: wh.Quiet()})
			if err != nil {
				o.failf("extract-error:tar", "%v", err)
				return Counts{}, false
			}
			return countRes(res), true
		}
		x := RunExtractZip(ExtractParams{Archive: arch.Bytes, Info: arch.Info, Dir: out, Workers: c.Workers, Resume: resume})
		if extractFailed(&o, "extract", tag, x) {
			return Counts{}, false
		}
		return countRes(x.Res), true
	}
	for pass, name := range []string{"", "reextract-"} {
		got, ok := extract()
		if !ok {
			return
		}
		o.Trans += got.D + got.F + got.L
		snap, err := wh.Snapshot(out)
		if err != nil {
			o.failf("harness:snapshot", "%v", err)
			return
		}
		if d := wh.DiffSnaps(snap, src.want, false); len(d) > 0 {
			o.failf(name+"tree-mismatch:"+tag+":"+classifyDiff(d), "pass %d: extracted tree differs from the source: %s", pass, strings.Join(d, "; "))
		}
		if got != want {
			o.failf(countsFP(c.Producer, c.Workers), "%s pass %d: ExtractResult %s, tree has %s", tag, pass, got, want)
		}
		if o.Fails != nil {
			return
		}
	}
	o.Class = fmt.Sprintf("%s d%v f%v l%v", c.Producer, want.D > 0, want.F > 0, want.L > 0)
	// non-trivial: at least two entries, one of them a non-empty regular file
	nonEmpty := false
	for _, s := range src.want {
		if s.Kind == "f" && s.Size > 0 {
			nonEmpty = true
		}
	}
	o.Nontrivial = len(src.want) >= 2 && nonEmpty
	return
}

// ---------------------------------------------------------------- crash images

// image is the on-disk state a crashed extraction leaves behind: the partially
// extracted directory and the resume file (possibly absent).
type image struct {
	dir, resume string
}

// capture copies the directory and the resume file as they are right now. It is
// only called from a seam while every worker that could touch them is blocked.
func capture(env *Env, dir, resume string) (*image, error) {
	img := &image{dir: env.Fresh("img"), resume: env.Fresh("imgresume")}
	if _, err := os.Lstat(dir); err == nil {
		if err := wh.CopyTree(dir, img.dir); err != nil {
			return nil, err
		}
	} else if err := os.MkdirAll(img.dir, 0o755); err != nil {
		return nil, err
	}
	if b, err := os.ReadFile(resume); err == nil {
		if err := os.WriteFile(img.resume, b, 0o644); err != nil {
			return nil, err
		}
	}
	return img, nil
}

func (im *image) remove() {
	if im != nil {
		os.RemoveAll(im.dir)
		os.Remove(im.resume)
	}
}

// restartAndCheck runs ExtractZip on a crash image with the image's resume file
// and checks: no error, complete tree, counts == entries extracted by this run.
func restartAndCheck(env *Env, o *Out, src *source, arch *Arch, img *image, workers int, mode string) {
	lastDone, raw := readLastDone(img.resume)
	before, _ := wh.Snapshot(img.dir)
	partial := false
	for p, s := range before {
		if w, ok := src.want[p]; ok && s.Kind == "f" && w.Kind == "f" && (s.Size != w.Size || s.Sum != w.Sum) {
			partial = true
		}
	}
	// Which entries this run really extracts is observed, not derived from the
	// resume index: one "extract <path>" message per regular file written, one
	// "ln -s" message per symlink made. Directories leave no trace when they
	// exist already, so their count is bounded: at least the directories that
	// were absent from the image, at most all of them.
	var mu sync.Mutex
	var sawFiles, sawLinks int
	seams := &Seams{Message: func(msg string) {
		mu.Lock()
		if strings.HasPrefix(msg, "extract ") {
			sawFiles++
		} else {
			sawLinks++
		}
		mu.Unlock()
	}}
	x := RunExtractZip(ExtractParams{Archive: arch.Bytes, Info: arch.Info, Dir: img.dir, Workers: workers, Resume: img.resume, Seams: seams})
	if extractFailed(o, "resume", mode, x) {
		return
	}
	got := countRes(x.Res)
	o.Trans += got.D + got.F + got.L
	snap, err := wh.Snapshot(img.dir)
	if err != nil {
		o.failf("harness:snapshot", "%v", err)
		return
	}
	if d := wh.DiffSnaps(snap, src.want, false); len(d) > 0 {
		cl := classifyDiff(d)
		fp := "resume-" + cl + ":" + mode
		if cl == "missing-entry" || cl == "wrong-entry" {
			// an entry at or below the index in the resume file was never (completely) extracted
			fp = "resume-skips-entry:" + mode
		}
		o.failf(fp, "restart with resume file %s over a directory holding %d of %d entries: tree is not complete afterwards: %s",
			raw, len(before), len(src.want), strings.Join(d, "; "))
	}
	mu.Lock()
	total := countSnap(src.want)
	absentDirs := 0
	for p, s := range src.want {
		if b, ok := before[p]; s.Kind == "d" && !(ok && b.Kind == "d") {
			absentDirs++
		}
	}
	if got.F != sawFiles || got.L != sawLinks || got.D < absentDirs || got.D > total.D {
		o.failf(countsFP("zip", workers), "restart (%s) with resume file %s: ExtractResult %s, but this run wrote %d files, made %d symlinks and had to create between %d and %d directories",
			mode, raw, got, sawFiles, sawLinks, absentDirs, total.D)
	}
	mu.Unlock()
	n := arch.Info.N()
	bucket := "none"
	switch {
	case raw == "absent":
	case lastDone < 0:
		bucket = "unparseable"
	case lastDone == 0:
		bucket = "first"
	case lastDone >= n-1:
		bucket = "last"
	default:
		bucket = "middle"
	}
	o.Class = fmt.Sprintf("resume=%s partial-file=%v", bucket, partial)
	if (lastDone >= 0 && lastDone < n-1) || partial {
		o.Nontrivial = true
	}
}

// ---------------------------------------------------------------- scenario 2: sequential crash + resume

// ResumeCase: one worker; the extraction is cut either right after entry After
// completed (its index is in the resume file) or at the Event-th seam event
// (every archive read, every extract/ln message, every OnEntryDone), i.e. also in
// the middle of an entry. Then ExtractZip runs again on that state with the
// same resume file.
type ResumeCase struct {
	Tree           string   `json:"tree"`
	Build          wh.Build `json:"build"`
	Producer       string   `json:"producer"` // zip | czip
	Kind           string   `json:"kind"`     // "after" | "event"
	N              int      `json:"n"`        // entry index / event ordinal
	RestartWorkers int      `json:"restart_workers"`
}

// CountEvents runs one hooked 1-worker extraction and returns the number of seam
// events and of entries (used by the generator to know the bounds).
func CountEvents(env *Env, b wh.Build, producer string) (events, entries int, err error) {
	src, err := env.source(b)
	if err != nil {
		return 0, 0, err
	}
	arch, err := env.archive(src, producer)
	if err != nil {
		return 0, 0, err
	}
	out := env.Fresh("cnt")
	defer os.RemoveAll(out)
	os.MkdirAll(out, 0o755)
	ev := 0
	s := &Seams{
		BeforeRead: func(int, int64, int) error { ev++; return nil },
		Message:    func(string) { ev++ },
		EntryDone:  func(int) { ev++ },
	}
	resume := env.Fresh("cntresume")
	defer os.Remove(resume)
	x := RunExtractZip(ExtractParams{Archive: arch.Bytes, Info: arch.Info, Dir: out, Workers: 1, Resume: resume, Seams: s})
	if x.Hung || x.Err != nil {
		return 0, 0, fmt.Errorf("counting run failed: hung=%v err=%v", x.Hung, x.Err)
	}
	return ev, arch.Info.N(), nil
}

func ResumeSequential(env *Env, c ResumeCase) (o Out) {
	src, err := env.source(c.Build)
	if err != nil {
		o.failf("harness:materialize", "%v", err)
		return
	}
	arch, err := env.archive(src, c.Producer)
	if err != nil {
		o.failf("compress-error:"+c.Producer, "%v", err)
		return
	}
	zi := arch.Info
	out := env.Fresh("out")
	defer os.RemoveAll(out)
	os.MkdirAll(out, 0o755)
	resume := env.Fresh("resume")
	defer os.Remove(resume)

	var img, probe *image
	defer func() { img.remove(); probe.remove() }()
	var capErr error
	take := func(dst **image) {
		if *dst != nil || capErr != nil {
			return
		}
		*dst, capErr = capture(env, out, resume)
	}

	seams := &Seams{}
	// For a directory entry there is no seam: the state "after entry i" is rebuilt
	// from the last real seam before it (OnEntryDone of the closest preceding
	// non-directory entry, or the empty directory) by applying the real
	// archiver.Mkdir for the directory entries in between and writing the resume
	// file the way writeProgress does. If the next entry is not a directory, the
	// rebuilt state is compared with the real state seen at that entry's header read.
	base, rebuildDirs := -2, false
	switch c.Kind {
	case "event":
		ev := 0
		step := func() {
			if ev == c.N {
				take(&img)
			}
			ev++
		}
		seams.BeforeRead = func(int, int64, int) error { step(); return nil }
		seams.Message = func(string) { step() }
		seams.EntryDone = func(int) { step() }
	case "after":
		if c.N < 0 || c.N >= zi.N() {
			o.failf("harness:bad-case", "entry %d out of range (%d entries)", c.N, zi.N())
			return
		}
		if zi.Kinds[c.N] != "d" {
			seams.EntryDone = func(i int) {
				if i == c.N {
					take(&img)
				}
			}
		} else {
			rebuildDirs = true
			base = -1
			for k := c.N - 1; k >= 0; k-- {
				if zi.Kinds[k] != "d" {
					base = k
					break
				}
			}
			if base >= 0 {
				seams.EntryDone = func(i int) {
					if i == base {
						take(&img)
					}
				}
			}
			if c.N+1 < zi.N() && zi.Kinds[c.N+1] != "d" {
				seams.BeforeRead = func(entry int, _ int64, _ int) error {
					if entry == c.N+1 {
						take(&probe)
					}
					return nil
				}
			}
		}
	default:
		o.failf("harness:bad-case", "kind %q", c.Kind)
		return
	}

	x := RunExtractZip(ExtractParams{Archive: arch.Bytes, Info: zi, Dir: out, Workers: 1, Resume: resume, Seams: seams})
	if extractFailed(&o, "extract", c.Producer+":workers=1", x) {
		return
	}
	if capErr != nil {
		o.failf("harness:capture", "%v", capErr)
		return
	}
	if rebuildDirs {
		if base < 0 {
			img = &image{dir: env.Fresh("img"), resume: env.Fresh("imgresume")}
			os.MkdirAll(img.dir, 0o755)
		}
		if img == nil {
			o.failf("harness:no-image", "seam of entry %d never fired", base)
			return
		}
		for k := base + 1; k <= c.N; k++ {
			if err := archiver.Mkdir(filepath.Join(img.dir, filepath.FromSlash(zi.Names[k]))); err != nil {
				o.failf("harness:rebuild", "%v", err)
				return
			}
		}
		os.WriteFile(img.resume, []byte(fmt.Sprintf("%d", c.N)), 0o644)
		if probe != nil {
			a, _ := wh.Snapshot(img.dir)
			b, _ := wh.Snapshot(probe.dir)
			ra, _ := os.ReadFile(img.resume)
			rb, _ := os.ReadFile(probe.resume)
			if d := wh.DiffSnaps(a, b, false); len(d) > 0 || !bytes.Equal(ra, rb) {
				o.failf("harness:rebuilt-state-differs", "rebuilt state after directory entry %d differs from the real one: %v; resume %q vs %q", c.N, d, ra, rb)
				return
			}
		}
	}
	if img == nil {
		o.failf("harness:no-image", "crash point %s %d was never reached", c.Kind, c.N)
		return
	}
	restartAndCheck(env, &o, src, arch, img, c.RestartWorkers, "sequential")
	return
}

// ---------------------------------------------------------------- scenario 3: out-of-order finish + crash + resume

// OOOCase forces the one schedule family the worker pool makes possible and the
// sequential scenario cannot show: len(Held)+1 workers; the workers that pick
// the Held entries are stopped at the read of the entry's local header (nothing
// of the entry is on disk yet) while the remaining worker extracts everything
// else in order; the crash image is taken when entry After (> every held entry)
// has completed, i.e. inside its OnEntryDone, with every other goroutine
// blocked; then the held workers are released and the first run finishes.
// ExtractZip is then run on the image with the image's resume file.
type OOOCase struct {
	Tree           string   `json:"tree"`
	Build          wh.Build `json:"build"`
	Producer       string   `json:"producer"`
	Held           []int    `json:"held"`
	After          int      `json:"after"`
	RestartWorkers int      `json:"restart_workers"`
}

func ResumeOutOfOrder(env *Env, c OOOCase) (o Out) {
	src, err := env.source(c.Build)
	if err != nil {
		o.failf("harness:materialize", "%v", err)
		return
	}
	arch, err := env.archive(src, c.Producer)
	if err != nil {
		o.failf("compress-error:"+c.Producer, "%v", err)
		return
	}
	zi := arch.Info
	held := map[int]bool{}
	for k, h := range c.Held {
		if h < 0 || h >= zi.N() || zi.Kinds[h] == "d" || h >= c.After || (k > 0 && h <= c.Held[k-1]) {
			o.failf("harness:bad-case", "held %v after %d", c.Held, c.After)
			return
		}
		held[h] = true
	}
	if c.After >= zi.N() || zi.Kinds[c.After] == "d" || len(c.Held) == 0 {
		o.failf("harness:bad-case", "held %v after %d", c.Held, c.After)
		return
	}
	workers := len(c.Held) + 1
	out := env.Fresh("out")
	defer os.RemoveAll(out)
	os.MkdirAll(out, 0o755)
	resume := env.Fresh("resume")
	defer os.Remove(resume)

	release := make(chan struct{})
	var img *image
	var capErr error
	defer func() { img.remove() }()
	seams := &Seams{
		BeforeRead: func(entry int, _ int64, _ int) error {
			if entry >= 0 && held[entry] {
				<-release
			}
			return nil
		},
		EntryDone: func(i int) {
			if i == c.After && img == nil && capErr == nil {
				img, capErr = capture(env, out, resume)
				close(release)
			}
		},
	}
	x := RunExtractZip(ExtractParams{Archive: arch.Bytes, Info: zi, Dir: out, Workers: workers, Resume: resume, Seams: seams})
	if x.Hung {
		select {
		case <-release:
		default:
			close(release)
		}
	}
	tag := c.Producer + ":" + wclass(workers)
	if extractFailed(&o, "extract", tag, x) {
		return
	}
	if capErr != nil || img == nil {
		o.failf("harness:capture", "no image: %v", capErr)
		return
	}
	// the first (uninterrupted, merely reordered) run must itself be correct
	snap, _ := wh.Snapshot(out)
	if d := wh.DiffSnaps(snap, src.want, false); len(d) > 0 {
		o.failf("tree-mismatch:"+tag+":"+classifyDiff(d), "reordered run: %s", strings.Join(d, "; "))
	}
	if got, want := countRes(x.Res), countSnap(src.want); got != want {
		o.failf(countsFP("zip", workers), "reordered run: ExtractResult %s, tree has %s", got, want)
	}
	o.Trans += zi.N()
	restartAndCheck(env, &o, src, arch, img, c.RestartWorkers, "out-of-order")
	return
}

// ---------------------------------------------------------------- scenario 4: interruption by a read error

// ErrCase: one worker; the read of the local header of entry FailAt fails once,
// so ExtractZip returns an error after entries 0..FailAt-1 (graceful
// interruption). It is then called again on the same directory with the same
// ResumeFrom path and an intact archive.
type ErrCase struct {
	Tree     string   `json:"tree"`
	Build    wh.Build `json:"build"`
	Producer string   `json:"producer"`
	FailAt   int      `json:"fail_at"`
}

var errInjected = errors.New("injected read error")

func ResumeAfterError(env *Env, c ErrCase) (o Out) {
	src, err := env.source(c.Build)
	if err != nil {
		o.failf("harness:materialize", "%v", err)
		return
	}
	arch, err := env.archive(src, c.Producer)
	if err != nil {
		o.failf("compress-error:"+c.Producer, "%v", err)
		return
	}
	zi := arch.Info
	if c.FailAt < 0 || c.FailAt >= zi.N() || zi.Kinds[c.FailAt] == "d" {
		o.failf("harness:bad-case", "fail_at %d", c.FailAt)
		return
	}
	out := env.Fresh("out")
	os.MkdirAll(out, 0o755)
	resume := env.Fresh("resume")
	img := &image{dir: out, resume: resume}
	defer img.remove()
	fired := false
	seams := &Seams{BeforeRead: func(entry int, _ int64, _ int) error {
		if entry == c.FailAt && !fired {
			fired = true
			return errInjected
		}
		return nil
	}}
	x := RunExtractZip(ExtractParams{Archive: arch.Bytes, Info: zi, Dir: out, Workers: 1, Resume: resume, Seams: seams})
	if x.Hung {
		o.failf("hang:extract", "interrupted run did not return")
		return
	}
	if x.Panic != "" {
		o.failf("panic:"+x.PanicAt, "interrupted run: %s", x.Panic)
		return
	}
	if !fired {
		o.failf("harness:no-injection", "header of entry %d was never read", c.FailAt)
		return
	}
	if x.Err == nil {
		o.failf("read-error-swallowed", "the read of the header of entry %d failed but ExtractZip returned nil", c.FailAt)
		return
	}
	o.Trans += c.FailAt
	_, left := readLastDone(resume)
	restartAndCheck(env, &o, src, arch, img, 1, "after-error")
	// non-trivial: the interrupted run had already extracted something
	o.Nontrivial = c.FailAt > 0
	o.Class = fmt.Sprintf("resume-file-after-error=%s done-before=%v", left, c.FailAt > 0)
	return
}

// sortedNonDirs lists the indices of the non-directory entries.
func sortedNonDirs(zi *ZipInfo) []int {
	var out []int
	for i, k := range zi.Kinds {
		if k != "d" {
			out = append(out, i)
		}
	}
	sort.Ints(out)
	return out
}
