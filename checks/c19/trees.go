package main

import (
	"fmt"
	"strings"

	"verif/lib/wh"
)

// NamedTree is one member of the tree catalogue.
type NamedTree struct {
	Name  string
	Build wh.Build
}

// Catalogue returns the 12 hand-written trees of the DESIGN plan: nested and
// empty directories, empty files, relative / dangling / absolute symlinks, many
// small files (so that workers finish out of order), one 300 KiB file.
func Catalogue() []NamedTree {
	var t []NamedTree
	add := func(name string, b wh.Build) { t = append(t, NamedTree{name, b}) }

	add("empty", wh.Build{})
	add("one-empty-file", wh.Build{wh.F("e", "")})
	add("one-empty-dir", wh.Build{wh.D("d")})
	add("nested-empty-dirs", wh.Build{wh.D("a/b/c"), wh.D("a/x"), wh.D("z")})
	add("files-at-depths", wh.Build{
		wh.F("top", "=top"), wh.F("e0", ""), wh.F("d/e1", ""), wh.F("d/one", "=1"),
		wh.F("d/dd/two", "=22"), wh.F("d/dd/ddd/three", "=333"), wh.F("d/dd/ddd/e3", ""),
		wh.F("a b/with space", "=sp"), wh.F(".hidden", "=h"), wh.F("UPPER.TXT", "=U"),
		// dots: two in the middle of a name, three at the end of a directory name, a name of dots
		wh.F("notes..txt", "=n"), wh.D("empty..dir"), wh.F("wait.../x", "=w"), wh.L("link..x", "top"), wh.F("saves../slot1", "=s"), wh.F("...", "=d"),
		wh.F("upper.txt", "=u"), wh.F("\u00e9t\u00e9/na\u00efve", "=e"),
	})
	add("symlinks", wh.Build{
		wh.F("a", "=target"), wh.D("d"), wh.F("d/f", "=df"),
		wh.L("l-file", "a"), wh.L("l-dir", "d"), wh.L("l-dangling", "nowhere/at/all"),
		wh.L("l-abs", "/nonexistent/abs"), wh.L("d/l-up", "../a"), wh.L("l-chain", "l-file"),
		wh.L("0-before-target", "a"), wh.L("d/l-self", "l-self"),
	})
	{
		var b wh.Build
		for i := 0; i < 60; i++ {
			b = append(b, wh.F(fmt.Sprintf("f%02d", i), fmt.Sprintf("=small file number %d.r%d/%d", i, i%7, 10+i*37)))
		}
		add("60-small-flat", b)
	}
	{
		var b wh.Build
		for d := 0; d < 6; d++ {
			for i := 0; i < 10; i++ {
				b = append(b, wh.F(fmt.Sprintf("dir%d/sub/f%d", d, i), fmt.Sprintf("r%d/%d", d, 1+i*i*50+d)))
			}
		}
		b = append(b, wh.D("dir3/empty"), wh.L("dir0/link", "../dir1/sub/f1"))
		add("60-small-nested", b)
	}
	// names longer than the 100 bytes of a classic tar header field, paths longer than 255
	add("long-names", wh.Build{
		wh.F(strings.Repeat("n", 150), "=long file name"),
		wh.F(strings.Repeat("d", 120)+"/"+strings.Repeat("f", 120), "=long path"),
		wh.D(strings.Repeat("e", 130)),
		wh.L(strings.Repeat("l", 140), strings.Repeat("n", 150)),
		wh.F(strings.Repeat("p", 90)+"/"+strings.Repeat("q", 90)+"/"+strings.Repeat("r", 90)+"/leaf", "=over 255"),
		wh.F("short", "=s"),
		// a symlink destination of 1811 bytes (PATH_MAX is 4096)
		wh.L("long-dest", strings.TrimSuffix(strings.Repeat(strings.Repeat("x", 150)+"/", 12), "/")),
	})
	{
		var b wh.Build
		for i := 0; i < 300; i++ {
			b = append(b, wh.D(fmt.Sprintf("empty/%03d/x", i)))
		}
		b = append(b, wh.F("empty/150/x/file", "=only file"))
		add("300-empty-dirs", b)
	}
	add("big-first", wh.Build{
		wh.F("0big", "r1/307200"), wh.F("1small", "=s1"), wh.F("2small", "=s2"), wh.F("3empty", ""),
		wh.D("4dir"), wh.F("4dir/small", "=s4"), wh.L("5link", "0big"), wh.F("6small", "=s6"),
	})
	add("block-boundaries", wh.Build{
		wh.F("b-1", "A/65535"), wh.F("b", "A"), wh.F("b+1", "A.B/1"), wh.F("two", "A.B"),
		wh.D("emptydir"), wh.D("d/e/f"), wh.L("l", "two"), wh.F("d/e/zero", ""), wh.F("d/one", "=x"),
	})
	add("compressible-and-deep", wh.Build{
		wh.F("zeros", "Z.Z.Z.Z.Z.Z.Z.Z.Z.Z.Z.Z.Z.Z.Z.Z"), wh.F("1/2/3/4/5/6/7/8/deep", "=deep"),
		wh.D("1/2/3/4/5/6/7/8/9"), wh.F("mix", "Z.A.Z.B/100"), wh.L("1/2/l", "3/4"),
	})
	{
		// a directory holding only directories and symlinks, an executable file
		b := wh.Build{
			wh.D("only-dirs/a"), wh.D("only-dirs/b/c"), wh.L("only-links/1", "2"), wh.L("only-links/2", "1"),
			{Path: "bin/run", Kind: "f", Content: "=#!/bin/sh\n", Mode: 0o755},
			wh.F("bin/data", "r3/70000"),
		}
		add("dirs-links-exec", b)
	}
	return t
}

// Shapes enumerates every tree over the three top-level names a, b, d where
//
//	a, b in {absent, empty file, small file, empty dir, symlink to the other, dangling symlink}
//	d    in {absent, empty dir, dir with file c, dir with empty dir c, dir with symlink c -> ../a}
//
// (6 x 6 x 5 = 180 trees).
func Shapes() []NamedTree {
	var out []NamedTree
	opts := []string{"-", "e", "f", "d", "l", "x"}
	dopts := []string{"-", "d", "df", "dd", "dl"}
	for _, a := range opts {
		for _, b := range opts {
			for _, d := range dopts {
				var bd wh.Build
				one := func(name, other, o string) {
					switch o {
					case "e":
						bd = append(bd, wh.F(name, ""))
					case "f":
						bd = append(bd, wh.F(name, "="+name+name))
					case "d":
						bd = append(bd, wh.D(name))
					case "l":
						bd = append(bd, wh.L(name, other))
					case "x":
						bd = append(bd, wh.L(name, "missing"))
					}
				}
				one("a", "b", a)
				one("b", "a", b)
				switch d {
				case "d":
					bd = append(bd, wh.D("d"))
				case "df":
					bd = append(bd, wh.F("d/c", "=dc"))
				case "dd":
					bd = append(bd, wh.D("d/c"))
				case "dl":
					bd = append(bd, wh.L("d/c", "../a"))
				}
				out = append(out, NamedTree{fmt.Sprintf("shape:%s%s-%s", a, b, d), bd})
			}
		}
	}
	return out
}
