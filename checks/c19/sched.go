//go:build vsched

package main

// Scheduler-controlled part of C19: the real ExtractZip runs under the
// controlled scheduler with its file-system calls visible, so every
// interleaving of the dispatcher and the extraction workers (bounded) is
// enumerated; a crasher goroutine whose only action is "snapshot the directory
// and the resume file, then kill everything" makes every scheduling instant a
// crash point. The restart runs on the crash image with the same resume file.

import (
	"bytes"
	"fmt"
	"os"
	"strings"
	"time"

	"github.com/itchio/wharf/archiver"
	"github.com/itchio/wharf/zzverif/vsched"

	"verif/lib/runner"
	"verif/lib/wh"
)

func init() { schedSubs = schedBody }

type SchedCase struct {
	Build    wh.Build `json:"build"`
	Workers  int      `json:"workers"`
	Crash    bool     `json:"crash"`
	Bound    int      `json:"bound"`
	Schedule []int    `json:"schedule,omitempty"`
}

func schedScenarios(quick bool) []SchedCase {
	t3 := wh.Build{wh.F("a", "=aaaa"), wh.F("b", "=bb"), wh.F("c", "=c")}
	t5 := wh.Build{wh.D("d"), wh.F("d/f", "=inner"), wh.F("big", "r1/3000"), wh.F("s", "=s"), wh.L("l", "s")}
	var out []SchedCase
	bd := func(q, t int) int {
		if quick {
			return q
		}
		return t
	}
	out = append(out,
		SchedCase{Build: t3, Workers: 2, Bound: bd(2, 3)},
		SchedCase{Build: t3, Workers: 2, Crash: true, Bound: bd(2, 3)},
		SchedCase{Build: t3, Workers: 3, Bound: bd(1, 2)},
		SchedCase{Build: t3, Workers: 3, Crash: true, Bound: bd(1, 2)},
		SchedCase{Build: t5, Workers: 2, Bound: bd(1, 2)},
		SchedCase{Build: t5, Workers: 2, Crash: true, Bound: bd(1, 2)},
		SchedCase{Build: t5, Workers: 3, Bound: bd(0, 1)},
		SchedCase{Build: t5, Workers: 3, Crash: true, Bound: bd(0, 1)},
	)
	return out
}

func schedBody(w *runner.W) {
	env := NewEnv(w.Scratch(), w.Seed)
	left := 0
	for i, sc := range schedScenarios(w.Quick()) {
		if sc.Bound >= 2 || w.Owns(i) {
			left++
		}
	}
	var sub *runner.Sub[SchedCase]
	sub = runner.NewSub(w, "interleavings", func(sc SchedCase, r *runner.Rec) {
		src, err := env.source(sc.Build)
		if err != nil {
			panic(err)
		}
		arch, err := env.archive(src, "zip")
		if err != nil {
			panic(err)
		}
		dir := env.Fresh("sched-out")
		resume := env.Fresh("sched-resume")
		defer os.RemoveAll(dir)
		defer os.Remove(resume)
		var res *archiver.ExtractResult
		var xerr error
		var returned, crashed bool
		var img *image
		restartMemo := map[string][2]string{}
		bodyFn := func() {
			res, xerr, returned, crashed = nil, nil, false, false
			_ = crashed
			if img != nil {
				img.remove()
				img = nil
			}
			os.RemoveAll(dir)
			os.Remove(resume)
			if sc.Crash {
				vsched.Go0(func() {
					vsched.Point("fs:crash")
					im, err := capture(env, dir, resume)
					if err != nil {
						panic(err)
					}
					img = im
					crashed = true
					vsched.Abort("crashed")
				})
			}
			settings := archiver.ExtractSettings{Consumer: wh.Quiet(), Concurrency: sc.Workers, ResumeFrom: resume}
			res, xerr = archiver.ExtractZip(bytes.NewReader(arch.Bytes), int64(len(arch.Bytes)), dir, settings)
			returned = true
		}
		judge := func(out vsched.Result) (string, string) {
			switch out.Kind {
			case "done":
			case "crashed":
				if img == nil {
					return "harness:no-image", ""
				}
				// identical crash images (directory + resume file) are restarted once
				key := imageKey(img)
				if v, ok := restartMemo[key]; ok {
					return v[0], v[1]
				}
				var o Out
				restartAndCheck(env, &o, src, arch, img, sc.Workers, "sched-crash")
				v := [2]string{}
				if len(o.Fails) > 0 {
					v = [2]string{o.Fails[0].FP, o.Fails[0].Msg}
				}
				restartMemo[key] = v
				return v[0], v[1]
			case "deadlock":
				return "deadlock:workers" + fmt.Sprint(sc.Workers), "ExtractZip never returns: [" + out.Detail + "]"
			case "step-budget":
				return "livelock", out.Detail
			case "panic":
				return "panic:" + runner.PanicSite(out.Detail), out.Detail
			default:
				return "harness:" + out.Kind, out.Detail
			}
			if !returned {
				return "harness:no-return", ""
			}
			if xerr != nil {
				return "extract-error:sched", xerr.Error()
			}
			snap, err := wh.Snapshot(dir)
			if err != nil {
				return "harness:snapshot", err.Error()
			}
			if d := wh.DiffSnaps(snap, src.want, false); len(d) > 0 {
				return "tree-mismatch:sched:" + classifyDiff(d), strings.Join(d, "; ")
			}
			if got, want := countRes(res), countSnap(src.want); got != want {
				return countsFP("zip", sc.Workers), fmt.Sprintf("ExtractResult %s but the tree has %s", got, want)
			}
			return "", ""
		}
		opts := vsched.Options{PreemptionBound: sc.Bound, StepBudget: 50000}
		if sc.Schedule != nil {
			out := vsched.RunOnce(opts, sc.Schedule, bodyFn)
			if fp, msg := judge(out); fp != "" {
				r.Failf(fp, "%s", msg)
			}
			return
		}
		opts.Deadline = w.Deadline()
		split := sc.Bound >= 2
		if split {
			opts.ShardIdx, opts.ShardN = w.Index(), w.N()
		}
		reported := map[string]bool{}
		crashes := 0
		distinctImages := 0
		checkFn := func(out vsched.Result) bool {
			if out.Kind == "crashed" {
				crashes++
			}
			fp, msg := judge(out)
			if fp != "" && !reported[fp] {
				reported[fp] = true
				again := vsched.RunOnce(vsched.Options{PreemptionBound: sc.Bound, StepBudget: 50000}, out.Choices, bodyFn)
				if fp2, _ := judge(again); fp2 != fp {
					r.Failf("harness:nondeterministic-replay", "schedule %v gave %q then %q", out.Choices, fp, fp2)
					return false
				}
				cc := sc
				cc.Schedule = append([]int{}, out.Choices...)
				sub.Report(cc, fp, "%s; schedule=%v", msg, out.Choices)
			}
			return true
		}
		var st vsched.Stats
		completed := sc.Bound
		if w.Quick() {
			st = vsched.Explore(opts, bodyFn, checkFn)
		} else {
			// thorough: iterative context bounding inside a time slice
			left--
			opts.Deadline = sliceDeadline(w.Deadline(), left+1)
			var unb bool
			st, completed, unb = vsched.ExploreIterative(opts, 0, sc.Bound, bodyFn, checkFn)
			if unb {
				completed = 99
			}
		}
		if !w.Quick() {
			sub.MinNote("bound_completed:"+fmt.Sprintf("%dfiles/w%d/crash=%v", len(sc.Build), sc.Workers, sc.Crash), completed)
			if !st.Complete {
				sub.Incomplete("some scenarios ended below their target bound, see bound_completed notes")
			}
		}
		if img != nil {
			img.remove()
			img = nil
		}
		if os.Getenv("VERIF_DEBUG") != "" {
			fmt.Fprintf(os.Stderr, "scenario files=%d workers=%d crash=%v bound=%d: %+v crashes=%d\n", len(sc.Build), sc.Workers, sc.Crash, sc.Bound, st, crashes)
		}
		if st.HarnessError != "" {
			r.Failf("harness:explore", "%s", st.HarnessError)
		}
		sub.Count(int64(st.Executions), int64(st.States), int64(st.Transitions))
		first := !split || w.Index() == 0
		if first {
			r.Nontrivial()
		}
		r.Outcome(fmt.Sprintf("workers=%d crash=%v", sc.Workers, sc.Crash))
		sub.AddNote("executions", st.Executions)
		distinctImages = len(restartMemo)
		sub.AddNote("crash_points", crashes)
		sub.AddNote("distinct_crash_images_restarted", distinctImages)
		sub.AddNote("pruned_by_hb_cache", st.Pruned)
		sub.AddNote("alternatives_skipped_by_lookahead", st.Skipped)
		sub.MaxNote("max_goroutines", st.MaxGoroutines)
		sub.MaxNote("max_preemptions_used", st.MaxPreempts)
		if first {
			if st.Complete {
				sub.AddNote(fmt.Sprintf("scenarios_complete_bound_%d", sc.Bound), 1)
			} else {
				sub.AddNote("scenarios_cut_by_deadline", 1)
				sub.Note(fmt.Sprintf("cut:%dfiles/w%d/crash=%v/b%d", len(sc.Build), sc.Workers, sc.Crash, sc.Bound), st.Executions)
			}
		}
		if st.MaxGoroutines < 3 {
			// not an error of anybody: the code may have been restructured so that this scenario
			// has nothing to interleave any more; the evidence says so
			sub.AddNote("scenarios_without_concurrency", 1)
			sub.Incomplete("a scenario never had three goroutines alive at once: nothing to interleave there")
		}
	}, runner.Variant("sched"))
	if sub.Active() {
		scs := schedScenarios(w.Quick())
		for _, sc := range scs {
			if sc.Bound >= 2 {
				sub.DoOwned(sc)
			}
		}
		for _, sc := range scs {
			if sc.Bound < 2 {
				sub.Do(sc)
			}
		}
		sub.Done()
	}
}

func imageKey(im *image) string {
	snap, _ := wh.Snapshot(im.dir)
	var parts []string
	for p, s := range snap {
		parts = append(parts, fmt.Sprintf("%s|%s|%d|%s|%s", p, s.Kind, s.Size, s.Sum, s.Dest))
	}
	sortStrings(parts)
	b, err := os.ReadFile(im.resume)
	res := "absent"
	if err == nil {
		res = string(b)
	}
	return strings.Join(parts, ";") + "#" + res
}

func sortStrings(a []string) {
	for i := 1; i < len(a); i++ {
		for j := i; j > 0 && a[j] < a[j-1]; j-- {
			a[j], a[j-1] = a[j-1], a[j]
		}
	}
}

// sliceDeadline gives one of n remaining scenarios its share of the time left.
func sliceDeadline(global time.Time, n int) time.Time {
	if global.IsZero() {
		return global
	}
	if n < 1 {
		n = 1
	}
	return time.Now().Add(time.Until(global) / time.Duration(n))
}
