package main

import (
	"bytes"
	"fmt"
	"io"
	"os"
	"runtime/debug"
	"strings"
	"sync"
	"time"

	"github.com/itchio/arkive/zip"
	"github.com/itchio/headway/state"
	"github.com/itchio/wharf/archiver"

	"verif/lib/runner"
)

// Seams are the observation points ExtractZip offers without touching its
// source: every ReadAt on the archive, the "extract <path>" / "ln -s" debug
// messages and the OnEntryDone callback (called after the resume file has been
// written for a non-directory entry). Directory entries have no seam of their
// own (no read, no message, OnEntryDone is not called for them).
//
// The hooks are plain callbacks so that a scheduler-controlled variant can
// replace them by scheduling points.
type Seams struct {
	// BeforeRead is called before every ReadAt. entry >= 0 iff this is the read
	// of the local header of that entry (the first thing a worker does for a
	// file or symlink entry, before anything is created on disk). Returning an
	// error makes the read fail.
	BeforeRead func(entry int, off int64, n int) error
	// Message is called for "extract"/"ln -s" debug messages.
	Message func(msg string)
	// EntryDone is called from OnEntryDone with the entry index.
	EntryDone func(entry int)
}

// ZipInfo describes the entries of an archive (read with a private reader).
type ZipInfo struct {
	Names  []string // as stored
	Kinds  []string // d f l
	Header []int64  // offset of each local header
	index  map[string]int
	hdrIdx map[int64]int
}

type offRecorder struct {
	ra   io.ReaderAt
	offs []int64
}

func (r *offRecorder) ReadAt(p []byte, off int64) (int, error) {
	r.offs = append(r.offs, off)
	return r.ra.ReadAt(p, off)
}

// InspectZip lists the entries of the archive and finds every local header
// offset by watching the one read DataOffset() performs.
func InspectZip(archive []byte) (*ZipInfo, error) {
	rec := &offRecorder{ra: bytes.NewReader(archive)}
	zr, err := zip.NewReader(rec, int64(len(archive)))
	if err != nil {
		return nil, err
	}
	zi := &ZipInfo{index: map[string]int{}, hdrIdx: map[int64]int{}}
	for i, f := range zr.File {
		rec.offs = nil
		if _, err := f.DataOffset(); err != nil {
			return nil, err
		}
		if len(rec.offs) != 1 {
			return nil, fmt.Errorf("DataOffset of entry %d did %d reads", i, len(rec.offs))
		}
		kind := "f"
		m := f.FileInfo().Mode()
		switch {
		case f.FileInfo().IsDir():
			kind = "d"
		case m&os.ModeSymlink != 0:
			kind = "l"
		}
		zi.Names = append(zi.Names, f.Name)
		zi.Kinds = append(zi.Kinds, kind)
		zi.Header = append(zi.Header, rec.offs[0])
		zi.index[strings.TrimSuffix(f.Name, "/")] = i
		zi.hdrIdx[rec.offs[0]] = i
	}
	return zi, nil
}

// N is the number of entries.
func (zi *ZipInfo) N() int { return len(zi.Names) }

type hookedReaderAt struct {
	ra io.ReaderAt
	zi *ZipInfo
	s  *Seams
}

const zipLocalHeaderLen = 30

func (h *hookedReaderAt) ReadAt(p []byte, off int64) (int, error) {
	if h.s != nil && h.s.BeforeRead != nil {
		entry := -1
		if len(p) == zipLocalHeaderLen {
			if i, ok := h.zi.hdrIdx[off]; ok {
				entry = i
			}
		}
		if err := h.s.BeforeRead(entry, off, len(p)); err != nil {
			return 0, err
		}
	}
	return h.ra.ReadAt(p, off)
}

// ExtractParams is one call of ExtractZip.
type ExtractParams struct {
	Archive []byte
	Info    *ZipInfo
	Dir     string
	Workers int
	Resume  string // ResumeFrom ("" = none)
	Seams   *Seams
}

// ExtractOutcome is what a call of ExtractZip produced.
type ExtractOutcome struct {
	Res      *archiver.ExtractResult
	Err      error
	Hung     bool
	Panic    string // panic in ExtractZip's own goroutine: message
	PanicAt  string // first wharf function on the stack
	Warnings []string
}

const watchdog = 120 * time.Second

// RunExtractZip calls the real archiver.ExtractZip under a watchdog.
func RunExtractZip(p ExtractParams) ExtractOutcome {
	var out ExtractOutcome
	var mu sync.Mutex
	cons := &state.Consumer{OnMessage: func(level, msg string) {
		if level == "warning" {
			mu.Lock()
			out.Warnings = append(out.Warnings, msg)
			mu.Unlock()
		}
		if p.Seams != nil && p.Seams.Message != nil && level == "debug" &&
			(strings.HasPrefix(msg, "extract ") || strings.HasPrefix(msg, "ln -s ")) {
			p.Seams.Message(msg)
		}
	}}
	settings := archiver.ExtractSettings{Consumer: cons, Concurrency: p.Workers, ResumeFrom: p.Resume}
	if p.Seams != nil && p.Seams.EntryDone != nil {
		settings.OnEntryDone = func(slashPath string) {
			i, ok := p.Info.index[strings.TrimSuffix(slashPath, "/")]
			if !ok {
				i = -1
			}
			p.Seams.EntryDone(i)
		}
	}
	var ra io.ReaderAt = bytes.NewReader(p.Archive)
	if p.Seams != nil {
		ra = &hookedReaderAt{ra: ra, zi: p.Info, s: p.Seams}
	}
	type ret struct {
		res *archiver.ExtractResult
		err error
	}
	ch := make(chan ret, 1)
	var pmsg, psite string
	go func() {
		defer func() {
			if e := recover(); e != nil {
				pmsg, psite = fmt.Sprint(e), runner.PanicSite(string(debug.Stack()))
				ch <- ret{nil, fmt.Errorf("panic: %v", e)}
			}
		}()
		res, err := archiver.ExtractZip(ra, int64(len(p.Archive)), p.Dir, settings)
		ch <- ret{res, err}
	}()
	select {
	case r := <-ch:
		out.Res, out.Err = r.res, r.err
		out.Panic, out.PanicAt = pmsg, psite
	case <-time.After(watchdog):
		out.Hung = true
	}
	return out
}
