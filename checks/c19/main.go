// C19 (sequential / free-running part) — archive then extract gives the same
// tree, for zip (two producers) and tar, every worker count, idempotent
// re-extraction, and resumable zip extraction cut at every entry / every seam
// and restarted with the same resume file. Scenario bodies are in scenarios.go.
package main

import (
	"fmt"
	"os"
	"path/filepath"
	"time"

	"verif/lib/runner"
	"verif/lib/wh"
)

var workerCounts = []int{1, 2, 3, 4, 8, 16, -1}

func main() {
	runner.Main(runner.Config{
		ID:    "C19",
		Level: "model_checking",
		Rule:  "(variant sched) stateless model checking of the real ExtractZip under a controlled scheduler with its file-system calls visible: every interleaving of dispatcher and workers up to a preemption bound (happens-before cached DFS), and a crasher goroutine that makes every scheduling instant a crash point (directory + resume file snapshot, everything killed, ExtractZip re-run on the image with the same resume file); plus bounded exhaustive enumeration, free-running goroutines: (roundtrip) 12 catalogue trees (nested/empty dirs, empty files, relative/dangling/absolute symlinks, 60 small files flat and nested, 300KiB file first, block-boundary sizes) + all 180 trees over {a,b in absent/empty file/file/dir/symlink/dangling symlink} x {d in absent/empty dir/dir+file/dir+dir/dir+symlink} x producers {archiver.CompressZip, containerarchiver.CompressZip, archiver.CompressTar} x workers {1,2,3,4,8,16,-1} x ResumeFrom {unset,set}: extract into an empty dir, independent Lstat tree comparison, ExtractResult == entries per kind, extract again over the result; (resume-sequential) 1 worker, crash image (directory copy + resume file) taken after every entry and at every seam event (every archive ReadAt, extract/ln message, OnEntryDone: includes partially written files), ExtractZip re-run on the image with the same resume file; (resume-out-of-order) W in {2,3} workers, W-1 chosen entries held at their header read while one worker extracts the rest, crash image when a later entry completes, re-run on the image; (resume-after-error) header read of entry k fails, ExtractZip re-run with the same ResumeFrom. Non-trivial = tree with >=2 entries incl. a non-empty file (roundtrip); restart that both skips and extracts entries or meets a partial file (resume).",
		Assumptions: []string{
			"goroutines of ExtractZip run free (Go scheduler) except where a seam callback blocks them; the schedule dimension proper is the E2 part of C19",
			"a crash is modelled as: directory and resume file exactly as they are at a seam while every worker is blocked in a harness callback; directory entries have no seam, their after-entry state is rebuilt with the real archiver.Mkdir and cross-checked at the next seam",
			"file modes and timestamps are not compared; names are ASCII",
		},
		Variants:       []string{"sched"},
		QuickBudget:    90 * time.Second,
		ThoroughBudget: 15 * time.Minute,
	}, body)
}

func record(o Out, r *runner.Rec) {
	for _, f := range o.Fails {
		r.Failf(f.FP, "%s", f.Msg)
	}
	if o.Nontrivial {
		r.Nontrivial()
	}
	if o.Class != "" {
		r.Outcome(o.Class)
	}
	r.Trans(o.Trans)
}

var schedSubs func(w *runner.W)

func body(w *runner.W) {
	if schedSubs != nil && w.Variant == "sched" {
		schedSubs(w)
		return
	}
	// the pid keeps a worker restarted after a crash away from the leftovers of its predecessor
	env := NewEnv(filepath.Join(w.Scratch(), fmt.Sprintf("c19-%d", os.Getpid())), w.Seed)
	cat := Catalogue()
	shapes := Shapes()
	zipProducers := []string{"zip", "czip"}

	// ---------------- round trip ----------------
	rt := runner.NewSub(w, "roundtrip", func(c RTCase, r *runner.Rec) { record(RoundTrip(env, c), r) }, runner.Journal())
	if rt.Active() {
		for _, t := range cat {
			for _, p := range zipProducers {
				for _, wk := range workerCounts {
					for _, res := range []bool{false, true} {
						rt.Do(RTCase{Tree: t.Name, Build: t.Build, Producer: p, Workers: wk, Resume: res})
					}
				}
			}
			rt.Do(RTCase{Tree: t.Name, Build: t.Build, Producer: "tar"})
		}
		for si, t := range shapes {
			for _, p := range zipProducers {
				for wi, wk := range workerCounts {
					rt.Do(RTCase{Tree: t.Name, Build: t.Build, Producer: p, Workers: wk, Resume: (si+wi)%2 == 0})
					rt.Do(RTCase{Tree: t.Name, Build: t.Build, Producer: p, Workers: wk, Resume: (si+wi)%2 != 0})
				}
			}
			rt.Do(RTCase{Tree: t.Name, Build: t.Build, Producer: "tar"})
		}
		if !w.Quick() {
			// thorough only: 2000 empty directories, so that with 16 workers the three
			// unsynchronised counters of ExtractZip are incremented ~2000 times concurrently
			var many wh.Build
			for i := 0; i < 2000; i++ {
				many = append(many, wh.D(fmt.Sprintf("d%04d", i)))
			}
			for _, wk := range []int{1, 2, 16, -1} {
				rt.Do(RTCase{Tree: "2000-empty-dirs", Build: many, Producer: "zip", Workers: wk})
			}
		}
		rt.Note("catalogue_trees", len(cat))
		rt.Note("shape_trees", len(shapes))
		rt.Done()
	}

	// trees used by the resume sub-checks: the catalogue and all shapes
	var rtrees []NamedTree
	rtrees = append(rtrees, cat...)
	rtrees = append(rtrees, shapes...)
	restarts := []int{1}
	if !w.Quick() {
		restarts = []int{1, 2, 3, -1}
	}

	// ---------------- sequential crash + resume ----------------
	rs := runner.NewSub(w, "resume-sequential", func(c ResumeCase, r *runner.Rec) { record(ResumeSequential(env, c), r) }, runner.Journal())
	if rs.Active() {
		maxEv := 0
		for _, t := range rtrees {
			for _, p := range zipProducers {
				if w.Expired() {
					break
				}
				ev, n, err := CountEvents(env, t.Build, p)
				if err != nil {
					rs.Report(ResumeCase{Tree: t.Name, Build: t.Build, Producer: p}, "harness:count-events", "%v", err)
					continue
				}
				if ev > maxEv {
					maxEv = ev
				}
				for _, rw := range restarts {
					for i := 0; i < n; i++ {
						rs.Do(ResumeCase{Tree: t.Name, Build: t.Build, Producer: p, Kind: "after", N: i, RestartWorkers: rw})
					}
					for e := 0; e < ev; e++ {
						if rw != 1 && len(t.Build) >= 40 && e%4 != 0 {
							continue // big trees: every event with 1 restart worker, every 4th with the others
						}
						rs.Do(ResumeCase{Tree: t.Name, Build: t.Build, Producer: p, Kind: "event", N: e, RestartWorkers: rw})
					}
				}
			}
		}
		rs.Note("trees", len(rtrees))
		rs.Note("max_events_per_run", maxEv)
		rs.Done()
	}

	// ---------------- out-of-order finish + crash + resume ----------------
	oo := runner.NewSub(w, "resume-out-of-order", func(c OOOCase, r *runner.Rec) { record(ResumeOutOfOrder(env, c), r) }, runner.Journal())
	if oo.Active() {
		for ti, t := range rtrees {
			if w.Expired() {
				break
			}
			p := zipProducers[ti%2]
			src, err := env.source(t.Build)
			if err != nil {
				continue
			}
			arch, err := env.archive(src, p)
			if err != nil {
				continue // reported by roundtrip
			}
			nd := sortedNonDirs(arch.Info)
			big := len(nd) >= 40
			for a, j := range nd {
				for b := a + 1; b < len(nd); b++ {
					if big && w.Quick() && b != a+1 && b != a+2 && b != len(nd)-1 {
						continue
					}
					rw := restarts[(a+b)%len(restarts)]
					oo.Do(OOOCase{Tree: t.Name, Build: t.Build, Producer: p, Held: []int{j}, After: nd[b], RestartWorkers: rw})
				}
			}
			if len(nd) <= 12 { // three workers, two held
				for a := 0; a < len(nd); a++ {
					for b := a + 1; b < len(nd); b++ {
						for c := b + 1; c < len(nd); c++ {
							oo.Do(OOOCase{Tree: t.Name, Build: t.Build, Producer: p, Held: []int{nd[a], nd[b]}, After: nd[c], RestartWorkers: restarts[(a+c)%len(restarts)]})
						}
					}
				}
			}
		}
		oo.Done()
	}

	// ---------------- interruption by a read error ----------------
	ae := runner.NewSub(w, "resume-after-error", func(c ErrCase, r *runner.Rec) { record(ResumeAfterError(env, c), r) }, runner.Journal())
	if ae.Active() {
		for _, t := range rtrees {
			for _, p := range zipProducers {
				if w.Expired() {
					break
				}
				src, err := env.source(t.Build)
				if err != nil {
					continue
				}
				arch, err := env.archive(src, p)
				if err != nil {
					continue
				}
				for _, k := range sortedNonDirs(arch.Info) {
					ae.Do(ErrCase{Tree: t.Name, Build: t.Build, Producer: p, FailAt: k})
				}
			}
		}
		ae.Done()
	}
}
