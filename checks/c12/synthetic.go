package main

import (
	"bytes"
	"fmt"
	"runtime/debug"

	"github.com/itchio/wharf/bsdiff"

	"verif/lib/runner"
)

// SeriesCase is one hand-made valid control series applied to a fixed old file
// of OldLen distinct bytes: message i adds Msgs[i][0] bytes at the current old
// offset, copies one literal byte, then seeks to absolute old offset Msgs[i][1].
type SeriesCase struct {
	OldLen int      `json:"old_len"`
	Msgs   [][2]int `json:"msgs"`
}

func synthOld(n int) []byte {
	b := make([]byte, n)
	for i := range b {
		b[i] = byte(10 * (i + 1))
	}
	return b
}

var synthAddLens = []int{0, 1, 2, 3, 5}

// applySeries runs the series through the real IndividualPatchContext and
// compares with the reference semantics. Returns fingerprint, message.
func applySeries(pc *bsdiff.PatchContext, old []byte, msgs [][2]int, out, want *bytes.Buffer) (fp, msg string) {
	defer func() {
		if e := recover(); e != nil {
			fp = "panic:" + runner.PanicSite(string(debug.Stack()))
			msg = fmt.Sprintf("panic: %v", e)
		}
	}()
	out.Reset()
	want.Reset()
	ipc, err := pc.NewIndividualPatchContext(bytes.NewReader(old), 0, out)
	if err != nil {
		return "synthetic-apply-error", err.Error()
	}
	off := 0
	var add [8]byte
	for i, m := range msgs {
		for j := 0; j < m[0]; j++ {
			add[j] = byte(j + 1)
			want.WriteByte(old[off+j] + byte(j+1))
		}
		cp := []byte{byte(0xC0 + i)}
		want.Write(cp)
		if err := ipc.Apply(&bsdiff.Control{Add: add[:m[0]], Copy: cp, Seek: int64(m[1] - (off + m[0]))}); err != nil {
			return "synthetic-apply-error", fmt.Sprintf("Apply of message %d (add %d bytes at old offset %d): %v", i, m[0], off, err)
		}
		off = m[1]
		if ipc.OldOffset != int64(off) {
			return "synthetic-oldoffset", fmt.Sprintf("after message %d OldOffset is %d, want %d", i, ipc.OldOffset, off)
		}
	}
	if !bytes.Equal(out.Bytes(), want.Bytes()) {
		return "synthetic-wrong-output", fmt.Sprintf("output %v, reading the old file directly gives %v", out.Bytes(), want.Bytes())
	}
	return "", ""
}

// enumSeries enumerates every valid series of 1..depth messages (the last
// message of a series seeks nowhere) and applies each one. Sharded on the first
// message.
func enumSeries(w *runner.W, sub *runner.Sub[SeriesCase], oldLen, depth, chunk, entries int) {
	old := synthOld(oldLen)
	pc := bsdiff.NewPatchContext()
	var out, want bytes.Buffer
	var evals, nontriv, trans int64
	ord := 0
	classes := map[[3]int]int{}
	msgs := make([][2]int, 0, depth)
	var rec func(off int, mine bool)
	rec = func(off int, mine bool) {
		for _, al := range synthAddLens {
			if off+al > oldLen {
				continue
			}
			// the series ending with this message
			own := mine
			if len(msgs) == 0 {
				own = w.Owns(ord)
				ord++
			}
			if own && !w.Expired() {
				msgs = append(msgs, [2]int{al, off + al})
				fp, m := applySeries(pc, old, msgs, &out, &want)
				evals++
				trans += int64(len(msgs))
				ev, back := seriesShape(msgs, chunk, entries)
				if ev && back {
					nontriv++
				}
				classes[[3]int{len(msgs), b2i(ev), b2i(back)}]++
				if fp != "" {
					sub.Report(SeriesCase{OldLen: oldLen, Msgs: append([][2]int(nil), msgs...)}, fp, "%s", m)
				}
				msgs = msgs[:len(msgs)-1]
			}
			if len(msgs)+1 >= depth {
				continue
			}
			// longer series: this message seeks to every valid old offset
			for t := 0; t <= oldLen; t++ {
				own := mine
				if len(msgs) == 0 {
					own = w.Owns(ord)
					ord++
				}
				if !own || w.Expired() {
					continue
				}
				msgs = append(msgs, [2]int{al, t})
				rec(t, true)
				msgs = msgs[:len(msgs)-1]
			}
		}
	}
	rec(0, false)
	sub.Bulk(evals, nontriv, trans)
	for k, n := range classes {
		sub.BulkOutcome(fmt.Sprintf("msgs=%d more-chunks-than-entries=%v rereads-earlier-offset=%v", k[0], k[1] == 1, k[2] == 1), n)
	}
}

func b2i(b bool) int {
	if b {
		return 1
	}
	return 0
}

// seriesShape: does the series read more distinct chunks than the cache holds,
// and does some add start below the end of an earlier add (a re-read)?
func seriesShape(msgs [][2]int, chunk, entries int) (evicting, backward bool) {
	seen := map[int]bool{}
	off, hi := 0, 0
	for _, m := range msgs {
		if m[0] > 0 {
			if off < hi {
				backward = true
			}
			for p := off; p < off+m[0]; p++ {
				seen[p/chunk] = true
			}
			if off+m[0] > hi {
				hi = off + m[0]
			}
		}
		off = m[1]
	}
	return len(seen) > entries, backward
}
