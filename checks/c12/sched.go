//go:build vsched

package main

// Scheduler-controlled part of C12: bsdiff.Do (suffix-sort goroutines, scan
// workers, dispatcher, collector) under the controlled scheduler. In every
// interleaving the control messages must end with Eof, apply to old giving
// exactly new (reference applier), and be identical to the default schedule's.

import (
	"bytes"
	"fmt"
	"os"

	"github.com/golang/protobuf/proto"
	"github.com/itchio/wharf/bsdiff"
	"github.com/itchio/wharf/zzverif/vsched"

	"verif/lib/runner"
	"verif/lib/wh"
)

func init() { schedSubs = schedBody }

type SchedCase struct {
	Old        string `json:"old"`
	New        string `json:"new"`
	Partitions int    `json:"partitions"`
	Conc       int    `json:"conc"`
	Cap        int    `json:"cap,omitempty"` // capacity replacing the scanner's 256-slot channels
	Bound      int    `json:"bound"`
	Schedule   []int  `json:"schedule,omitempty"`
}

func schedBody(w *runner.W) {
	var sub *runner.Sub[SchedCase]
	sub = runner.NewSub(w, "scanner-interleavings", func(sc SchedCase, r *runner.Rec) {
		vsched.SetCapOverride(sc.Cap)
		defer vsched.SetCapOverride(0)
		var ctrls []*bsdiff.Control
		var derr error
		bodyFn := func() {
			ctrls, derr = nil, nil
			bdc := &bsdiff.DiffContext{Partitions: sc.Partitions, SuffixSortConcurrency: sc.Conc}
			derr = bdc.Do(bytes.NewReader([]byte(sc.Old)), bytes.NewReader([]byte(sc.New)), func(m proto.Message) error {
				c := proto.Clone(m).(*bsdiff.Control)
				ctrls = append(ctrls, c)
				return nil
			}, wh.Quiet())
		}
		render := func() string {
			var sb bytes.Buffer
			for _, c := range ctrls {
				fmt.Fprintf(&sb, "[%x|%x|%d|%v]", c.Add, c.Copy, c.Seek, c.Eof)
			}
			return sb.String()
		}
		apply := func() (string, error) {
			old := []byte(sc.Old)
			var out []byte
			pos := int64(0)
			sawEof := false
			for i, c := range ctrls {
				if sawEof {
					return "", fmt.Errorf("message %d after Eof", i)
				}
				if c.Eof {
					sawEof = true
					continue
				}
				if pos < 0 || pos+int64(len(c.Add)) > int64(len(old)) {
					return "", fmt.Errorf("message %d adds %d bytes at old offset %d (old has %d)", i, len(c.Add), pos, len(old))
				}
				for j, a := range c.Add {
					out = append(out, a+old[pos+int64(j)])
				}
				pos += int64(len(c.Add))
				out = append(out, c.Copy...)
				pos += c.Seek
			}
			if !sawEof {
				return "", fmt.Errorf("no Eof message")
			}
			return string(out), nil
		}
		opts := vsched.Options{PreemptionBound: sc.Bound, StepBudget: 100000}
		ref := vsched.RunOnce(opts, nil, bodyFn)
		if ref.Kind != "done" || derr != nil {
			r.Failf("default-schedule:"+ref.Kind, "default schedule: %s %s err=%v", ref.Kind, ref.Detail, derr)
			return
		}
		want := render()
		judge := func(out vsched.Result) (string, string) {
			switch out.Kind {
			case "done":
			case "deadlock":
				return "deadlock:scanner", "bsdiff.Do never returns: [" + out.Detail + "]"
			case "step-budget":
				return "livelock", out.Detail
			case "panic":
				return "panic:" + runner.PanicSite(out.Detail), out.Detail
			default:
				return "harness:" + out.Kind, out.Detail
			}
			if derr != nil {
				return "diff-error:sched", derr.Error()
			}
			got, err := apply()
			if err != nil {
				return "series-malformed:sched", err.Error()
			}
			if got != sc.New {
				return "apply-mismatch:sched", fmt.Sprintf("applying the series to old gives %q, want %q", got, sc.New)
			}
			if render() != want {
				return "schedule-dependent-series", fmt.Sprintf("series %s differs from the default schedule's %s", render(), want)
			}
			return "", ""
		}
		if sc.Schedule != nil {
			out := vsched.RunOnce(opts, sc.Schedule, bodyFn)
			if fp, msg := judge(out); fp != "" {
				r.Failf(fp, "%s", msg)
			}
			return
		}
		opts.Deadline = w.Deadline()
		split := sc.Bound >= 2
		if split {
			opts.ShardIdx, opts.ShardN = w.Index(), w.N()
		}
		reported := map[string]bool{}
		st := vsched.Explore(opts, bodyFn, func(out vsched.Result) bool {
			fp, msg := judge(out)
			if fp != "" && !reported[fp] {
				reported[fp] = true
				again := vsched.RunOnce(vsched.Options{PreemptionBound: sc.Bound, StepBudget: 100000}, out.Choices, bodyFn)
				if fp2, _ := judge(again); fp2 != fp {
					r.Failf("harness:nondeterministic-replay", "schedule %v gave %q then %q", out.Choices, fp, fp2)
					return false
				}
				cc := sc
				cc.Schedule = append([]int{}, out.Choices...)
				sub.Report(cc, fp, "%s; schedule=%v", msg, out.Choices)
			}
			return true
		})
		if os.Getenv("VERIF_DEBUG") != "" {
			fmt.Fprintf(os.Stderr, "scenario %+v: %+v\n", sc, st)
		}
		if st.HarnessError != "" {
			r.Failf("harness:explore", "%s", st.HarnessError)
		}
		sub.Count(int64(st.Executions), int64(st.States), int64(st.Transitions))
		first := !split || w.Index() == 0
		if first && st.MaxGoroutines >= 4 {
			r.Nontrivial()
		}
		r.Outcome(fmt.Sprintf("p=%d conc=%d maxg=%d", sc.Partitions, sc.Conc, st.MaxGoroutines))
		sub.AddNote("executions", st.Executions)
		sub.AddNote("pruned_by_hb_cache", st.Pruned)
		sub.MaxNote("max_goroutines", st.MaxGoroutines)
		sub.MaxNote("max_preemptions_used", st.MaxPreempts)
		if first {
			if st.Complete {
				sub.AddNote(fmt.Sprintf("scenarios_complete_bound_%d", sc.Bound), 1)
			} else {
				sub.AddNote("scenarios_cut_by_deadline", 1)
			}
		}
	}, runner.Variant("sched"))
	if sub.Active() {
		bq := func(q, t int) int {
			if w.Quick() {
				return q
			}
			return t
		}
		scs := []SchedCase{
			{Old: "abcabcabc", New: "abcabd", Partitions: 2, Bound: bq(1, 2)},
			{Old: "aaaaaaaa", New: "aaabaaa", Partitions: 2, Bound: bq(1, 2)},
			{Old: "0110100110", New: "011011", Partitions: 2, Bound: bq(1, 2)},
			{Old: "abcdefgh", New: "abx", Partitions: 3, Bound: bq(0, 1)},
			{Old: "abcdefgh", New: "abcdefgh", Partitions: 2, Bound: bq(1, 2)},
			{Old: "xyzxyz", New: "xyzxy", Partitions: 2, Conc: 2, Bound: bq(1, 1)},
			// match channels scaled to 1-2 slots, one block yielding several matches
			{Old: "abcdefghijklmnopqrstuvwx0123456789yz", New: "0123456789yz--abcdefghijkl++mnopqrstuvwx", Partitions: 0, Cap: 1, Bound: bq(2, 3)},
			{Old: "abcdefghijklmnopqrstuvwx0123456789yz", New: "0123456789yz--abcdefghijkl++mnopqrstuvwx", Partitions: 0, Cap: 2, Bound: bq(2, 3)},
			{Old: "abcdefghijklmnopqrstuvwx0123456789yzABCDEFGHIJKL", New: "0123456789yz--abcdefghijkl++mnopqrstuvwx==ABCDEFGHIJKL..0123456789yz", Partitions: 2, Cap: 1, Bound: bq(1, 2)},
		}
		if !w.Quick() {
			scs = append(scs, SchedCase{Old: "abcdefghij", New: "abcx", Partitions: 4, Bound: 0})
		}
		for _, sc := range scs {
			if sc.Bound >= 2 {
				sub.DoOwned(sc)
			}
		}
		for _, sc := range scs {
			if sc.Bound < 2 {
				sub.Do(sc)
			}
		}
		sub.Done()
	}
}
