// C12 — a bsdiff series applied to the old file yields the new file; the read
// cache of the applier never changes what is read.
//
// Sequential (engine E1) parts: exhaustive small-scope enumeration of the real
// differ + the real applier + a reference applier + the mid-series restart
// oracle; a structured large family; an explicit-state breadth-first search over
// the real lrufile object against a shadow model.
package main

import (
	"bytes"
	"fmt"
	"time"

	"github.com/itchio/wharf/bsdiff"

	"verif/lib/runner"
)

func main() {
	runner.Main(runner.Config{
		ID:    "C12",
		Level: "model_checking",
		Rule:  "differ/applier: every (old,new) over {0,1} with lengths 0..8 (quick: 0..6) x Partitions 0..16 and over {0,1,2} with lengths 0..5 (quick: 0..4) x Partitions {0,1,2,3,5,16}, SuffixSortConcurrency cycling over {0,1,-1} and fresh/reused DiffContext alternating with the case ordinal, run through the real DiffContext.Do; oracle per run: no panic/crash, Do returns nil, exactly one Eof message and it is last, sum(len add+len copy)=len(new), a reference applier and the real PatchContext.Patch both yield new, and for every message index i a fresh IndividualPatchContext started at the OldOffset saved after i messages yields the same remainder. The region old=\"\" x new!=\"\" of the same space is enumerated by the sub-check empty-old in groups (one group = one journaled case) because every member kills the process on the unrepaired tree. Medium scope: the first 32/48/64/96 symbols of the Thue-Morse word, the Fibonacci word and an LFSR sequence against every rotation, every deletion/duplication of a segment of 1,2,5,9,17 symbols at every third position, single flips, self-concatenations and the other two words (matches whose forward and backward extensions overlap). Structured large family: old in {period 1,3,256, pseudo-random} x size {64,4096,128KiB-1,128KiB+1,300KiB,2MiB} x new in {same,prefix,suffix,every k-th byte changed,block moved,unrelated,empty,longer} x Partitions {0,1,2,7,16} (restart oracle at all indices for series of <=24 messages, else at {0,1,2,n/4,n/2,3n/4,n-2,n-1,n}). Scaled-cache variants (overlay builds with only lruChunkSize/lruNumEntries of NewIndividualPatchContext changed to chunk x entries = 1x2, 2x3, 3x2, 4x1; geometry verified at run time through a recording reader): every (old,new) over {0,1} with lengths 0..6 (quick: 0..5) x Partitions {0,2,3} and the 64/4096-byte members of the large family through the same oracles, so that the real applier reads through a cache that evicts constantly; plus every valid hand-made series of 1..5 (quick: 1..4) messages with add lengths {0,1,2,3,5}, a one-byte copy and every seek target over a 9-byte old file of distinct bytes, applied with the real IndividualPatchContext and compared with direct reads of the old file. Read cache: explicit-state BFS to fixpoint over the real lrufile for chunk 1..4 x entries 1..3 x file size 0..9 (quick: 0..6) x underlying reader {bytes.Reader, *os.File}; operations Seek(o,Start) o=-1..size+1, Seek(+-1,Current), Seek(-o,End), Read(n) n in {1,chunk-1,chunk,chunk+1,2chunk+1}, Reset(other file); states are shadow states (file, offset, LRU-ordered resident chunks with slots), every successor is produced by replaying the shortest path on a fresh lrufile plus one operation and comparing data, count, error, position and Stats() with the model. Non-trivial: differ case = some series has both a non-empty Add and a non-empty Copy; hand-made series = its adds read more distinct chunks than the cache holds and one add starts below the end of an earlier one; cache geometry = the search contains an eviction, a read spanning chunks and a hit.",
		Assumptions: []string{
			"byte values outside the small alphabets only occur in the large family (seeded pseudo-random streams and periodic patterns)",
			"goroutine interleavings of the scanner are not controlled here (free-running); the schedule dimension belongs to the E2 part of C12",
			"Do not returning within 120 s (small) / 900 s (large) is reported as non-termination",
			"underlying readers of the cache fill the buffer except at end of file (bytes.Reader, *os.File); short-reading readers are outside the property",
			"the offset left behind by a rejected (out of range) Seek is not specified by the property: the model adopts the implementation's value",
			"the search de-duplicates on the shadow state: stale bytes left in the cache storage by earlier loads are not part of the state identity",
		},
		Variants:       []string{"c1e2", "c2e3", "c3e2", "c4e1", "sched"},
		QuickBudget:    90 * time.Second,
		ThoroughBudget: 15 * time.Minute,
	}, body)
}

// strs enumerates all strings over alphabet size k with length in [minLen,maxLen].
func strs(k, minLen, maxLen int) []string {
	var out []string
	prev := []string{""}
	if minLen == 0 {
		out = append(out, "")
	}
	for l := 1; l <= maxLen; l++ {
		var cur []string
		for _, p := range prev {
			for a := 0; a < k; a++ {
				cur = append(cur, p+string(rune('0'+a)))
			}
		}
		if l >= minLen {
			out = append(out, cur...)
		}
		prev = cur
	}
	return out
}

func seq(a, b int) []int {
	var out []int
	for i := a; i <= b; i++ {
		out = append(out, i)
	}
	return out
}

var schedSubs func(w *runner.W)

func body(w *runner.W) {
	if w.Variant == "sched" {
		if schedSubs != nil {
			schedSubs(w)
		}
		return
	}
	var ap *applier
	getAp := func() *applier {
		if ap == nil {
			ap = newApplier()
		}
		return ap
	}
	binMax, terMax := 8, 5
	if w.Quick() {
		binMax, terMax = 6, 4
	}
	binParts := seq(0, 16)
	terParts := []int{0, 1, 2, 3, 5, 16}
	concs := []int{0, 1, -1}

	// ---- old = "" (every member crashes the process on the unrepaired tree) ----
	var emptyOld *runner.Sub[DiffCase]
	emptyOld = runner.NewSub(w, "empty-old", func(c DiffCase, r *runner.Rec) {
		runDiffCase(w, getAp(), c, r)
		emptyOld.Bulk(int64(len(c.News)*len(c.Parts)-1), 0, 0)
	}, runner.Journal())
	if emptyOld.Active() {
		// minimal members first, one run each
		emptyOld.Do(DiffCase{Alpha: 2, Old: "", News: []string{"0"}, Parts: []int{0}})
		emptyOld.Do(DiffCase{Alpha: 2, Old: "", News: []string{"0"}, Parts: []int{2}})
		emptyOld.Do(DiffCase{Alpha: 2, Old: "", News: []string{"01"}, Parts: []int{1}, Conc: 1})
		n := 0
		for l := 1; l <= binMax; l++ {
			all := strs(2, l, l)
			half := len(all) / 2
			emptyOld.Do(DiffCase{Alpha: 2, Old: "", News: all[:half], Parts: binParts, Conc: concs[n%3], Warm: n%2 == 1})
			n++
			emptyOld.Do(DiffCase{Alpha: 2, Old: "", News: all[half:], Parts: binParts, Conc: concs[n%3], Warm: n%2 == 1})
			n++
		}
		for l := 1; l <= terMax; l++ {
			emptyOld.Do(DiffCase{Alpha: 3, Old: "", News: strs(3, l, l), Parts: terParts, Conc: concs[n%3], Warm: n%2 == 1})
			n++
		}
		emptyOld.Done()
	}

	// ---- exhaustive small scope ----------------------------------------
	var small *runner.Sub[DiffCase]
	small = runner.NewSub(w, "small", func(c DiffCase, r *runner.Rec) {
		runDiffCase(w, getAp(), c, r)
		small.Bulk(int64(len(c.News)*len(c.Parts)-1), 0, 0)
	}, runner.Journal())
	if small.Active() {
		n := 0
		for _, fam := range []struct {
			alpha, max int
			parts      []int
		}{{2, binMax, binParts}, {3, terMax, terParts}} {
			all := strs(fam.alpha, 0, fam.max)
			for _, o := range all {
				for _, nw := range all {
					if o == "" && nw != "" {
						continue // sub-check empty-old
					}
					if fam.alpha == 3 && !hasSym2(o) && !hasSym2(nw) {
						continue // already enumerated over {0,1} with a superset of the partitions
					}
					small.Do(DiffCase{Alpha: fam.alpha, Old: o, News: []string{nw}, Parts: fam.parts, Conc: concs[n%3], Warm: n%2 == 1})
					n++
				}
			}
		}
		small.Done()
	}

	// ---- medium scope: self-similar low-alphabet sequences ----------------
	// Old = the first L symbols of the Thue-Morse word, the Fibonacci word or a 7-bit
	// LFSR sequence (L in {32,48,64,96}); new = every rotation, every deletion and every
	// duplication of a segment of 1, 2, 5, 9 or 17 symbols at every third position, every
	// single flip at every third position, old followed by each of its suffixes (every
	// fourth), and the same-length prefix of the two other sequences. Matches found by the
	// scanner then overlap forwards and backwards, which inputs of <= 8 symbols (too short
	// for a match) and high-entropy large inputs (no ambiguity) never produce.
	var medium *runner.Sub[DiffCase]
	medium = runner.NewSub(w, "medium", func(c DiffCase, r *runner.Rec) {
		runDiffCase(w, getAp(), c, r)
		medium.Bulk(int64(len(c.News)*len(c.Parts)-1), 0, 0)
	}, runner.Journal())
	if medium.Active() {
		seqs := mediumSeqs(96)
		lens := []int{32, 48, 64, 96}
		parts := []int{0, 1, 2, 3, 7}
		if w.Quick() {
			lens = []int{32, 64}
			parts = []int{0, 2}
		}
		n := 0
		for si, full := range seqs {
			for _, L := range lens {
				o := full[:L]
				var news []string
				for k := 1; k < L; k++ {
					news = append(news, o[k:]+o[:k])
				}
				for i := 0; i < L; i += 3 {
					for _, l := range []int{1, 2, 5, 9, 17} {
						if i+l <= L {
							news = append(news, o[:i]+o[i+l:], o[:i+l]+o[i:])
						}
					}
					news = append(news, o[:i]+string('0'+('1'-o[i]))+o[i+1:])
				}
				for k := 0; k < L; k += 4 {
					news = append(news, o+o[k:])
				}
				for sj, other := range seqs {
					if sj != si {
						news = append(news, other[:L])
					}
				}
				// a handful of new strings per case so that the journal stays small
				for lo := 0; lo < len(news); lo += 16 {
					hi := lo + 16
					if hi > len(news) {
						hi = len(news)
					}
					medium.Do(DiffCase{Alpha: 2, Old: o, News: news[lo:hi], Parts: parts, Conc: concs[n%3], Warm: n%4 == 3})
					n++
				}
			}
		}
		medium.Done()
	}

	// ---- structured large family ---------------------------------------
	var large *runner.Sub[DiffCase]
	large = runner.NewSub(w, "large", func(c DiffCase, r *runner.Rec) {
		runDiffCase(w, getAp(), c, r)
	}, runner.Journal())
	if large.Active() {
		const K = 1024
		sizes := []int{64, 4096, 128*K - 1, 128*K + 1, 300 * K, 2 * K * K}
		n := 0
		for _, size := range sizes {
			for _, ok := range []string{"p1", "p3", "p256", "rand"} {
				for _, nk := range []string{"same", "prefix", "suffix", "kth", "moved", "unrelated", "empty", "longer"} {
					for _, p := range []int{0, 1, 2, 7, 16} {
						n++
						if w.Quick() {
							// quick: every (old kind, new kind) at every size up to 300KiB under two
							// partition settings chosen round-robin; at 2MiB a slice that has more
							// blocks than workers
							if size == 2*K*K {
								if !((ok == "rand" || ok == "p3") && (nk == "kth" || nk == "moved" || nk == "longer") && (p == 1 || p == 2)) {
									continue
								}
							} else if size >= 128*K-1 && (n%5 != 0 && n%5 != 2) {
								continue
							}
						}
						large.Do(DiffCase{Parts: []int{p}, Conc: concs[n%3], Warm: n%4 == 1 && size <= 300*K, Large: &LargeGen{OldKind: ok, Size: size, NewKind: nk}})
					}
				}
			}
		}
		// many matches per 128KiB scan block (insertions / scrambled pieces), high-entropy old
		for _, size := range []int{300 * K, 1100 * K} {
			for _, nk := range []string{"inserts", "shuffled"} {
				for _, p := range []int{0, 2, 7} {
					if w.Quick() && size > 300*K && p != 2 {
						continue
					}
					n++
					large.Do(DiffCase{Parts: []int{p}, Conc: concs[n%3], Large: &LargeGen{OldKind: "rand", Size: size, NewKind: nk}})
				}
			}
		}
		large.Done()
	}

	// ---- the real applier over a scaled read cache (overlay builds) --------
	// In the plain build the cache holds 1024 chunks of 32KiB, so nothing is ever
	// evicted below 32MiB of old file. These binaries rebuild bsdiff with only the
	// two geometry constants of NewIndividualPatchContext changed, so that every
	// series of the small scope is applied through a cache that evicts constantly.
	for _, v := range []struct {
		name           string
		chunk, entries int
	}{{"c1e2", 1, 2}, {"c2e3", 2, 3}, {"c3e2", 3, 2}, {"c4e1", 4, 1}} {
		// hand-made series: every valid sequence of up to 5 (quick: 4) messages with
		// add lengths {0,1,2,3,5} and every seek target over a 9-byte old file
		syn := runner.NewSub(w, "scaled-cache-series-"+v.name, func(c SeriesCase, r *runner.Rec) {
			var out, want bytes.Buffer
			if fp, msg := applySeries(bsdiff.NewPatchContext(), synthOld(c.OldLen), c.Msgs, &out, &want); fp != "" {
				r.Failf(fp, "%s", msg)
			}
		}, runner.Variant(v.name))
		if syn.Active() {
			if ch, en := probeCacheGeometry(); ch != v.chunk || en != v.entries {
				syn.Skip(fmt.Sprintf("the applier's cache behaves like chunk=%d entries=%d in this build, expected %d/%d", ch, en, v.chunk, v.entries))
			} else {
				depth := 5
				if w.Quick() {
					depth = 4
				}
				enumSeries(w, syn, 9, depth, v.chunk, v.entries)
				syn.Sample(SeriesCase{OldLen: 9, Msgs: [][2]int{{3, 1}, {2, 7}, {2, 0}, {5, 5}}})
				syn.Note("depth", depth)
				syn.Done()
			}
		}

		var sc *runner.Sub[DiffCase]
		sc = runner.NewSub(w, "scaled-cache-"+v.name, func(c DiffCase, r *runner.Rec) {
			runDiffCase(w, getAp(), c, r)
			if c.Large == nil {
				sc.Bulk(int64(len(c.News)*len(c.Parts)-1), 0, 0)
			}
		}, runner.Variant(v.name), runner.Journal())
		if !sc.Active() {
			continue
		}
		if ch, en := probeCacheGeometry(); ch != v.chunk || en != v.entries {
			sc.Skip(fmt.Sprintf("the applier's cache behaves like chunk=%d entries=%d in this build, expected %d/%d", ch, en, v.chunk, v.entries))
			continue
		}
		max := 6
		if w.Quick() {
			max = 5
		}
		all := strs(2, 0, max)
		n := 0
		for _, o := range all {
			for _, nw := range all {
				if o == "" && nw != "" {
					continue // sub-check empty-old
				}
				var parts []int
				for _, p := range []int{0, 2, 3} {
					if len(nw) > 0 && len(nw) < p && p < len(o)-1 {
						continue // divide-by-zero region, enumerated (and reported) by sub-check small
					}
					parts = append(parts, p)
				}
				sc.Do(DiffCase{Alpha: 2, Old: o, News: []string{nw}, Parts: parts, Conc: concs[n%3], Warm: n%2 == 1})
				n++
			}
		}
		for _, size := range []int{64, 4096} {
			for _, ok := range []string{"p1", "p3", "p256", "rand"} {
				for _, nk := range []string{"same", "prefix", "suffix", "kth", "moved", "unrelated", "empty", "longer"} {
					for _, p := range []int{0, 2} {
						sc.Do(DiffCase{Parts: []int{p}, Large: &LargeGen{OldKind: ok, Size: size, NewKind: nk}})
					}
				}
			}
		}
		sc.Done()
	}

	// ---- read cache: explicit-state search on the real object -------------
	lru := runner.NewSub(w, "lru-bfs", func(c LruCase, r *runner.Rec) { runLruCase(w, c, r) })
	if lru.Active() {
		maxSize := 9
		if w.Quick() {
			maxSize = 6
		}
		for size := 0; size <= maxSize; size++ {
			for chunk := 1; chunk <= 4; chunk++ {
				for entries := 1; entries <= 3; entries++ {
					other := chunk + 1
					if other == size {
						other = chunk + 2
					}
					for _, rd := range []string{"bytes", "bytes-shared", "file"} {
						lru.Do(LruCase{Chunk: chunk, Entries: entries, Size: size, OtherSize: other, Reader: rd})
					}
				}
			}
		}
		lru.Done()
	}
}

// mediumSeqs: n symbols over {0,1} of the Thue-Morse word, the Fibonacci word and the
// output of the LFSR x^7+x^6+1 (period 127).
func mediumSeqs(n int) []string {
	tm := make([]byte, n)
	for i := range tm {
		b := 0
		for x := i; x > 0; x >>= 1 {
			b ^= x & 1
		}
		tm[i] = byte('0' + b)
	}
	fa, fb := "0", "01"
	for len(fb) < n {
		fa, fb = fb, fb+fa
	}
	lf := make([]byte, n)
	st := uint(0x5a)
	for i := range lf {
		bit := (st>>6 ^ st>>5) & 1
		st = (st<<1 | bit) & 0x7f
		lf[i] = byte('0' + bit)
	}
	return []string{string(tm), fb[:n], string(lf)}
}

func hasSym2(s string) bool {
	for i := 0; i < len(s); i++ {
		if s[i] == '2' {
			return true
		}
	}
	return false
}
