package main

import (
	"bytes"
	"fmt"
	"io"
	"runtime/debug"
	"strings"
	"time"

	"github.com/golang/protobuf/proto"
	"github.com/itchio/headway/state"
	"github.com/itchio/wharf/bsdiff"

	"verif/lib/runner"
	"verif/lib/wh"
)

// DiffCase is one journaled case of the differ sub-checks: every (new, partitions)
// combination of News x Parts is run against Old.
type DiffCase struct {
	Alpha int       `json:"alpha,omitempty"` // small scale: alphabet size; contents are digit strings
	Old   string    `json:"old"`
	News  []string  `json:"news,omitempty"`
	Parts []int     `json:"parts"`
	Conc  int       `json:"conc"`            // DiffContext.SuffixSortConcurrency
	Warm  bool      `json:"warm,omitempty"`  // one DiffContext reused for the whole case, first used on a longer input
	Large *LargeGen `json:"large,omitempty"` // structured large family (Old/News unused)
}

// LargeGen names one member of the structured large family.
type LargeGen struct {
	OldKind string `json:"old_kind"` // p1 | p3 | p256 | rand
	Size    int    `json:"size"`
	NewKind string `json:"new_kind"` // same prefix suffix kth inserts shuffled moved unrelated empty longer
}

func digits(s string) []byte {
	b := make([]byte, len(s))
	for i := range s {
		b[i] = s[i] - '0'
	}
	return b
}

func (g *LargeGen) materialize(seed int64) (old, nw []byte) {
	n := g.Size
	old = make([]byte, n)
	switch g.OldKind {
	case "p1":
		for i := range old {
			old[i] = 0x41
		}
	case "p3":
		for i := range old {
			old[i] = byte(i % 3)
		}
	case "p256":
		for i := range old {
			old[i] = byte(i % 256)
		}
	case "rand":
		copy(old, wh.Content(fmt.Sprintf("r1/%d", n), seed))
	default:
		panic("bad old kind " + g.OldKind)
	}
	switch g.NewKind {
	case "same":
		nw = append([]byte{}, old...)
	case "prefix":
		nw = append([]byte{}, old[:2*n/3]...)
	case "suffix":
		nw = append([]byte{}, old[n/3:]...)
	case "kth":
		k := 1021
		if n <= 4096 {
			k = 7
		}
		nw = append([]byte{}, old...)
		for i := k - 1; i < n; i += k {
			nw[i] ^= 0x80
		}
	case "inserts":
		// a few fresh bytes inserted every ~1.5KiB: every 128KiB scan block yields some 85
		// matches (far more than any channel batch or buffer the scanner may use)
		for i := 0; i < n; i += 1500 {
			e := i + 1500
			if e > n {
				e = n
			}
			nw = append(nw, old[i:e]...)
			nw = append(nw, byte(i>>3), byte(i>>11)^0x5a, 0x33)
		}
	case "shuffled":
		// 1KiB pieces of old in a scrambled order: every piece is its own match
		pieces := n / 1024
		for j := 0; j < pieces; j++ {
			k := (j*37 + 11) % pieces
			nw = append(nw, old[k*1024:(k+1)*1024]...)
		}
		nw = append(nw, old[pieces*1024:]...)
	case "moved":
		nw = append([]byte{}, old[:n/4]...)
		nw = append(nw, old[n/2:]...)
		nw = append(nw, old[n/4:n/2]...)
	case "unrelated":
		nw = append([]byte{}, wh.Content(fmt.Sprintf("r2/%d", n), seed)...)
	case "empty":
		nw = nil
	case "longer":
		nw = append([]byte{}, old...)
		nw = append(nw, wh.Content(fmt.Sprintf("r3/%d", n/3+1), seed)...)
		nw = append(nw, old[:n/4]...)
	default:
		panic("bad new kind " + g.NewKind)
	}
	return old, nw
}

// ctl is a deep copy of one bsdiff.Control message (the differ reuses its buffers).
type ctl struct {
	add, cp []byte
	seek    int64
	eof     bool
}

type doResult struct {
	msgs []ctl
	err  error
	pan  any
	site string
}

var quiet = &state.Consumer{}

// runDo runs the real differ in a goroutine of ours (so that a panic in Do's own
// goroutine is caught and classified) with a liveness bound: Do not returning
// within `limit` is reported as non-termination.
func runDo(ctx *bsdiff.DiffContext, old, nw []byte, limit time.Duration) (doResult, bool) {
	ch := make(chan doResult, 1)
	go func() {
		var r doResult
		defer func() {
			if e := recover(); e != nil {
				r.pan = e
				r.site = runner.PanicSite(string(debug.Stack()))
			}
			ch <- r
		}()
		r.err = ctx.Do(bytes.NewReader(old), bytes.NewReader(nw), func(m proto.Message) error {
			c, ok := m.(*bsdiff.Control)
			if !ok {
				return fmt.Errorf("harness: unexpected message type %T", m)
			}
			r.msgs = append(r.msgs, ctl{add: append([]byte(nil), c.Add...), cp: append([]byte(nil), c.Copy...), seek: c.Seek, eof: c.Eof})
			return nil
		}, quiet)
	}()
	t := time.NewTimer(limit)
	defer t.Stop()
	select {
	case r := <-ch:
		return r, false
	case <-t.C:
		return doResult{}, true
	}
}

type fail struct{ fp, msg string }

// applier holds the two real patch contexts (each owns a 32MiB read cache, so
// they are created once per worker and reused, which is also how the patcher
// uses them).
type applier struct {
	pcA, pcB *bsdiff.PatchContext
}

func newApplier() *applier {
	return &applier{pcA: bsdiff.NewPatchContext(), pcB: bsdiff.NewPatchContext()}
}

// refApply is the reference applier: plain bspatch semantics over byte slices.
func refApply(old []byte, msgs []ctl) ([]byte, *fail) {
	var out []byte
	pos := int64(0)
	for i, m := range msgs {
		if m.eof {
			break
		}
		if len(m.add) > 0 {
			if pos < 0 || pos+int64(len(m.add)) > int64(len(old)) {
				return out, &fail{"add-outside-old", fmt.Sprintf("message %d adds %d bytes at old offset %d, old has %d bytes", i, len(m.add), pos, len(old))}
			}
			for j, d := range m.add {
				out = append(out, d+old[pos+int64(j)])
			}
			pos += int64(len(m.add))
		}
		out = append(out, m.cp...)
		pos += m.seek
	}
	return out, nil
}

// restartIndices: every message index for short series, a boundary set for long ones.
func restartIndices(n int) []int {
	if n <= 24 {
		out := make([]int, 0, n+1)
		for i := 0; i <= n; i++ {
			out = append(out, i)
		}
		return out
	}
	seen := map[int]bool{}
	var out []int
	for _, i := range []int{0, 1, 2, n / 4, n / 2, 3 * n / 4, n - 2, n - 1, n} {
		if i >= 0 && i <= n && !seen[i] {
			seen[i] = true
			out = append(out, i)
		}
	}
	return out
}

func short(b []byte) string {
	if len(b) <= 24 {
		return fmt.Sprintf("%v", b)
	}
	return fmt.Sprintf("%v...(%d bytes)", b[:24], len(b))
}

func firstDiff(a, b []byte) int {
	n := len(a)
	if len(b) < n {
		n = len(b)
	}
	for i := 0; i < n; i++ {
		if a[i] != b[i] {
			return i
		}
	}
	if len(a) != len(b) {
		return n
	}
	return -1
}

func describe(msgs []ctl) string {
	var sb strings.Builder
	for i, m := range msgs {
		if i >= 12 {
			fmt.Fprintf(&sb, " ...(%d messages)", len(msgs))
			break
		}
		if m.eof {
			sb.WriteString(" EOF")
			continue
		}
		fmt.Fprintf(&sb, " {add%s copy%s seek%d}", short(m.add), short(m.cp), m.seek)
	}
	return sb.String()
}

// checkSeries evaluates every oracle of the property on one series.
func (ap *applier) checkSeries(old, nw []byte, msgs []ctl) *fail {
	// end-of-series message: exactly one, last
	if len(msgs) == 0 {
		return &fail{"no-eof-message", "the differ wrote no message at all"}
	}
	for i, m := range msgs {
		if m.eof != (i == len(msgs)-1) {
			if m.eof {
				return &fail{"eof-not-last", fmt.Sprintf("message %d of %d has Eof set:%s", i, len(msgs), describe(msgs))}
			}
			return &fail{"no-eof-message", fmt.Sprintf("last message (%d) has no Eof:%s", i, describe(msgs))}
		}
	}
	body := msgs[:len(msgs)-1]
	total := 0
	for _, m := range body {
		total += len(m.add) + len(m.cp)
	}
	if total != len(nw) {
		return &fail{"length-sum-mismatch", fmt.Sprintf("sum of add+copy lengths is %d, new has %d bytes:%s", total, len(nw), describe(msgs))}
	}
	// reference applier
	ref, f := refApply(old, msgs)
	if f != nil {
		return f
	}
	if !bytes.Equal(ref, nw) {
		return &fail{"reference-apply-mismatch", fmt.Sprintf("reference applier output differs from new at byte %d:%s", firstDiff(ref, nw), describe(msgs))}
	}
	// real applier, whole series
	var out bytes.Buffer
	k := 0
	err := ap.pcA.Patch(bytes.NewReader(old), &out, int64(len(nw)), func(m proto.Message) error {
		if k >= len(msgs) {
			return io.ErrUnexpectedEOF
		}
		c := m.(*bsdiff.Control)
		c.Reset()
		c.Add, c.Copy, c.Seek, c.Eof = msgs[k].add, msgs[k].cp, msgs[k].seek, msgs[k].eof
		k++
		return nil
	})
	if err != nil {
		return &fail{"patch-error", fmt.Sprintf("PatchContext.Patch: %v:%s", err, describe(msgs))}
	}
	if !bytes.Equal(out.Bytes(), nw) {
		return &fail{"patch-mismatch", fmt.Sprintf("PatchContext.Patch output differs from new at byte %d:%s", firstDiff(out.Bytes(), nw), describe(msgs))}
	}
	// mid-series restart: one IndividualPatchContext over the whole series records
	// OldOffset after every message; a fresh context started at that offset must
	// produce the same remainder.
	var full bytes.Buffer
	ipc, err := ap.pcA.NewIndividualPatchContext(bytes.NewReader(old), 0, &full)
	if err != nil {
		return &fail{"restart-error", fmt.Sprintf("NewIndividualPatchContext: %v", err)}
	}
	offs := make([]int64, len(body)+1)
	cum := make([]int, len(body)+1)
	for i, m := range body {
		offs[i], cum[i] = ipc.OldOffset, full.Len()
		if err := ipc.Apply(&bsdiff.Control{Add: m.add, Copy: m.cp, Seek: m.seek}); err != nil {
			return &fail{"restart-error", fmt.Sprintf("uninterrupted Apply of message %d: %v:%s", i, err, describe(msgs))}
		}
	}
	offs[len(body)], cum[len(body)] = ipc.OldOffset, full.Len()
	if !bytes.Equal(full.Bytes(), nw) {
		return &fail{"patch-mismatch", fmt.Sprintf("IndividualPatchContext output differs from new at byte %d:%s", firstDiff(full.Bytes(), nw), describe(msgs))}
	}
	var rest bytes.Buffer
	for _, i := range restartIndices(len(body)) {
		rest.Reset()
		ipc2, err := ap.pcB.NewIndividualPatchContext(bytes.NewReader(old), offs[i], &rest)
		if err != nil {
			return &fail{"restart-error", fmt.Sprintf("NewIndividualPatchContext at offset %d: %v", offs[i], err)}
		}
		for j := i; j < len(body); j++ {
			m := body[j]
			if err := ipc2.Apply(&bsdiff.Control{Add: m.add, Copy: m.cp, Seek: m.seek}); err != nil {
				return &fail{"restart-error", fmt.Sprintf("restart before message %d at saved OldOffset %d: Apply of message %d: %v:%s", i, offs[i], j, err, describe(msgs))}
			}
		}
		if !bytes.Equal(rest.Bytes(), full.Bytes()[cum[i]:]) {
			return &fail{"restart-mismatch", fmt.Sprintf("restart before message %d at saved OldOffset %d gives a different remainder (first difference at byte %d of the remainder):%s", i, offs[i], firstDiff(rest.Bytes(), full.Bytes()[cum[i]:]), describe(msgs))}
		}
	}
	return nil
}

// seriesClass summarises a series for the outcome / non-triviality statistics.
type seriesClass struct {
	msgs                      int
	add, cp, negSeek, posSeek bool
	nonzeroDiff               bool
}

func classify(msgs []ctl) seriesClass {
	var c seriesClass
	c.msgs = len(msgs)
	for _, m := range msgs {
		if len(m.add) > 0 {
			c.add = true
			for _, d := range m.add {
				if d != 0 {
					c.nonzeroDiff = true
					break
				}
			}
		}
		if len(m.cp) > 0 {
			c.cp = true
		}
		if m.seek < 0 {
			c.negSeek = true
		}
		if m.seek > 0 {
			c.posSeek = true
		}
	}
	return c
}

// runDiffCase is the case body shared by the differ sub-checks.
func runDiffCase(w *runner.W, ap *applier, c DiffCase, r *runner.Rec) {
	var old []byte
	var news [][]byte
	limit := 120 * time.Second
	if c.Large != nil {
		o, n := c.Large.materialize(w.Seed)
		old, news = o, [][]byte{n}
		limit = 900 * time.Second
	} else {
		old = digits(c.Old)
		for _, s := range c.News {
			news = append(news, digits(s))
		}
	}
	var shared *bsdiff.DiffContext
	if c.Warm {
		shared = &bsdiff.DiffContext{SuffixSortConcurrency: c.Conc}
		// leave larger stale buffers and a larger stale suffix array behind
		var wo, wn []byte
		if c.Large != nil {
			wo = wh.Content(fmt.Sprintf("r9/%d", len(old)+1000), w.Seed)
			wn = wo[:len(wo)/2+1]
		} else {
			wo = append(append(append([]byte{}, old...), old...), 1, 0, 1)
			wn = append(append([]byte{}, wo...), 0)
		}
		runDo(shared, wo, wn, limit)
	}
	agg := seriesClass{}
	maxMsgs, runs, trans := 0, 0, 0
	seen := map[string]bool{}
	for ni, nw := range news {
		for _, p := range c.Parts {
			ctx := shared
			if ctx == nil {
				ctx = &bsdiff.DiffContext{SuffixSortConcurrency: c.Conc}
			}
			ctx.Partitions = p
			res, hung := runDo(ctx, old, nw, limit)
			runs++
			where := fmt.Sprintf("old %d bytes, new #%d %d bytes, partitions %d", len(old), ni, len(nw), p)
			if c.Large == nil {
				where = fmt.Sprintf("old=%q new=%q partitions=%d", c.Old, c.News[ni], p)
			}
			if hung {
				key := "do-no-termination"
				if !seen[key] {
					seen[key] = true
					r.Failf(key, "%s: Do did not return within %v", where, limit)
				}
				// the differ's goroutines are still alive; do not reuse its context
				shared = nil
				continue
			}
			if res.pan != nil {
				fp := "panic:" + res.site
				if strings.Contains(fmt.Sprint(res.pan), "integer divide by zero") && len(nw) > 0 && len(nw) < p && p < len(old)-1 {
					fp += ":divide-by-zero:0<len(new)<partitions<len(old)-1"
				}
				if !seen[fp] {
					seen[fp] = true
					r.Failf(fp, "%s: Do panicked: %v", where, res.pan)
				}
				if c.Warm {
					shared = &bsdiff.DiffContext{SuffixSortConcurrency: c.Conc}
				}
				continue
			}
			if res.err != nil {
				if !seen["do-error"] {
					seen["do-error"] = true
					r.Failf("do-error", "%s: Do returned %v", where, res.err)
				}
				continue
			}
			trans += len(res.msgs)
			cl := classify(res.msgs)
			agg.add = agg.add || cl.add
			agg.cp = agg.cp || cl.cp
			agg.negSeek = agg.negSeek || cl.negSeek
			agg.posSeek = agg.posSeek || cl.posSeek
			agg.nonzeroDiff = agg.nonzeroDiff || cl.nonzeroDiff
			if cl.msgs > maxMsgs {
				maxMsgs = cl.msgs
			}
			if cl.add && cl.cp {
				r.Nontrivial()
			}
			if f := ap.checkSeries(old, nw, res.msgs); f != nil && !seen[f.fp] {
				seen[f.fp] = true
				r.Failf(f.fp, "%s: %s", where, f.msg)
			}
		}
	}
	r.Trans(trans)
	mb := maxMsgs
	if mb > 8 {
		mb = 8 + (mb-8+15)/16*16 // bucket long series
	}
	r.Outcome(fmt.Sprintf("maxmsgs<=%d add=%v diff=%v copy=%v seek-=%v seek+=%v", mb, agg.add, agg.nonzeroDiff, agg.cp, agg.negSeek, agg.posSeek))
	_ = runs
}

// recordingRS records the sizes of the reads the cache issues to the old file.
type recordingRS struct {
	r     *bytes.Reader
	reads []int
}

func (c *recordingRS) Read(p []byte) (int, error) {
	c.reads = append(c.reads, len(p))
	return c.r.Read(p)
}

func (c *recordingRS) Seek(off int64, whence int) (int64, error) { return c.r.Seek(off, whence) }

// probeCacheGeometry observes the chunk size and the capacity of the read cache
// inside a real PatchContext: the cache reads the old file one chunk at a time,
// and re-reads chunk 0 after k other chunks exactly when k >= capacity.
func probeCacheGeometry() (chunk, entries int) {
	defer func() {
		if recover() != nil {
			chunk, entries = -1, -1
		}
	}()
	old := make([]byte, 4096)
	touch := func(ipc *bsdiff.IndividualPatchContext, off int64) {
		ipc.OldOffset = off
		if err := ipc.Apply(&bsdiff.Control{Add: []byte{0}}); err != nil {
			panic(err)
		}
	}
	pc := bsdiff.NewPatchContext()
	rs := &recordingRS{r: bytes.NewReader(old)}
	ipc, err := pc.NewIndividualPatchContext(rs, 0, io.Discard)
	if err != nil {
		return -1, -1
	}
	touch(ipc, 0)
	if len(rs.reads) != 1 {
		return -1, -1
	}
	chunk = rs.reads[0]
	if chunk > 64 {
		return chunk, -1 // real geometry; the capacity is not probed
	}
	for k := 1; k <= 16; k++ {
		rs = &recordingRS{r: bytes.NewReader(old)}
		ipc, err = pc.NewIndividualPatchContext(rs, 0, io.Discard)
		if err != nil {
			return chunk, -1
		}
		touch(ipc, 0)
		for j := 1; j <= k; j++ {
			touch(ipc, int64(j*chunk))
		}
		touch(ipc, 0)
		if len(rs.reads) == k+2 {
			return chunk, k
		}
	}
	return chunk, -1
}
