package main

import (
	"bytes"
	"fmt"
	"io"
	"os"
	"path/filepath"
	"strings"

	"github.com/itchio/wharf/bsdiff/lrufile"

	"verif/lib/runner"
)

// LruCase is one geometry of the explicit-state search over the real lrufile.
type LruCase struct {
	Chunk     int    `json:"chunk"`
	Entries   int    `json:"entries"`
	Size      int    `json:"size"`       // size of file 0 (the file the cache starts on)
	OtherSize int    `json:"other_size"` // size of file 1 (target of Reset)
	Reader    string `json:"reader"`     // "bytes" (bytes.Reader) | "file" (*os.File)
}

// lop is one operation of the alphabet.
type lop struct {
	k byte // 's' Seek(a,Start) 'c' Seek(a,Current) 'e' Seek(a,End) 'r' Read(a bytes) 'x' Reset(other file)
	a int
}

func (o lop) String() string {
	switch o.k {
	case 's':
		return fmt.Sprintf("Seek(%d,Start)", o.a)
	case 'c':
		return fmt.Sprintf("Seek(%d,Current)", o.a)
	case 'e':
		return fmt.Sprintf("Seek(%d,End)", o.a)
	case 'r':
		return fmt.Sprintf("Read(%d)", o.a)
	}
	return "Reset(other)"
}

// shadow is the model: which file, the offset, the resident chunks in LRU order
// (most recently used first) with the storage slot the model expects each to
// occupy (lowest free slot on a miss). Hits/misses since the last Reset are
// carried along a path but are not part of the state identity.
type shadow struct {
	file   int
	off    int
	lru    []int
	slot   []int
	hits   int64
	misses int64
	// env: observed state of the environment that is not part of the cache's contract but
	// that its next Reset will meet: where each shared underlying reader was left
	env string
}

func (s *shadow) clone() *shadow {
	c := *s
	c.lru = append([]int(nil), s.lru...)
	c.slot = append([]int(nil), s.slot...)
	return &c
}

func (s *shadow) key() string {
	var sb strings.Builder
	fmt.Fprintf(&sb, "%d|%d|", s.file, s.off)
	for i := range s.lru {
		fmt.Fprintf(&sb, "%d@%d,", s.lru[i], s.slot[i])
	}
	sb.WriteString(s.env)
	return sb.String()
}

// touch models one chunk access; reports hit and eviction.
func (s *shadow) touch(ci, capacity int) (hit, evicted bool) {
	for i, c := range s.lru {
		if c == ci {
			sl := s.slot[i]
			copy(s.lru[1:i+1], s.lru[:i])
			copy(s.slot[1:i+1], s.slot[:i])
			s.lru[0], s.slot[0] = ci, sl
			s.hits++
			return true, false
		}
	}
	s.misses++
	if len(s.lru) == capacity {
		s.lru = s.lru[:len(s.lru)-1]
		s.slot = s.slot[:len(s.slot)-1]
		evicted = true
	}
	used := map[int]bool{}
	for _, x := range s.slot {
		used[x] = true
	}
	free := 0
	for used[free] {
		free++
	}
	s.lru = append([]int{ci}, s.lru...)
	s.slot = append([]int{free}, s.slot...)
	return false, evicted
}

type lruEnv struct {
	c       LruCase
	files   [2][]byte
	handles [2]*os.File
	shared  [2]*bytes.Reader
}

func (e *lruEnv) reader(i int) io.ReadSeeker {
	if e.c.Reader == "file" {
		return e.handles[i]
	}
	if e.c.Reader == "bytes-shared" {
		// one reader per file for the life of the cache, left wherever its last user moved
		// it (what a pool that caches its readers hands out)
		if e.shared[i] == nil {
			e.shared[i] = bytes.NewReader(e.files[i])
		}
		return e.shared[i]
	}
	return bytes.NewReader(e.files[i])
}

type stepInfo struct {
	evicted, multi, eofRead, seekErr, hit, phantom bool
}

// step applies op to the real object and to the model and compares every
// observable. The first return value is nil when they agree.
func (e *lruEnv) step(lf lrufile.File, m *shadow, o lop) (*fail, stepInfo) {
	var info stepInfo
	size := len(e.files[m.file])
	before := lf.Stats()
	if before.Hits != m.hits || before.Misses != m.misses {
		return &fail{"lru-model-divergence:stats", fmt.Sprintf("before %v: Stats()=%+v, model hits=%d misses=%d", o, before, m.hits, m.misses)}, info
	}
	switch o.k {
	case 's', 'c', 'e':
		var whence, target int
		switch o.k {
		case 's':
			whence, target = io.SeekStart, o.a
		case 'c':
			whence, target = io.SeekCurrent, m.off+o.a
		case 'e':
			whence, target = io.SeekEnd, size+o.a
		}
		pos, err := lf.Seek(int64(o.a), whence)
		if target < 0 || target > size {
			info.seekErr = true
			if err == nil {
				return &fail{"lru-model-divergence:seek-range", fmt.Sprintf("%v to offset %d of a %d-byte file returned no error (position %d)", o, target, size, pos)}, info
			}
			// the offset after a rejected seek is not specified: adopt the implementation's
			cur, err2 := lf.Seek(0, io.SeekCurrent)
			if err2 != nil || cur < 0 || cur > int64(size) {
				return &fail{"lru-position-invalid", fmt.Sprintf("after rejected %v: Seek(0,Current) = %d, %v (file has %d bytes)", o, cur, err2, size)}, info
			}
			m.off = int(cur)
		} else {
			if err != nil {
				return &fail{"lru-seek-error", fmt.Sprintf("%v to valid offset %d of a %d-byte file: %v", o, target, size, err)}, info
			}
			if pos != int64(target) {
				return &fail{"lru-seek-position", fmt.Sprintf("%v returned position %d, want %d", o, pos, target)}, info
			}
			m.off = target
		}
	case 'r':
		n := o.a
		buf := bytes.Repeat([]byte{0xEE}, n)
		start := m.off
		got, err := lf.Read(buf)
		if err != nil && err != io.EOF {
			return &fail{"lru-read-error", fmt.Sprintf("%v at offset %d: %v", o, start, err)}, info
		}
		if got < 0 || got > n || start+got > size {
			return &fail{"lru-read-count", fmt.Sprintf("%v at offset %d of %d bytes returned n=%d", o, start, size, got)}, info
		}
		if !bytes.Equal(buf[:got], e.files[m.file][start:start+got]) {
			return &fail{"lru-wrong-data", fmt.Sprintf("%v at offset %d returned %v, the file holds %v there", o, start, buf[:got], e.files[m.file][start:start+got])}, info
		}
		if err == io.EOF && start+got != size {
			return &fail{"lru-early-eof", fmt.Sprintf("%v at offset %d returned io.EOF after %d bytes, file has %d", o, start, got, size)}, info
		}
		if n > 0 && got == 0 && err == nil {
			return &fail{"lru-no-progress", fmt.Sprintf("%v at offset %d of %d bytes returned 0, nil", o, start, size)}, info
		}
		// model: full reads; EOF reported together with the short count
		cnt := n
		if size-start < cnt {
			cnt = size - start
		}
		eof := n > size-start
		if got != cnt || (err == io.EOF) != eof {
			return &fail{"lru-model-divergence:read-count", fmt.Sprintf("%v at offset %d of %d bytes returned (%d,%v), model predicts (%d, eof=%v)", o, start, size, got, err, cnt, eof)}, info
		}
		last := -1
		touches := 0
		visit := func(p int) {
			ci := p / e.c.Chunk
			if ci == last {
				return
			}
			last = ci
			touches++
			hit, ev := m.touch(ci, e.c.Entries)
			info.hit = info.hit || hit
			info.evicted = info.evicted || ev
			if ci*e.c.Chunk >= size {
				info.phantom = true
			}
		}
		for p := start; p < start+cnt; p++ {
			visit(p)
		}
		if eof {
			visit(size)
			info.eofRead = true
		}
		info.multi = touches > 1
		m.off = start + cnt
	case 'x':
		other := 1 - m.file
		if err := lf.Reset(e.reader(other)); err != nil {
			return &fail{"lru-reset-error", fmt.Sprintf("Reset: %v", err)}, info
		}
		m.file, m.off, m.lru, m.slot, m.hits, m.misses = other, 0, nil, nil, 0, 0
	}
	switch e.c.Reader {
	case "bytes-shared":
		m.env = "|env"
		for i := range e.shared {
			pos := -1
			if e.shared[i] != nil {
				pos = len(e.files[i]) - e.shared[i].Len()
			}
			m.env += fmt.Sprintf(":%d", pos)
		}
	case "file":
		m.env = "|env"
		for _, h := range e.handles {
			pos, _ := h.Seek(0, io.SeekCurrent)
			m.env += fmt.Sprintf(":%d", pos)
		}
	}
	after := lf.Stats()
	if after.Hits != m.hits || after.Misses != m.misses {
		return &fail{"lru-model-divergence:stats", fmt.Sprintf("after %v: Stats()=%+v, model hits=%d misses=%d (resident before: see path)", o, after, m.hits, m.misses)}, info
	}
	return nil, info
}

func (e *lruEnv) alphabet(m *shadow) []lop {
	size := len(e.files[m.file])
	var ops []lop
	for o := -1; o <= size+1; o++ {
		ops = append(ops, lop{'s', o})
	}
	ops = append(ops, lop{'c', 1}, lop{'c', -1})
	for o := -1; o <= size+1; o++ {
		ops = append(ops, lop{'e', -o})
	}
	seen := map[int]bool{}
	c := e.c.Chunk
	for _, n := range []int{1, c - 1, c, c + 1, 2*c + 1} {
		if n >= 0 && !seen[n] {
			seen[n] = true
			ops = append(ops, lop{'r', n})
		}
	}
	ops = append(ops, lop{'x', 0})
	return ops
}

type node struct {
	st     *shadow
	parent int
	via    lop
}

func pathTo(nodes []node, i int) []lop {
	var rev []lop
	for i > 0 {
		rev = append(rev, nodes[i].via)
		i = nodes[i].parent
	}
	for a, b := 0, len(rev)-1; a < b; a, b = a+1, b-1 {
		rev[a], rev[b] = rev[b], rev[a]
	}
	return rev
}

func pathString(p []lop) string {
	var s []string
	for _, o := range p {
		s = append(s, o.String())
	}
	return strings.Join(s, " ")
}

func runLruCase(w *runner.W, c LruCase, r *runner.Rec) {
	e := &lruEnv{c: c}
	e.files[0] = make([]byte, c.Size)
	for i := range e.files[0] {
		e.files[0][i] = byte(1 + i)
	}
	e.files[1] = make([]byte, c.OtherSize)
	for i := range e.files[1] {
		e.files[1][i] = byte(101 + i)
	}
	if c.Reader == "file" {
		dir := filepath.Join(w.Scratch(), "lru")
		os.MkdirAll(dir, 0o755)
		for i := 0; i < 2; i++ {
			p := filepath.Join(dir, fmt.Sprintf("f%d", i))
			if err := os.WriteFile(p, e.files[i], 0o644); err != nil {
				panic(err)
			}
			f, err := os.Open(p)
			if err != nil {
				panic(err)
			}
			defer f.Close()
			e.handles[i] = f
		}
	}
	fresh := func() (lrufile.File, *shadow, *fail) {
		e.shared = [2]*bytes.Reader{}
		if c.Reader == "file" {
			// the two handles live for the whole case: every replay starts with them rewound
			for _, h := range e.handles {
				h.Seek(0, io.SeekStart)
			}
		}
		lf, err := lrufile.New(int64(c.Chunk), c.Entries)
		if err != nil {
			return nil, nil, &fail{"lru-new-error", err.Error()}
		}
		if err := lf.Reset(e.reader(0)); err != nil {
			return nil, nil, &fail{"lru-reset-error", err.Error()}
		}
		return lf, &shadow{}, nil
	}

	nodes := []node{{st: &shadow{}, parent: -1}}
	index := map[string]int{nodes[0].st.key(): 0}
	trans := 0
	var agg stepInfo
	for head := 0; head < len(nodes); head++ {
		if head%64 == 0 && w.Expired() {
			r.Outcome("cut-by-deadline")
			r.States(len(nodes))
			r.Trans(trans)
			return
		}
		path := pathTo(nodes, head)
		for _, o := range e.alphabet(nodes[head].st) {
			lf, m, f := fresh()
			if f != nil {
				r.Failf(f.fp, "%s", f.msg)
				return
			}
			for i, po := range path {
				if f, _ := e.step(lf, m, po); f != nil {
					r.Failf("lru-replay-diverged", "replaying the already verified path [%s] on a fresh lrufile failed at step %d: %s: %s", pathString(path), i, f.fp, f.msg)
					return
				}
			}
			if m.key() != nodes[head].st.key() {
				r.Failf("lru-replay-diverged", "replaying [%s] reached model state %s, expected %s", pathString(path), m.key(), nodes[head].st.key())
				return
			}
			f, info := e.step(lf, m, o)
			trans++
			if f == nil {
				// position must agree with the model after every step
				if pos, err := lf.Seek(0, io.SeekCurrent); err != nil || pos != int64(m.off) {
					f = &fail{"lru-position-mismatch", fmt.Sprintf("position is %d (%v), model says %d", pos, err, m.off)}
				}
			}
			if f != nil {
				r.Failf(f.fp, "after [%s] (model state %s) then %v: %s", pathString(path), nodes[head].st.key(), o, f.msg)
				return
			}
			agg.evicted = agg.evicted || info.evicted
			agg.multi = agg.multi || info.multi
			agg.eofRead = agg.eofRead || info.eofRead
			agg.seekErr = agg.seekErr || info.seekErr
			agg.hit = agg.hit || info.hit
			agg.phantom = agg.phantom || info.phantom
			k := m.key()
			if _, ok := index[k]; !ok {
				index[k] = len(nodes)
				nodes = append(nodes, node{st: m.clone(), parent: head, via: o})
			}
		}
	}
	r.States(len(nodes))
	r.Trans(trans)
	if agg.evicted && agg.multi && agg.hit {
		r.Nontrivial()
	}
	r.Outcome(fmt.Sprintf("evict=%v multichunk=%v hit=%v eofread=%v chunk-past-end=%v seekerr=%v", agg.evicted, agg.multi, agg.hit, agg.eofRead, agg.phantom, agg.seekErr))
}
