package main

import (
	"bytes"
	"encoding/gob"
	"fmt"
	"os"
	"path/filepath"
	"regexp"
	"runtime/debug"
	"sort"
	"strings"

	"github.com/itchio/headway/state"
	"github.com/itchio/lake"
	"github.com/itchio/lake/pools/fspool"
	"github.com/itchio/savior/seeksource"
	"github.com/itchio/wharf/pwr"
	"github.com/itchio/wharf/pwr/bowl"
	"github.com/itchio/wharf/pwr/patcher"
	pkgerrors "github.com/pkg/errors"

	"verif/lib/runner"
	"verif/lib/wh"
)

// ---------------------------------------------------------------------------
// configurations

// Config names one configuration; everything else (builds, patch, reference
// run, recording run) is recomputed deterministically from it and the seed.
type Config struct {
	Bowl   string  `json:"bowl"`   // fresh | overlay
	Series string  `json:"series"` // rsync | bsdiff (optimized patch, wh.Rediff partitions 2)
	Comp   wh.Comp `json:"comp"`
	Pair   string  `json:"pair"`
	// Whitelist: "" = every file; "even" / "odd" = only the new-build files with even /
	// odd index are applied (the others are skipped by the patcher), in the reference
	// run, the recording run and every resumed run alike.
	Whitelist string `json:"whitelist,omitempty"`
}

func (c Config) String() string {
	if c.Whitelist != "" {
		return fmt.Sprintf("%s/%s/%s/%s/wl-%s", c.Bowl, c.Series, c.Comp, c.Pair, c.Whitelist)
	}
	return fmt.Sprintf("%s/%s/%s/%s", c.Bowl, c.Series, c.Comp, c.Pair)
}

func (c Config) algo() string {
	s := string(c.Comp)
	if i := strings.IndexByte(s, '-'); i > 0 {
		return s[:i]
	}
	return s
}

// ---------------------------------------------------------------------------
// directory snapshots kept in memory

type blob struct {
	kind byte // 'f' file, 'd' dir, 'l' symlink
	data []byte
	dest string
	perm os.FileMode
}

func (b *blob) equal(o *blob) bool {
	return b.kind == o.kind && b.dest == o.dest && b.perm == o.perm && bytes.Equal(b.data, o.data)
}

// snap maps "out/<rel>" and "stage/<rel>" to the entry found on disk.
type snap map[string]*blob

// dirs are the directories of one application: the output folder and (in
// place only) the stage folder.
type dirs struct{ out, stage string }

func (d dirs) path(key string) string {
	i := strings.IndexByte(key, '/')
	tag, rel := key[:i], key[i+1:]
	root := d.out
	if tag == "stage" {
		root = d.stage
	}
	return filepath.Join(root, filepath.FromSlash(rel))
}

// takeSnap reads both directories completely. Entries equal to the previous
// snapshot's share its blob, so "same pointer" means "unchanged since".
func takeSnap(prev snap, d dirs) snap {
	s := snap{}
	walk := func(tag, root string) {
		if root == "" {
			return
		}
		err := filepath.Walk(root, func(p string, info os.FileInfo, err error) error {
			if err != nil {
				return err
			}
			rel, _ := filepath.Rel(root, p)
			if rel == "." {
				return nil
			}
			key := tag + "/" + filepath.ToSlash(rel)
			b := &blob{perm: info.Mode().Perm()}
			switch {
			case info.Mode()&os.ModeSymlink != 0:
				b.kind = 'l'
				b.dest, _ = os.Readlink(p)
				b.perm = 0
			case info.IsDir():
				b.kind = 'd'
			default:
				b.kind = 'f'
				data, err := os.ReadFile(p)
				if err != nil {
					return err
				}
				b.data = data
			}
			if pb, ok := prev[key]; ok && pb.equal(b) {
				b = pb
			}
			s[key] = b
			return nil
		})
		if err != nil && !os.IsNotExist(err) {
			panic(harnessErr(fmt.Sprintf("snapshot of %s: %v", root, err)))
		}
	}
	walk("out", d.out)
	walk("stage", d.stage)
	return s
}

func writeBlob(path string, b *blob) error {
	switch b.kind {
	case 'd':
		if err := os.MkdirAll(path, 0o755); err != nil {
			return err
		}
		return os.Chmod(path, b.perm)
	case 'l':
		if err := os.MkdirAll(filepath.Dir(path), 0o755); err != nil {
			return err
		}
		return os.Symlink(b.dest, path)
	default:
		if err := os.MkdirAll(filepath.Dir(path), 0o755); err != nil {
			return err
		}
		os.Remove(path)
		if err := os.WriteFile(path, b.data, 0o644); err != nil {
			return err
		}
		return os.Chmod(path, b.perm)
	}
}

// materialize writes the snapshot into fresh directories.
func (s snap) materialize(d dirs) error {
	if err := os.MkdirAll(d.out, 0o755); err != nil {
		return err
	}
	if d.stage != "" {
		if err := os.MkdirAll(d.stage, 0o755); err != nil {
			return err
		}
	}
	keys := make([]string, 0, len(s))
	for k := range s {
		keys = append(keys, k)
	}
	sort.Strings(keys) // parents before children
	for _, k := range keys {
		if err := writeBlob(d.path(k), s[k]); err != nil {
			return err
		}
	}
	return nil
}

// ---------------------------------------------------------------------------
// recording run

type event struct {
	Kind string // "call" (ShouldSave call), "save" (checkpoint handed to Save), "end" (Resume returned)
	Call int    // index of the ShouldSave call (for "save": the call during which it happened)
	Ck   int    // checkpoint ordinal for "save", else -1
	File string // path of the new file being processed (progress label)
	snap snap
}

type ckRec struct {
	Ev      int // index of the "save" event
	Call    int
	Gob     []byte
	EncErr  error
	DecErr  error
	FileIdx int64
	File    string // path of the new file
	PhysKey string // snapshot key of the on-disk file the entry writer appends to
	PhysOff int64  // offset in that on-disk file vouched for by the checkpoint
	SrcOff  int64  // offset in the new file
}

type recording struct {
	cfg     Config
	patch   []byte
	oldDir  string
	newDir  string
	refTree snap
	refErr  error
	events  []event
	ckpts   []ckRec
	calls   int
	runErr  error    // error of the recording run (Resume / Commit)
	runDiff []string // recording run tree vs reference tree
	nSeries int
	nBsdiff int
	nMsgs   int
	sig     string

	panicSite, panicMsg, panicStack string
}

func physTag(cfg Config) string {
	if cfg.Bowl == "overlay" {
		return "stage"
	}
	return "out"
}

func encodeCk(ck *patcher.Checkpoint) ([]byte, error) {
	var buf bytes.Buffer
	if err := gob.NewEncoder(&buf).Encode(ck); err != nil {
		return nil, err
	}
	return buf.Bytes(), nil
}

func decodeCk(b []byte) (*patcher.Checkpoint, error) {
	ck := &patcher.Checkpoint{}
	if err := gob.NewDecoder(bytes.NewReader(b)).Decode(ck); err != nil {
		return nil, err
	}
	return ck, nil
}

func writerCk(ck *patcher.Checkpoint) *bowl.WriterCheckpoint {
	if ck.RsyncCheckpoint != nil {
		return ck.RsyncCheckpoint.WriterCheckpoint
	}
	if ck.BsdiffCheckpoint != nil {
		return ck.BsdiffCheckpoint.WriterCheckpoint
	}
	return nil
}

type funcConsumer struct {
	should func() bool
	save   func(*patcher.Checkpoint) (patcher.AfterSaveAction, error)
}

func (f *funcConsumer) ShouldSave() bool { return f.should() }
func (f *funcConsumer) Save(c *patcher.Checkpoint) (patcher.AfterSaveAction, error) {
	return f.save(c)
}

// session is one brand-new patcher + pool + bowl over the given directories.
type session struct {
	p    patcher.Patcher
	pool lake.Pool
	b    bowl.Bowl
}

func openSession(cfg Config, patch []byte, oldDir string, d dirs, label func(string)) (*session, string, error) {
	cons := wh.Quiet()
	if label != nil {
		cons = &state.Consumer{OnProgressLabel: label}
	}
	p, err := patcher.New(seeksource.FromBytes(patch), cons)
	if err != nil {
		return nil, "patcher-new", err
	}
	s := &session{p: p}
	if cfg.Whitelist != "" {
		wl := map[int64]bool{}
		for i := range p.GetSourceContainer().Files {
			if (i%2 == 0) == (cfg.Whitelist == "even") {
				wl[int64(i)] = true
			}
		}
		p.SetSourceIndexWhitelist(wl)
	}
	if cfg.Bowl == "fresh" {
		s.pool = fspool.New(p.GetTargetContainer(), oldDir)
		s.b, err = bowl.NewFreshBowl(bowl.FreshBowlParams{
			SourceContainer: p.GetSourceContainer(),
			TargetContainer: p.GetTargetContainer(),
			TargetPool:      s.pool,
			OutputFolder:    d.out,
		})
	} else {
		s.pool = fspool.New(p.GetTargetContainer(), d.out)
		s.b, err = bowl.NewOverlayBowl(bowl.OverlayBowlParams{
			SourceContainer: p.GetSourceContainer(),
			TargetContainer: p.GetTargetContainer(),
			StageFolder:     d.stage,
			OutputFolder:    d.out,
			Consumer:        wh.Quiet(),
		})
	}
	if err != nil {
		s.pool.Close()
		return nil, "bowl-new", err
	}
	return s, "", nil
}

func isStop(err error) bool {
	return err != nil && pkgerrors.Cause(err) == patcher.ErrStop
}

// leg resumes from the serialized checkpoint (nil: from the start) with a
// brand-new patcher, pool and bowl, and commits when the patch completes.
// It returns the phase that failed ("" = none) and the error; a stop requested
// by the consumer comes back as phase "stopped".
func leg(cfg Config, patch []byte, oldDir string, d dirs, ckGob []byte, sc patcher.SaveConsumer) (string, error) {
	var ck *patcher.Checkpoint
	if ckGob != nil {
		var err error
		ck, err = decodeCk(ckGob)
		if err != nil {
			return "gob-decode", err
		}
	}
	s, phase, err := openSession(cfg, patch, oldDir, d, nil)
	if err != nil {
		return phase, err
	}
	defer s.b.Close()
	if sc != nil {
		s.p.SetSaveConsumer(sc)
	}
	err = s.p.Resume(ck, s.pool, s.b)
	if isStop(err) {
		return "stopped", nil
	}
	if err != nil {
		return "resume", err
	}
	if err := s.b.Commit(); err != nil {
		return "commit", err
	}
	return "", nil
}

// freshDirs prepares the starting directories of an application from scratch.
func startDirs(cfg Config, oldDir, base string) (dirs, error) {
	d := dirs{out: filepath.Join(base, "out")}
	if cfg.Bowl == "overlay" {
		d.stage = filepath.Join(base, "stage")
		if err := os.MkdirAll(d.stage, 0o755); err != nil {
			return d, err
		}
		if err := os.MkdirAll(d.out, 0o755); err != nil {
			return d, err
		}
		if err := wh.CopyTree(oldDir, d.out); err != nil {
			return d, err
		}
	}
	return d, nil
}

func (e *env) tmp() string {
	e.seq++
	return filepath.Join(e.root, fmt.Sprintf("t%d", e.seq))
}

// record computes patch, reference run and recording run of a configuration.
func (e *env) record(cfg Config) *recording {
	pd := pairByName(cfg.Pair)
	if pd == nil {
		panic(harnessErr("unknown pair " + cfg.Pair))
	}
	oldDir, newDir := e.buildDirs(pd)
	rec := &recording{cfg: cfg, oldDir: oldDir, newDir: newDir}
	rec.patch = e.patchFor(pd, cfg)

	// independent decode: structure of the patch (evidence only)
	if dp, err := wh.DecodePatch(rec.patch); err == nil {
		rec.nSeries = len(dp.Series)
		for _, s := range dp.Series {
			if s.Bsdiff != nil {
				rec.nBsdiff++
				rec.nMsgs += len(s.Ctrl)
			} else {
				rec.nMsgs += len(s.Ops)
			}
		}
	}

	// reference run: no save consumer at all
	{
		base := e.tmp()
		d, err := startDirs(cfg, oldDir, base)
		if err == nil {
			var phase string
			phase, err = leg(cfg, rec.patch, oldDir, d, nil, nil)
			if err != nil {
				err = fmt.Errorf("%s: %w", phase, err)
			}
		}
		if err != nil {
			rec.refErr = err
			os.RemoveAll(base)
			return rec
		}
		rec.refTree = takeSnap(nil, dirs{out: d.out})
		os.RemoveAll(base)
	}

	// recording run: ShouldSave always true, Save -> continue
	base := e.tmp()
	defer os.RemoveAll(base)
	d, err := startDirs(cfg, oldDir, base)
	if err != nil {
		panic(harnessErr(err.Error()))
	}
	cur := ""
	s, phase, err := openSession(cfg, rec.patch, oldDir, d, func(l string) { cur = l })
	if err != nil {
		rec.runErr = fmt.Errorf("%s: %w", phase, err)
		return rec
	}
	defer s.b.Close()
	src := s.p.GetSourceContainer()
	var prev snap
	shoot := func() snap {
		sn := takeSnap(prev, d)
		prev = sn
		return sn
	}
	s.p.SetSaveConsumer(&funcConsumer{
		should: func() bool {
			rec.events = append(rec.events, event{Kind: "call", Call: rec.calls, Ck: -1, File: cur, snap: shoot()})
			rec.calls++
			return true
		},
		save: func(ck *patcher.Checkpoint) (patcher.AfterSaveAction, error) {
			cr := ckRec{Ev: len(rec.events), Call: rec.calls - 1, FileIdx: ck.FileIndex}
			if ck.FileIndex >= 0 && ck.FileIndex < int64(len(src.Files)) {
				cr.File = src.Files[ck.FileIndex].Path
			}
			cr.PhysKey = physTag(cfg) + "/" + cr.File
			if wc := writerCk(ck); wc != nil {
				cr.SrcOff, cr.PhysOff = wc.Offset, wc.Offset
				if oc, ok := wc.Data.(*bowl.OverlayEntryWriterCheckpoint); ok {
					cr.PhysOff = oc.OverlayOffset
				}
			}
			// the checkpoint aliases live patcher/bowl state: serialize now
			cr.Gob, cr.EncErr = encodeCk(ck)
			if cr.EncErr == nil {
				_, cr.DecErr = decodeCk(cr.Gob)
			}
			rec.events = append(rec.events, event{Kind: "save", Call: rec.calls - 1, Ck: len(rec.ckpts), File: cur, snap: shoot()})
			rec.ckpts = append(rec.ckpts, cr)
			return patcher.AfterSaveContinue, nil
		},
	})
	err = s.p.Resume(nil, s.pool, s.b)
	if err != nil {
		rec.runErr = fmt.Errorf("resume: %w", err)
		return rec
	}
	rec.events = append(rec.events, event{Kind: "end", Call: rec.calls, Ck: -1, snap: shoot()})
	if err := s.b.Commit(); err != nil {
		rec.runErr = fmt.Errorf("commit: %w", err)
		return rec
	}
	rec.runDiff = compareTree(d.out, rec.refTree)
	rec.sig = fmt.Sprintf("%d/%d/%d", len(rec.patch), rec.calls, len(rec.ckpts))
	return rec
}

// ---------------------------------------------------------------------------
// builds and patches (cached per worker)

// harnessErr is panicked with when the harness itself cannot do its job (no
// space on the scratch file system, a build cannot be diffed, ...). It is never
// turned into a violation: the sub-check is marked skipped (exhaustive:false).
type harnessErr string

type env struct {
	w       *runner.W
	onHarn  func(kind, msg string)
	root    string
	seq     int
	bdirs   map[string][2]string
	patches map[string][]byte
	lastCfg Config
	lastRec *recording
}

func newEnv(w *runner.W) *env {
	return &env{w: w, root: w.Scratch(), bdirs: map[string][2]string{}, patches: map[string][]byte{}}
}

func (e *env) buildDirs(pd *pairDef) (string, string) {
	if d, ok := e.bdirs[pd.Name]; ok {
		return d[0], d[1]
	}
	o := filepath.Join(e.root, "builds", pd.Name, "old")
	n := filepath.Join(e.root, "builds", pd.Name, "new")
	if err := pd.Old.Materialize(o, e.w.Seed); err != nil {
		panic(harnessErr(err.Error()))
	}
	if err := pd.New.Materialize(n, e.w.Seed); err != nil {
		panic(harnessErr(err.Error()))
	}
	e.bdirs[pd.Name] = [2]string{o, n}
	return o, n
}

func (e *env) patchFor(pd *pairDef, cfg Config) []byte {
	key := fmt.Sprintf("%s|%s|%s", pd.Name, cfg.Series, cfg.Comp)
	if p, ok := e.patches[key]; ok {
		return p
	}
	oldDir, newDir := e.buildDirs(pd)
	var patch []byte
	if cfg.Series == "rsync" {
		dr, err := wh.Diff(oldDir, newDir, cfg.Comp)
		if err != nil {
			panic(harnessErr(fmt.Sprintf("diff %s: %v", cfg, err)))
		}
		patch = dr.Patch
	} else {
		base := e.patchFor(pd, Config{Series: "rsync", Comp: "none", Pair: pd.Name})
		opt, _, err := wh.Rediff(base, oldDir, newDir, wh.RediffParams{Partitions: 2, Comp: cfg.Comp})
		if err != nil {
			panic(harnessErr(fmt.Sprintf("rediff %s: %v", cfg, err)))
		}
		patch = opt
	}
	e.patches[key] = patch
	return patch
}

func (e *env) recording(cfg Config) *recording {
	if e.lastRec != nil && e.lastCfg == cfg {
		return e.lastRec
	}
	e.lastRec = nil // let the previous one go before building the next
	r := e.recordGuarded(cfg)
	e.lastCfg, e.lastRec = cfg, r
	return r
}

// recordGuarded turns a panic of wharf during the reference or recording run
// into a finding of the recording sub-check (harness failures pass through).
func (e *env) recordGuarded(cfg Config) (rec *recording) {
	defer func() {
		if x := recover(); x != nil {
			if _, ok := x.(harnessErr); ok {
				panic(x)
			}
			stack := string(debug.Stack())
			rec = &recording{cfg: cfg, panicSite: runner.PanicSite(stack), panicMsg: fmt.Sprintf("%v", x), panicStack: stack}
			rec.runErr = fmt.Errorf("panic: %v", x)
		}
	}()
	return e.record(cfg)
}

// ---------------------------------------------------------------------------
// torn states

type TornFile struct {
	File  string `json:"file"`           // snapshot key: out/<path> or stage/<path>
	State string `json:"state"`          // k | missing | trunc | zero
	N     int64  `json:"n,omitempty"`    // trunc: new length; zero: first zeroed offset
	Role  string `json:"role,omitempty"` // inprog (file the checkpointed writer appends to) | other
}

func applyTorn(d dirs, tf TornFile, atK snap) error {
	p := d.path(tf.File)
	switch tf.State {
	case "k":
		b, ok := atK[tf.File]
		if !ok {
			return fmt.Errorf("file %s does not exist at the checkpoint", tf.File)
		}
		return writeBlob(p, b)
	case "missing":
		return os.Remove(p)
	case "trunc":
		return os.Truncate(p, tf.N)
	case "zero":
		f, err := os.OpenFile(p, os.O_RDWR, 0)
		if err != nil {
			return err
		}
		defer f.Close()
		st, err := f.Stat()
		if err != nil {
			return err
		}
		if st.Size() > tf.N {
			if _, err := f.WriteAt(make([]byte, st.Size()-tf.N), tf.N); err != nil {
				return err
			}
		}
		return nil
	}
	return fmt.Errorf("unknown torn state %q", tf.State)
}

// differing lists the regular files whose content at event t differs from the
// content at event k (or that exist only at t), the checkpointed file first.
func differing(atK, atT snap, physKey string) []string {
	var out []string
	for key, bt := range atT {
		if bt.kind != 'f' {
			continue
		}
		bk, ok := atK[key]
		if ok && (bk == bt || bk.equal(bt)) {
			continue
		}
		out = append(out, key)
	}
	sort.Slice(out, func(i, j int) bool {
		if (out[i] == physKey) != (out[j] == physKey) {
			return out[i] == physKey
		}
		return out[i] < out[j]
	})
	return out
}

// tornStates lists the alternative on-disk states of one differing file.
// level 0: truncated to {ckpt offset, +1, midpoint, written extent-1, len-1},
// zero-filled after the ckpt offset, as at k / missing; level 1: truncated to
// {ckpt offset, written extent-1},
// zero-filled, as at k / missing; level 2: truncated to the ckpt offset, as at k
// / missing. For a file the checkpointed writer was not appending to, the
// "ckpt offset" is 0 (nothing of it is vouched for by the checkpoint).
func tornStates(key string, atK, atT snap, ck *ckRec, level int) []TornFile {
	bt := atT[key]
	_, hadK := atK[key]
	role, off := "other", int64(0)
	if key == ck.PhysKey {
		role, off = "inprog", ck.PhysOff
	}
	lenT := int64(len(bt.data))
	var out []TornFile
	seen := map[int64]bool{}
	// a fresh bowl preallocates every file at its final size, so the length that
	// matters for "partly written" is the extent without the trailing zeros
	eff := lenT
	for eff > off && bt.data[eff-1] == 0 {
		eff--
	}
	cands := []int64{off, off + 1, (off + eff) / 2, eff - 1, lenT - 1}
	switch level {
	case 1:
		cands = []int64{off, eff - 1}
	case 2:
		cands = []int64{off}
	}
	for _, n := range cands {
		if n < off || n >= lenT || seen[n] {
			continue
		}
		seen[n] = true
		out = append(out, TornFile{File: key, State: "trunc", N: n, Role: role})
	}
	if lenT > off && level < 2 {
		out = append(out, TornFile{File: key, State: "zero", N: off, Role: role})
	}
	if hadK {
		out = append(out, TornFile{File: key, State: "k", Role: role})
	} else {
		out = append(out, TornFile{File: key, State: "missing", Role: role})
	}
	return out
}

// compareTree compares the directory with the reference tree byte for byte
// (own Lstat walk; kinds, contents, symlink destinations, path sets).
func compareTree(dir string, ref snap) []string {
	got := takeSnap(nil, dirs{out: dir})
	var d []string
	for p, w := range ref {
		g, ok := got[p]
		rel := strings.TrimPrefix(p, "out/")
		switch {
		case !ok:
			d = append(d, fmt.Sprintf("missing %s (%c)", rel, w.kind))
		case g.kind != w.kind:
			d = append(d, fmt.Sprintf("kind of %s: got %c want %c", rel, g.kind, w.kind))
		case g.kind == 'f' && !bytes.Equal(g.data, w.data):
			first := 0
			for first < len(g.data) && first < len(w.data) && g.data[first] == w.data[first] {
				first++
			}
			d = append(d, fmt.Sprintf("content of %s: got %d bytes want %d bytes, first difference at offset %d", rel, len(g.data), len(w.data), first))
		case g.kind == 'l' && g.dest != w.dest:
			d = append(d, fmt.Sprintf("dest of %s: got %q want %q", rel, g.dest, w.dest))
		}
	}
	for p, g := range got {
		if _, ok := ref[p]; !ok {
			d = append(d, fmt.Sprintf("extra %s (%c)", strings.TrimPrefix(p, "out/"), g.kind))
		}
	}
	sort.Strings(d)
	return d
}

// ---------------------------------------------------------------------------
// failure classes

var (
	reDigits = regexp.MustCompile(`[0-9]+`)
	rePath   = regexp.MustCompile(`/[^ :'"]*verif-[^ :'"]*`)
)

// errClass reduces an error message to its class (no numbers, no temp paths).
func errClass(err error) string {
	s := err.Error()
	s = rePath.ReplaceAllString(s, "<path>")
	s = reDigits.ReplaceAllString(s, "N")
	if len(s) > 90 {
		s = s[:90]
	}
	return s
}

func tornClass(torn []TornFile) string {
	if len(torn) == 0 {
		return "as-is"
	}
	var p []string
	for _, t := range torn {
		p = append(p, t.Role+"="+t.State)
	}
	sort.Strings(p)
	return strings.Join(p, "+")
}

var _ = pwr.BlockSize
