package main

import "verif/lib/wh"

// pairDef is one (old build, new build) pair. Every pair has >= 1 MiB of fresh
// data spread over >= 2 files whose series interleave fresh runs (one DATA
// message each) with reused blocks, a whole-file copy (same path and renamed /
// duplicated), an empty file, a deleted file, a file whose path exists in the
// old build (overlay writer when applied in place) and a file whose path is
// new (plain stage writer when applied in place). Each new file reuses blocks
// of exactly one old file, so the optimizer's choice of bsdiff target does not
// depend on map iteration order.
type pairDef struct {
	Name     string
	Old, New wh.Build
	Big      bool // >= 4 MiB of fresh data
}

func allPairs() []pairDef {
	return []pairDef{
		{
			Name: "p1",
			Old: wh.Build{
				wh.F("a.bin", "A.B.C.D.E.F.G.H.I.J"),
				wh.F("dir/b.bin", "K.L.M.N.O.P.Q.R"),
				wh.F("keep.dat", "S.T.U/1000"),
				wh.F("old/moved.dat", "V.W/333"),
				wh.F("gone.txt", "=bye"),
				wh.F("empty0", ""),
			},
			New: wh.Build{
				// B and E replaced in place (aligned blocks stay aligned), then shifted
				wh.F("a.bin", "A.r1/65536.C.D.r2/65536.F.r3/70000.G.r4/50000.H.r5/80000.I.r6/65536.J.r7/3000"),
				wh.F("dir/b.bin", "K.r21/65536.M.N.r22/65536.P.r23/100.Q.r24/30000.R.r25/7"),
				wh.F("dir/c.bin", "r11/40000.K.r12/65536.L.M.r13/90000.N.r14/65537.O.r15/120000.P.r16/70001.Q.r17/65536.R.r18/1"),
				wh.F("keep.dat", "S.T.U/1000"),
				wh.F("new/moved.dat", "V.W/333"),
				wh.F("empty0", ""),
				wh.F("empty1", ""),
				wh.F("tiny.txt", "=hello"),
				// one fresh byte, then blocks of the old build: a checkpoint between the two ops
				// carries a writer offset of exactly 1
				wh.F("one-then-blocks", "=z.S.T"),
			},
		},
		{
			Name: "p2",
			Old: wh.Build{
				wh.F("data/big.bin", "A.B.C.D.E.F.G.H.I.J.K.L.M.N.O.P"),
				wh.F("x/small", "Q.R/5"),
				wh.F("copy.me", "S.T"),
				wh.F("empty", ""),
				wh.F("drop/me", "U/4096"),
				wh.L("link", "copy.me"),
			},
			New: wh.Build{
				wh.F("data/big.bin", "r31/200000.A.B.C.r32/1.D.r33/131072.G.H.r34/65535.J.r35/300000.M.N.O.P/30000"),
				wh.F("data/extra.bin", "E.r36/100000.F.r37/65536.I.r38/250000.K.L.r39/12345"),
				wh.F("x/small", "Q.R/5"),
				wh.F("copy.me", "S.T"),
				wh.F("copy2.me", "S.T"),
				wh.F("empty", ""),
				wh.F("z/empty2", ""),
				wh.L("link", "copy.me"),
				wh.D("emptydir"),
			},
		},
		{
			Name: "p4m",
			Big:  true,
			Old: wh.Build{
				wh.F("g/pack.bin", "A.B.C.D.E.F.G.H.I.J"),
				wh.F("g/side.bin", "K.L.M.N.O.P"),
				wh.F("h.bin", "U.V.W.X"),
				wh.F("same", "Y.Y/77"),
				wh.F("empty", ""),
			},
			New: wh.Build{
				wh.F("g/pack.bin", "A.r41/1500000.B.C.r42/700000.D.E.F.r43/65536.H.r44/900000.I.J"),
				wh.F("g/pack2.bin", "r45/300000.K.L.r46/600000.M.r47/200000.N.O.P.r48/150000"),
				// shorter than the old h.bin; the old content is also copied whole to h.orig
				wh.F("h.bin", "U.r49/65536.X.r50/10"),
				wh.F("h.orig", "U.V.W.X"),
				wh.F("same", "Y.Y/77"),
				wh.F("same.copy", "Y.Y/77"),
				wh.F("empty", ""),
				wh.F("empty.new", ""),
			},
		},
	}
}

func pairByName(n string) *pairDef {
	for _, p := range allPairs() {
		if p.Name == n {
			q := p
			return &q
		}
	}
	return nil
}
