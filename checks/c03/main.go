// C03 — interrupted patch application resumes from any checkpoint, after any
// later crash, to the same result.
//
// Per configuration ({fresh, overlay bowl} x {rsync-only, optimized patch} x
// {none, gzip-6, brotli-1} x build pair) the harness performs a reference run
// (no saves) and a recording run (ShouldSave always true, Save -> continue) that
// snapshots the output and stage directories at every ShouldSave call and at
// every Save, and gob-encodes every checkpoint on the spot. It then enumerates
// checkpoint k x crash snapshot t x torn on-disk states, chains of repeated
// interruptions and save schedules; every resumption uses a brand-new patcher,
// pool and bowl and the gob-decoded checkpoint. Oracle: Resume returns nil (or
// ErrStop when asked to stop) and the final tree equals the reference run's.
package main

import (
	"fmt"
	"os"
	"strings"
	"time"

	"github.com/itchio/wharf/pwr/patcher"

	"verif/lib/runner"
	"verif/lib/wh"
)

type Sched struct {
	Mode string `json:"mode"` // only: true at call I | from: true from call I on | window: true on calls I..J
	I    int    `json:"i"`
	J    int    `json:"j,omitempty"`
	Stop bool   `json:"stop"` // every Save answers AfterSaveStop (then a brand-new patcher resumes); else continue
}

// Case identifies one execution completely: the configuration (from which the
// builds, the patch, the reference run and the recording run are recomputed),
// the checkpoint K (ordinal among the checkpoints offered to an always-saving
// consumer), the crash snapshot T (index into the recording's event timeline:
// one event per ShouldSave call, per Save and one at the end), the torn state
// of every file that is not left "as at T", and the chain / schedule.
type Case struct {
	Cfg    Config     `json:"cfg"`
	Kind   string     `json:"kind"` // record | crash | chain | sched
	K      int        `json:"k"`
	T      int        `json:"t"`
	TClass string     `json:"t_class,omitempty"`
	Torn   []TornFile `json:"torn,omitempty"`
	Stops  []int      `json:"stops,omitempty"` // chain: per leg, number of offered checkpoints let through before stopping
	Sched  *Sched     `json:"sched,omitempty"`
	Sig    string     `json:"sig,omitempty"` // patch length / ShouldSave calls / checkpoints of the recording that produced the case
}

func main() {
	runner.Main(runner.Config{
		ID:    "C03",
		Level: "fault_enumeration",
		Rule:  "per configuration {fresh,overlay bowl} x {rsync-only patch, optimized patch (bsdiff series, rediff partitions 2)} x {none,gzip-6,brotli-1} x build pair (>=1 MiB fresh data interleaved with reused blocks in >=2 files, whole-file copies, empty files, a deleted file; one pair >=4 MiB; quick: 8 of the 36 configurations): reference run without saves; recording run with an always-saving consumer (Save -> continue) that snapshots output+stage directories at every ShouldSave call, at every Save and after the last message, and gob-encodes each checkpoint on the spot. Enumerated: crash = every checkpoint k x crash snapshot t in {at the checkpoint, next message, next checkpoint, last call of the same file, first call of the next file, last call, after the last message} (thorough: also every other snapshot after k, as it is and with the file in progress cut in the middle of what was written since k) x torn states: every single differing file in {as at t, as at k / missing if created after k, truncated to {ckpt offset, +1, midpoint, written extent-1, len-1}, zero-filled after the ckpt offset} (reduced set for files other than the checkpointed one and the one in progress at t) plus the product of the reduced sets over those two files; chain = resume from k (crash at the checkpoint, at the next checkpoint, or one message later with the checkpointed file cut back), stop at the n-th offered checkpoint (n in {1,2} per leg), resume again, depth 3, then run to completion still saving; sched = from scratch with ShouldSave true only at call i / from call i on / on a window [i,j<=i+3], every Save continuing or every Save stopping (then a brand-new patcher resumes and the schedule goes on). Every resumption uses a brand-new patcher, pool and bowl and the gob-decoded checkpoint; oracle: nil error (ErrStop exactly when a Save asked to stop) and final tree (after Commit) byte-identical to the reference run's tree. Non-trivial: crash/chain = the crash snapshot precedes the end of the run or a file is torn (the resumed run has bytes to write); sched = at least one checkpoint was saved; recording = at least one checkpoint was offered.",
		Assumptions: []string{
			"crash model: file-granular; a file is as at the crash snapshot, as at the checkpoint, truncated, zero-filled after the checkpointed offset, or missing if created after the checkpoint; no reordering inside one write",
			"crashes during bowl.Commit are not enumerated (the statement speaks of checkpoints handed to the save consumer, which happens before Commit)",
			"block contents are seeded pseudo-random (VERIF_SEED)",
			"brotli: the number of checkpoints is reported; >=1 is required only on the >=4 MiB pair",
		},
		QuickBudget:    100 * time.Second,
		ThoroughBudget: 16 * time.Minute,
	}, body)
}

// ---------------------------------------------------------------------------

func configs(quick bool) []Config {
	if quick {
		return []Config{
			{"fresh", "rsync", "none", "p1", ""},
			{"overlay", "rsync", "gzip-6", "p1", ""},
			{"fresh", "rsync", "gzip-6", "p1", ""},
			{"overlay", "rsync", "none", "p1", ""},
			{"overlay", "bsdiff", "gzip-6", "p2", ""},
			{"fresh", "bsdiff", "none", "p2", ""},
			{"overlay", "rsync", "brotli-1", "p4m", ""},
			{"fresh", "bsdiff", "brotli-1", "p2", ""},
			// with a whitelist: skipped files in between must not disturb checkpoints
			{"fresh", "rsync", "none", "p1", "even"},
			{"fresh", "rsync", "gzip-6", "p1", "odd"},
			{"overlay", "bsdiff", "none", "p2", "odd"},
		}
	}
	var out []Config
	// series outermost: the costly bsdiff configurations spread evenly over the groups
	for _, series := range []string{"rsync", "bsdiff"} {
		for _, pd := range allPairs() {
			for _, comp := range []wh.Comp{"none", "gzip-6", "brotli-1"} {
				for _, b := range []string{"fresh", "overlay"} {
					out = append(out, Config{b, series, comp, pd.Name, ""})
				}
			}
		}
	}
	for _, wl := range []string{"even", "odd"} {
		for _, series := range []string{"rsync", "bsdiff"} {
			for _, comp := range []wh.Comp{"none", "gzip-6", "brotli-1"} {
				for _, b := range []string{"fresh", "overlay"} {
					pair := "p1"
					if series == "bsdiff" {
						pair = "p2"
					}
					out = append(out, Config{b, series, comp, pair, wl})
				}
			}
		}
	}
	return out
}

func body(w *runner.W) {
	e := newEnv(w)
	run := func(c Case, r *runner.Rec) { e.runCase(c, r) }
	recSub := runner.NewSub(w, "recording", run, runner.Journal())
	crashSub := runner.NewSub(w, "crash", run, runner.Journal())
	chainSub := runner.NewSub(w, "chain", run, runner.Journal())
	schedSub := runner.NewSub(w, "schedule", run, runner.Journal())
	subs := map[string]*runner.Sub[Case]{"record": recSub, "crash": crashSub, "chain": chainSub, "sched": schedSub}
	e.onHarn = func(kind, msg string) {
		fmt.Fprintf(os.Stderr, "harness error (%s): %s\n", kind, msg)
		if s := subs[kind]; s != nil {
			s.Skip("harness error: " + msg)
		}
	}
	active := true
	for _, s := range subs {
		if !s.Active() {
			active = false
		}
	}
	if !active {
		return
	}

	// Sharding: configurations are dealt to G groups of workers (a recording is
	// only computed by the workers of its group); the cases of a configuration are
	// dealt round-robin inside the group.
	n, idx := w.N(), w.Index()
	G := n / 4
	if G < 1 {
		G = 1
	}
	g, rank := idx%G, idx/G
	size := (n - g + G - 1) / G
	ord := map[string]int{}
	cfgs := configs(w.Quick())
	nCases := map[string]int{}
	for ci, cfg := range cfgs {
		if ci%G != g || w.Expired() {
			continue
		}
		rec := e.tryRecording(cfg)
		if rec == nil {
			continue
		}
		emit := func(c Case) {
			c.Cfg, c.Sig = cfg, rec.sig
			o := ord[c.Kind]
			ord[c.Kind]++
			nCases[c.Kind]++
			if o%size == rank {
				subs[c.Kind].DoOwned(c)
			}
		}
		emit(Case{Kind: "record"})
		if rec.refErr != nil || rec.runErr != nil {
			continue
		}
		recSub.Note("cfg "+cfg.String(), fmt.Sprintf("patch=%dB series=%d bsdiff_series=%d messages=%d shouldsave_calls=%d checkpoints=%d", len(rec.patch), rec.nSeries, rec.nBsdiff, rec.nMsgs, rec.calls, len(rec.ckpts)))
		enumCrash(rec, w.Quick(), emit)
		if !w.Quick() {
			enumCrashAll(rec, emit)
		}
		enumChain(rec, w.Quick(), emit)
		enumSched(rec, w.Quick(), emit)
		crashSub.Note("cases "+cfg.String(), fmt.Sprintf("crash=%d chain=%d sched=%d", nCases["crash"], nCases["chain"], nCases["sched"]))
		nCases = map[string]int{}
	}
	for _, s := range subs {
		s.Done()
	}
}

// tryRecording computes the recording of a configuration; a harness failure
// marks every sub-check skipped instead of raising an alarm.
func (e *env) tryRecording(cfg Config) (rec *recording) {
	defer func() {
		if x := recover(); x != nil {
			he, ok := x.(harnessErr)
			if !ok {
				panic(x)
			}
			for _, k := range []string{"record", "crash", "chain", "sched"} {
				e.onHarn(k, cfg.String()+": "+string(he))
			}
			rec = nil
		}
	}()
	return e.recording(cfg)
}

// ---------------------------------------------------------------------------
// enumeration

type tChoice struct {
	ev    int
	class string
}

// crashPoints lists the crash snapshots considered for checkpoint k.
func crashPoints(rec *recording, k int) []tChoice {
	ck := &rec.ckpts[k]
	var out []tChoice
	seen := map[int]bool{}
	add := func(ev int, class string) {
		if ev < ck.Ev || ev >= len(rec.events) || seen[ev] {
			return
		}
		seen[ev] = true
		out = append(out, tChoice{ev, class})
	}
	add(ck.Ev, "at-ckpt")
	for i := ck.Ev + 1; i < len(rec.events); i++ {
		if rec.events[i].Kind == "call" {
			add(i, "next-msg")
			break
		}
	}
	if k+1 < len(rec.ckpts) {
		add(rec.ckpts[k+1].Ev, "next-ckpt")
	}
	lastSame, nextFile, lastCall := -1, -1, -1
	for i := ck.Ev + 1; i < len(rec.events); i++ {
		ev := rec.events[i]
		if ev.Kind != "call" {
			continue
		}
		lastCall = i
		if ev.File == ck.File {
			lastSame = i
		} else if nextFile < 0 {
			nextFile = i
		}
	}
	add(lastSame, "file-last")
	add(nextFile, "next-file")
	add(lastCall, "last-call")
	add(len(rec.events)-1, "end")
	return out
}

func enumCrash(rec *recording, quick bool, emit func(Case)) {
	tag := physTag(rec.cfg)
	for k := range rec.ckpts {
		ck := &rec.ckpts[k]
		if ck.EncErr != nil || ck.DecErr != nil {
			continue // reported by the recording sub-check; nothing to resume from
		}
		atK := rec.events[ck.Ev].snap
		for _, tc := range crashPoints(rec, k) {
			if quick && (tc.class == "file-last" || tc.class == "last-call") {
				continue
			}
			atT := rec.events[tc.ev].snap
			base := Case{Kind: "crash", K: k, T: tc.ev, TClass: tc.class}
			emit(base)
			diff := differing(atK, atT, ck.PhysKey)
			if len(diff) == 0 {
				continue
			}
			// the two files whose product is taken: the checkpointed file (else the
			// first differing one) and the file in progress at t (else the next one)
			f0, f1 := diff[0], ""
			if len(diff) > 1 {
				f1 = diff[1]
				if ip := tag + "/" + rec.events[tc.ev].File; ip != f0 {
					for _, f := range diff[1:] {
						if f == ip {
							f1 = f
						}
					}
				}
			}
			lvMain, lvOther, lvProd := 0, 1, 1
			if quick {
				lvMain, lvOther, lvProd = 1, 2, 2
			}
			// every single-file deviation
			for _, f := range diff {
				lv := lvOther
				if f == f0 || f == f1 {
					lv = lvMain
				}
				for _, st := range tornStates(f, atK, atT, ck, lv) {
					c := base
					c.Torn = []TornFile{st}
					emit(c)
				}
			}
			if f1 == "" {
				continue
			}
			for _, s0 := range tornStates(f0, atK, atT, ck, lvProd) {
				for _, s1 := range tornStates(f1, atK, atT, ck, lvProd) {
					c := base
					c.Torn = []TornFile{s0, s1}
					emit(c)
				}
			}
		}
	}
}

// enumCrashAll (thorough only) adds every remaining event t after checkpoint k
// as a crash snapshot: as it is, and with the file in progress at t cut to the
// middle of what was written to it since the checkpoint (a crash in the middle
// of a message).
func enumCrashAll(rec *recording, emit func(Case)) {
	tag := physTag(rec.cfg)
	for k := range rec.ckpts {
		ck := &rec.ckpts[k]
		if ck.EncErr != nil || ck.DecErr != nil {
			continue
		}
		atK := rec.events[ck.Ev].snap
		done := map[int]bool{}
		for _, tc := range crashPoints(rec, k) {
			done[tc.ev] = true
		}
		for t := ck.Ev + 1; t < len(rec.events); t++ {
			if done[t] {
				continue
			}
			atT := rec.events[t].snap
			base := Case{Kind: "crash", K: k, T: t, TClass: "any"}
			emit(base)
			ip := tag + "/" + rec.events[t].File
			for _, f := range differing(atK, atT, ck.PhysKey) {
				if f != ip {
					continue
				}
				for _, st := range tornStates(f, atK, atT, ck, 0) {
					if st.State == "trunc" && st.N > st0(f, ck)+1 && st.N < int64(len(atT[f].data))-1 {
						c := base
						c.Torn = []TornFile{st}
						emit(c)
						break
					}
				}
			}
		}
	}
}

// st0 is the checkpointed offset of the file (0 unless the checkpointed writer appends to it).
func st0(key string, ck *ckRec) int64 {
	if key == ck.PhysKey {
		return ck.PhysOff
	}
	return 0
}

func enumChain(rec *recording, quick bool, emit func(Case)) {
	stopSets := [][]int{{0, 0, 0}, {1, 0, 1}, {0, 1, 0}, {1, 1, 1}}
	for k := range rec.ckpts {
		ck := &rec.ckpts[k]
		if ck.EncErr != nil || ck.DecErr != nil {
			continue
		}
		atK := rec.events[ck.Ev].snap
		for _, tc := range crashPoints(rec, k) {
			if tc.class != "at-ckpt" && tc.class != "next-ckpt" && tc.class != "next-msg" {
				continue
			}
			var torn [][]TornFile
			torn = append(torn, nil)
			if tc.class == "next-msg" {
				// crash one message later with the checkpointed file cut back to the checkpoint
				atT := rec.events[tc.ev].snap
				diff := differing(atK, atT, ck.PhysKey)
				torn = nil
				if len(diff) > 0 && diff[0] == ck.PhysKey && int64(len(atT[diff[0]].data)) > ck.PhysOff {
					torn = append(torn, []TornFile{{File: diff[0], State: "trunc", N: ck.PhysOff, Role: "inprog"}})
				}
			}
			for _, tn := range torn {
				for si, st := range stopSets {
					if (tc.class != "at-ckpt" || quick) && si > 1 {
						continue
					}
					if quick && tc.class != "at-ckpt" && si > 0 {
						continue
					}
					emit(Case{Kind: "chain", K: k, T: tc.ev, TClass: tc.class, Torn: tn, Stops: st})
				}
			}
		}
	}
}

func enumSched(rec *recording, quick bool, emit func(Case)) {
	n := rec.calls
	step := 1
	if quick && n > 24 {
		step = 2
	}
	for i := 0; i < n; i += step {
		emit(Case{Kind: "sched", Sched: &Sched{Mode: "only", I: i}})
		for _, stop := range []bool{false, true} {
			emit(Case{Kind: "sched", Sched: &Sched{Mode: "from", I: i, Stop: stop}})
			for j := i + 1; j <= i+3 && j < n; j++ {
				if quick && j != i+1 && j != i+3 {
					continue
				}
				emit(Case{Kind: "sched", Sched: &Sched{Mode: "window", I: i, J: j, Stop: stop}})
			}
		}
	}
}

// ---------------------------------------------------------------------------
// case bodies

func (e *env) runCase(c Case, r *runner.Rec) {
	defer func() {
		if x := recover(); x != nil {
			he, ok := x.(harnessErr)
			if !ok {
				panic(x)
			}
			r.Outcome("harness-error")
			e.onHarn(c.Kind, string(he))
		}
	}()
	rec := e.recording(c.Cfg)
	if c.Sig != "" && rec.sig != "" && c.Sig != rec.sig {
		fmt.Fprintf(os.Stderr, "note: the recording run of %s now has signature %s, the case was produced from %s\n", c.Cfg, rec.sig, c.Sig)
	}
	switch c.Kind {
	case "record":
		e.caseRecord(c, rec, r)
	case "crash", "chain":
		e.caseCrash(c, rec, r)
	case "sched":
		e.caseSched(c, rec, r)
	default:
		panic(harnessErr("unknown case kind " + c.Kind))
	}
}

func (e *env) caseRecord(c Case, rec *recording, r *runner.Rec) {
	cfg := c.Cfg
	if rec.panicSite != "" {
		r.Failf("panic:"+rec.panicSite, "panic during the reference / always-saving run of %s: %s\n%s", cfg, rec.panicMsg, rec.panicStack)
		return
	}
	if rec.refErr != nil {
		r.Failf("reference-run-error:"+cfg.Bowl+":"+cfg.Series+":"+cfg.algo()+":"+errClass(rec.refErr), "uninterrupted application without saves failed: %v", rec.refErr)
		return
	}
	if rec.runErr != nil {
		r.Failf("always-saving-run-error:"+cfg.Bowl+":"+cfg.Series+":"+cfg.algo()+":"+errClass(rec.runErr), "application with an always-saving consumer (Save -> continue) failed: %v", rec.runErr)
		return
	}
	if len(rec.runDiff) > 0 {
		r.Failf("always-saving-run-tree-mismatch:"+cfg.Bowl+":"+cfg.Series+":"+cfg.algo(), "application with an always-saving consumer differs from the reference run: %s", strings.Join(rec.runDiff, "; "))
	}
	for k, ck := range rec.ckpts {
		if ck.EncErr != nil {
			r.Failf("gob-encode-error:"+cfg.Bowl+":"+errClass(ck.EncErr), "checkpoint %d (ShouldSave call %d, file %q): gob encode: %v", k, ck.Call, ck.File, ck.EncErr)
			break
		}
		if ck.DecErr != nil {
			r.Failf("gob-decode-error:"+cfg.Bowl+":"+errClass(ck.DecErr), "checkpoint %d (ShouldSave call %d, file %q): gob decode: %v", k, ck.Call, ck.File, ck.DecErr)
			break
		}
	}
	pd := pairByName(cfg.Pair)
	switch cfg.algo() {
	case "none", "gzip":
		if len(rec.ckpts) == 0 {
			r.Failf("no-checkpoint-offered:"+cfg.algo()+":"+cfg.Series, "always-saving consumer was asked %d times but never given a checkpoint (patch %d bytes)", rec.calls, len(rec.patch))
		}
	default:
		if pd.Big && len(rec.ckpts) == 0 {
			r.Failf("no-checkpoint-offered:"+cfg.algo()+":"+cfg.Series+":big-pair", "always-saving consumer was asked %d times but never given a checkpoint on the >=4MiB pair (patch %d bytes)", rec.calls, len(rec.patch))
		}
	}
	if len(rec.ckpts) > 0 {
		r.Nontrivial()
	}
	r.Trans(rec.calls)
	r.Outcome(fmt.Sprintf("%s checkpoints>0=%v", cfg.algo(), len(rec.ckpts) > 0))
}

// prepare materializes crash snapshot T with the torn states applied.
func (e *env) prepare(c Case, rec *recording, base string) (dirs, error) {
	d := dirs{out: base + "/out"}
	if c.Cfg.Bowl == "overlay" {
		d.stage = base + "/stage"
	}
	if err := rec.events[c.T].snap.materialize(d); err != nil {
		return d, err
	}
	atK := rec.events[rec.ckpts[c.K].Ev].snap
	for _, tf := range c.Torn {
		if err := applyTorn(d, tf, atK); err != nil {
			return d, err
		}
	}
	return d, nil
}

func (e *env) caseCrash(c Case, rec *recording, r *runner.Rec) {
	cfg := c.Cfg
	if rec.refErr != nil || rec.runErr != nil || c.K >= len(rec.ckpts) || c.T >= len(rec.events) || c.T < rec.ckpts[min(c.K, len(rec.ckpts)-1)].Ev {
		fmt.Fprintf(os.Stderr, "note: case does not exist in the recomputed recording of %s (sig %s)\n", cfg, rec.sig)
		r.Outcome("case-not-in-recording")
		return
	}
	ck := &rec.ckpts[c.K]
	base := e.tmp()
	defer os.RemoveAll(base)
	d, err := e.prepare(c, rec, base)
	if err != nil {
		panic(harnessErr(fmt.Sprintf("preparing crash state: %v", err)))
	}
	if c.T != len(rec.events)-1 || len(c.Torn) > 0 {
		r.Nontrivial()
	}
	fpHead := cfg.Bowl + ":" + cfg.Series + ":" + cfg.algo()
	fpTail := fpHead + ":" + c.Kind + ":" + tornClass(c.Torn)
	ckGob := ck.Gob
	calls, legs := 0, 0
	for li := 0; li <= len(c.Stops); li++ {
		var sc patcher.SaveConsumer
		var next []byte
		var encErr error
		if li < len(c.Stops) {
			pass := c.Stops[li]
			offered := 0
			sc = &funcConsumer{
				should: func() bool { calls++; return true },
				save: func(ck *patcher.Checkpoint) (patcher.AfterSaveAction, error) {
					offered++
					if offered <= pass {
						return patcher.AfterSaveContinue, nil
					}
					next, encErr = encodeCk(ck)
					return patcher.AfterSaveStop, nil
				},
			}
		} else if c.Kind == "chain" {
			// last leg of a chain: keep saving, never stop
			sc = &funcConsumer{
				should: func() bool { calls++; return true },
				save: func(ck *patcher.Checkpoint) (patcher.AfterSaveAction, error) {
					return patcher.AfterSaveContinue, nil
				},
			}
		}
		legs++
		phase, err := leg(cfg, rec.patch, rec.oldDir, d, ckGob, sc)
		if phase == "stopped" {
			if encErr != nil {
				r.Failf("gob-encode-error:"+cfg.Bowl+":"+errClass(encErr), "leg %d: checkpoint handed to Save could not be gob-encoded: %v", li, encErr)
				return
			}
			if next == nil {
				r.Failf("stop-without-checkpoint:"+fpTail, "leg %d returned ErrStop although Save never asked to stop", li)
				return
			}
			ckGob = next
			continue
		}
		if err != nil {
			r.Failf("resume-error:"+fpHead+":"+phase+":"+errClass(err), "leg %d (%s) of resuming checkpoint %d (call %d, file %q, new-file offset %d, on-disk offset %d in %s) on crash snapshot %d (%s): %v", li, phase, c.K, ck.Call, ck.File, ck.SrcOff, ck.PhysOff, ck.PhysKey, c.T, c.TClass, err)
			return
		}
		break // completed
	}
	r.Trans(calls + legs)
	r.Outcome(fmt.Sprintf("%s %s %s legs=%d", c.Kind, c.TClass, tornClass(c.Torn), legs))
	if df := compareTree(d.out, rec.refTree); len(df) > 0 {
		r.Failf("tree-mismatch:"+fpTail, "resuming checkpoint %d (call %d, file %q, new-file offset %d, on-disk offset %d in %s) on crash snapshot %d (%s) completed without error but the tree differs from the uninterrupted run: %s", c.K, ck.Call, ck.File, ck.SrcOff, ck.PhysOff, ck.PhysKey, c.T, c.TClass, strings.Join(df, "; "))
	}
}

func (e *env) caseSched(c Case, rec *recording, r *runner.Rec) {
	cfg := c.Cfg
	if rec.refErr != nil || c.Sched == nil {
		r.Outcome("case-not-in-recording")
		return
	}
	sd := c.Sched
	base := e.tmp()
	defer os.RemoveAll(base)
	d, err := startDirs(cfg, rec.oldDir, base)
	if err != nil {
		panic(harnessErr(err.Error()))
	}
	fpTail := cfg.Bowl + ":" + cfg.Series + ":" + cfg.algo() + ":sched-" + sd.Mode + fmt.Sprintf(":stop=%v", sd.Stop)
	call := 0 // global over all legs
	saves, legs := 0, 0
	var ckGob []byte
	maxLegs := 10*rec.calls + 20
	for {
		var next []byte
		var encErr error
		sc := &funcConsumer{
			should: func() bool {
				i := call
				call++
				switch sd.Mode {
				case "only":
					return i == sd.I
				case "from":
					return i >= sd.I
				default:
					return i >= sd.I && i <= sd.J
				}
			},
			save: func(ck *patcher.Checkpoint) (patcher.AfterSaveAction, error) {
				saves++
				next, encErr = encodeCk(ck)
				if encErr == nil {
					_, encErr = decodeCk(next)
				}
				if sd.Stop {
					return patcher.AfterSaveStop, nil
				}
				return patcher.AfterSaveContinue, nil
			},
		}
		legs++
		phase, err := leg(cfg, rec.patch, rec.oldDir, d, ckGob, sc)
		if encErr != nil {
			r.Failf("gob-roundtrip-error:"+cfg.Bowl+":"+errClass(encErr), "checkpoint %d of the schedule could not be gob round-tripped: %v", saves, encErr)
			return
		}
		if phase == "stopped" {
			if !sd.Stop || next == nil {
				r.Failf("stop-without-checkpoint:"+fpTail, "leg %d returned ErrStop although Save did not ask to stop", legs)
				return
			}
			ckGob = next
			if legs > maxLegs {
				r.Failf("schedule-no-progress:"+fpTail, "%d legs without completing (uninterrupted run has %d ShouldSave calls)", legs, rec.calls)
				return
			}
			continue
		}
		if err != nil {
			r.Failf("resume-error:"+cfg.Bowl+":"+cfg.Series+":"+cfg.algo()+":"+phase+":"+errClass(err), "leg %d (%s) after %d saves, %d ShouldSave calls: %v", legs, phase, saves, call, err)
			return
		}
		break
	}
	if saves > 0 {
		r.Nontrivial()
	}
	r.Trans(call + legs)
	r.Outcome(fmt.Sprintf("sched %s stop=%v saves>0=%v resumed=%v", sd.Mode, sd.Stop, saves > 0, legs > 1))
	if df := compareTree(d.out, rec.refTree); len(df) > 0 {
		r.Failf("tree-mismatch:"+fpTail, "schedule %+v (%d saves, %d legs) completed without error but the tree differs from the uninterrupted run: %s", *sd, saves, legs, strings.Join(df, "; "))
	}
}
