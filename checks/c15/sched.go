//go:build vsched

package main

import (
	"fmt"
	"os"
	"time"

	"github.com/itchio/wharf/zzverif/vsched"

	"verif/lib/runner"
)

func init() { schedSubs = schedBody }

func schedBody(w *runner.W) {
	left := 0
	for i, sc := range scenarios(w.Quick()) {
		if heavy(sc) || w.Owns(i) {
			left++
		}
	}
	var sub *runner.Sub[Scenario]
	sub = runner.NewSub(w, "interleavings", func(sc Scenario, r *runner.Rec) {
		p, err := prepare(sc, w.Scratch(), w.Seed)
		if err != nil {
			panic(err)
		}
		defer p.cleanup()
		vsched.SetCapOverride(sc.Cap)
		defer vsched.SetCapOverride(0)
		var got string
		var gotErr error
		choose := func(n int, label string) int { return vsched.Choose(n, label, 1) }
		bodyFn := func() {
			got, gotErr = "", nil
			got, gotErr = p.run(choose)
		}
		opts := vsched.Options{PreemptionBound: sc.Bound, StepBudget: 50000, MapOrderCost: 0}
		// reference: the default schedule
		ref := vsched.RunOnce(opts, nil, bodyFn)
		if ref.Kind != "done" || gotErr != nil {
			r.Failf("default-schedule:"+sc.Kind+":"+ref.Kind, "default schedule does not complete: %s %s err=%v", ref.Kind, ref.Detail, gotErr)
			return
		}
		want := got
		judge := func(out vsched.Result) (string, string) {
			switch out.Kind {
			case "done":
			case "deadlock":
				return "deadlock:" + sc.Kind, "deadlock with parked goroutines [" + out.Detail + "]"
			case "step-budget":
				return "livelock:" + sc.Kind, out.Detail
			case "panic":
				return "panic:" + runner.PanicSite(out.Detail), out.Detail
			default:
				return "harness:" + out.Kind, out.Detail
			}
			if gotErr != nil {
				return "error:" + sc.Kind, fmt.Sprintf("body failed under this schedule: %v", gotErr)
			}
			if got != want {
				return "nondeterministic:" + sc.Kind, fmt.Sprintf("output digest %s differs from the default schedule's %s", got, want)
			}
			return "", ""
		}
		if sc.Schedule != nil {
			out := vsched.RunOnce(opts, sc.Schedule, bodyFn)
			if fp, msg := judge(out); fp != "" {
				r.Failf(fp, "%s", msg)
			}
			return
		}
		opts.Deadline = w.Deadline()
		split := heavy(sc)
		if split {
			opts.ShardIdx, opts.ShardN = w.Index(), w.N()
		}
		reported := map[string]bool{}
		checkFn := func(out vsched.Result) bool {
			if fp, msg := judge(out); fp != "" && !reported[fp] {
				reported[fp] = true
				again := vsched.RunOnce(vsched.Options{PreemptionBound: sc.Bound, StepBudget: 50000}, out.Choices, bodyFn)
				if fp2, _ := judge(again); fp2 != fp {
					r.Failf("nondeterministic:uncontrolled", "the same schedule %v gave %q then %q: nondeterminism outside the scheduler's control (data race, map order, time)", out.Choices, fp, fp2)
					return false
				}
				c := sc
				c.Schedule = append([]int{}, out.Choices...)
				sub.Report(c, fp, "%s; schedule=%v", msg, out.Choices)
			}
			return true
		}
		var st vsched.Stats
		completed := sc.Bound
		if w.Quick() {
			st = vsched.Explore(opts, bodyFn, checkFn)
		} else {
			// thorough: iterative context bounding inside a time slice
			left--
			opts.Deadline = sliceDeadline(w.Deadline(), left+1)
			var unb bool
			st, completed, unb = vsched.ExploreIterative(opts, 0, sc.Bound, bodyFn, checkFn)
			if unb {
				completed = 99
			}
		}
		if !w.Quick() {
			sub.MinNote("bound_completed:"+fmt.Sprintf("%s/%s%s/p%d/cap%d/%dfiles/slicing=%v/bigsig=%d", sc.Kind, sc.OldS, sc.Comp, sc.Partitions, sc.Cap, len(sc.New), sc.Slicing, sc.BigSig), completed)
			if !st.Complete {
				sub.Incomplete("some scenarios ended below their target bound, see bound_completed notes")
			}
		}
		if os.Getenv("VERIF_DEBUG") != "" {
			fmt.Fprintf(os.Stderr, "scenario %+v: %+v\n", sc, st)
		}
		if st.HarnessError != "" {
			r.Failf("harness:explore", "%s", st.HarnessError)
		}
		sub.Count(int64(st.Executions), int64(st.States), int64(st.Transitions))
		first := !split || w.Index() == 0
		if st.MaxGoroutines >= 3 && first {
			r.Nontrivial()
		}
		r.Outcome(fmt.Sprintf("%s/maxg=%d", sc.Kind, st.MaxGoroutines))
		sub.AddNote("executions", st.Executions)
		sub.AddNote("pruned_by_hb_cache", st.Pruned)
		sub.AddNote("alternatives_skipped_by_lookahead", st.Skipped)
		sub.MaxNote("max_goroutines", st.MaxGoroutines)
		sub.MaxNote("max_preemptions_used", st.MaxPreempts)
		sub.MaxNote("max_choice_depth", st.MaxDepth)
		if first {
			if st.Complete {
				sub.AddNote(fmt.Sprintf("scenarios_complete_bound_%d", sc.Bound), 1)
			} else {
				sub.AddNote("scenarios_cut_by_deadline", 1)
				sub.Note(fmt.Sprintf("cut:%s/%s%s/p%d/b%d/%d files", sc.Kind, sc.OldS, sc.Comp, sc.Partitions, sc.Bound, len(sc.New)), st.Executions)
			}
		} else if !st.Complete {
			sub.AddNote("shards_cut_by_deadline", 1)
		}
		if st.MaxGoroutines < 2 {
			// not an error of anybody: the code may have been restructured so that this scenario
			// has nothing to interleave any more; the evidence says so
			sub.AddNote("scenarios_without_concurrency", 1)
			sub.Incomplete("a scenario never had two goroutines alive at once: nothing to interleave there")
		}
	}, runner.Variant("sched"))
	if sub.Active() {
		scs := scenarios(w.Quick())
		for _, sc := range scs {
			if heavy(sc) {
				sub.DoOwned(sc)
			}
		}
		for _, sc := range scs {
			if !heavy(sc) {
				sub.Do(sc)
			}
		}
		sub.Done()
	}
}

func heavy(sc Scenario) bool { return sc.Bound >= 2 || sc.Kind == "rediff" && sc.Bound >= 1 }

// sliceDeadline gives one of n remaining scenarios its share of the time left.
func sliceDeadline(global time.Time, n int) time.Time {
	if global.IsZero() {
		return global
	}
	if n < 1 {
		n = 1
	}
	return time.Now().Add(time.Until(global) / time.Duration(n))
}
