// C15 — diffing is deterministic and free of data races.
//
//	variant "sched": the real WritePatch / rediff.Optimize / bsdiff.Do run under the
//	                 controlled scheduler; every interleaving (bounded), every select
//	                 and map-iteration choice and the source reader's short reads are
//	                 enumerated; output bytes must equal the default schedule's.
//	variant "race":  the same bodies free-running under the Go race detector with
//	                 GOMAXPROCS 1,2,4,16 (a detector pass, reported separately).
//	plain build:     free-running repetition, outputs compared (cross-check).
package main

import (
	"bufio"
	"bytes"
	"context"
	"crypto/sha256"
	"encoding/hex"
	"fmt"
	"io"
	"os"
	"path/filepath"
	"runtime"
	"sort"
	"strings"
	"time"

	"github.com/itchio/lake"
	"github.com/itchio/lake/pools/fspool"
	"github.com/itchio/lake/tlc"
	"github.com/itchio/savior/seeksource"
	"github.com/itchio/wharf/bsdiff"
	"github.com/itchio/wharf/pwr"
	"github.com/itchio/wharf/pwr/rediff"
	"github.com/itchio/wharf/wsync"

	"github.com/golang/protobuf/proto"

	"verif/lib/runner"
	"verif/lib/wh"
)

// Scenario describes one body. Kind: "diff" (WritePatch), "rediff" (Optimize),
// "bsdiff" (bsdiff.Do on two small strings).
type Scenario struct {
	Kind       string   `json:"kind"`
	Old        wh.Build `json:"old,omitempty"`
	New        wh.Build `json:"new,omitempty"`
	Comp       wh.Comp  `json:"comp,omitempty"`
	Slicing    bool     `json:"slicing,omitempty"` // source reader answers are choice points
	OldS       string   `json:"olds,omitempty"`    // bsdiff: old string
	NewS       string   `json:"news,omitempty"`    // bsdiff: new string
	OldSpec    string   `json:"oldspec,omitempty"` // bsdiff: old content spec (large inputs)
	NewSpec    string   `json:"newspec,omitempty"`
	FailAt     int      `json:"failat,omitempty"`   // diff: the source reader fails at its FailAt-th Read call (1-based)
	ReadCaps   []int    `json:"readcaps,omitempty"` // diff, free-running passes: the scenario is also run with every source read capped at each of these sizes; all outputs must agree
	BigSig     int      `json:"bigsig,omitempty"`   // diff: synthetic old signature of this many blocks (contents A,B,C repeating)
	Cap        int      `json:"cap,omitempty"`      // scheduler variant: capacity replacing the scanner's 256-slot channels
	Partitions int      `json:"partitions,omitempty"`
	Conc       int      `json:"conc,omitempty"`
	Bound      int      `json:"bound"`
	Schedule   []int    `json:"schedule,omitempty"`
}

// chooser lets the source pool ask for a read size; nil = full reads.
type chooser func(n int, label string) int

type slicingPool struct {
	lake.Pool
	capN   int
	choose chooser
	failAt int
	reads  int
}

type slicingReader struct {
	r      io.Reader
	capN   int
	br     *bufio.Reader
	choose chooser
	failAt int
	reads  *int
}

var errInjected = fmt.Errorf("injected read error")

func (s *slicingReader) Read(p []byte) (int, error) {
	if s.failAt > 0 {
		*s.reads++
		if *s.reads >= s.failAt {
			return 0, errInjected
		}
	}
	if s.choose != nil && len(p) > 1 {
		switch s.choose(3, "read-size") {
		case 1:
			p = p[:1]
		case 2:
			if len(p) > 16383 {
				p = p[:16383]
			}
		}
	}
	if s.capN > 0 && len(p) > s.capN {
		p = p[:s.capN]
	}
	if s.choose == nil {
		return s.r.Read(p)
	}
	if s.br == nil {
		s.br = bufio.NewReaderSize(s.r, 64*1024)
	}
	n, err := s.br.Read(p)
	if err == nil && n > 0 {
		// the read that delivers the last bytes may report the end at once
		if _, perr := s.br.Peek(1); perr == io.EOF && s.choose(2, "eof-with-data") == 1 {
			err = io.EOF
		}
	}
	return n, err
}

func (s *slicingPool) GetReader(i int64) (io.Reader, error) {
	r, err := s.Pool.GetReader(i)
	if err != nil {
		return nil, err
	}
	return &slicingReader{r: r, capN: s.capN, choose: s.choose, failAt: s.failAt, reads: &s.reads}, nil
}

// prepared is a materialised scenario.
type prepared struct {
	readCap        int // free-running passes: cap on every source read of this run
	seed           int64
	sc             Scenario
	oldDir, newDir string
	patch          []byte // rediff input
	dr             *wh.DiffResult
}

func prepare(sc Scenario, scratch string, seed int64) (*prepared, error) {
	p := &prepared{sc: sc, seed: seed}
	if sc.Kind == "bsdiff" {
		return p, nil
	}
	root, err := os.MkdirTemp(scratch, "sc")
	if err != nil {
		return nil, err
	}
	p.oldDir, p.newDir = filepath.Join(root, "old"), filepath.Join(root, "new")
	if err := sc.Old.Materialize(p.oldDir, seed); err != nil {
		return nil, err
	}
	if err := sc.New.Materialize(p.newDir, seed); err != nil {
		return nil, err
	}
	dr, err := wh.Diff(p.oldDir, p.newDir, "none")
	if err != nil {
		return nil, err
	}
	p.dr = dr
	p.patch = dr.Patch
	if sc.BigSig > 0 {
		// a large old build exists only as its signature (the differ never reads old
		// files): one file of BigSig blocks whose contents repeat A,B,C, so every block
		// content occurs hundreds of times across the signature
		sctx := wsync.NewContext(wh.B)
		var protos []wsync.BlockHash
		for _, l := range []string{"A", "B", "C"} {
			weak, strong := sctx.HashBlock(wh.Content(l, seed))
			protos = append(protos, wsync.BlockHash{WeakHash: weak, StrongHash: strong})
		}
		var hashes []wsync.BlockHash
		for i := 0; i < sc.BigSig; i++ {
			h := protos[i%3]
			h.FileIndex, h.BlockIndex = 0, int64(i)
			hashes = append(hashes, h)
		}
		size := int64(sc.BigSig) * wh.B
		dr.Old = &tlc.Container{Size: size, Files: []*tlc.File{{Path: "big-old-file", Mode: 0o644, Size: size}}}
		dr.OldHashes = hashes
	}
	return p, nil
}

func (p *prepared) cleanup() {
	if p.oldDir != "" {
		os.RemoveAll(filepath.Dir(p.oldDir))
	}
}

// run executes the scenario's body once and returns a digest of everything observable.
func (p *prepared) run(choose chooser) (string, error) {
	sc := p.sc
	switch sc.Kind {
	case "diff":
		var pool lake.Pool = fspool.New(p.dr.New, p.newDir)
		if sc.Slicing || sc.FailAt > 0 || p.readCap > 0 {
			sp := &slicingPool{Pool: pool, failAt: sc.FailAt, capN: p.readCap}
			if sc.Slicing {
				sp.choose = choose
			}
			pool = sp
		}
		dctx := &pwr.DiffContext{
			Compression:     sc.Comp.Settings(),
			Consumer:        wh.Quiet(),
			SourceContainer: p.dr.New,
			Pool:            pool,
			TargetContainer: p.dr.Old,
			TargetSignature: p.dr.OldHashes,
		}
		var patch, sig bytes.Buffer
		if err := dctx.WritePatch(context.Background(), &patch, &sig); err != nil {
			if sc.FailAt > 0 {
				// with a failing source the one thing every schedule must agree on is that
				// the diff fails (which task reports first, and how much was written before,
				// legitimately varies)
				return "failed-as-it-must", nil
			}
			return "", err
		}
		if sc.FailAt > 0 {
			return "returned-nil-despite-read-error", nil
		}
		return digest(patch.Bytes(), sig.Bytes(), []byte(fmt.Sprintf("%d/%d", dctx.FreshBytes, dctx.ReusedBytes))), nil
	case "rediff":
		rstats := &bsdiff.DiffStats{}
		rc, err := rediff.NewContext(rediff.Params{
			PatchReader:           seeksource.FromBytes(p.patch),
			Consumer:              wh.Quiet(),
			Compression:           sc.Comp.Settings(),
			SuffixSortConcurrency: sc.Conc,
			Partitions:            sc.Partitions,
			BsdiffStats:           rstats,
		})
		if err != nil {
			return "", err
		}
		var out bytes.Buffer
		err = rc.Optimize(rediff.OptimizeParams{
			TargetPool:  fspool.New(rc.GetTargetContainer(), p.oldDir),
			SourcePool:  fspool.New(rc.GetSourceContainer(), p.newDir),
			PatchWriter: &out,
		})
		if err != nil {
			return "", err
		}
		var ms []string
		for k, v := range rc.GetDiffMappings() {
			ms = append(ms, fmt.Sprintf("%d<-%d/%d", k, v.TargetIndex, v.NumBytes))
		}
		sort.Strings(ms)
		return digest(out.Bytes(), []byte(strings.Join(ms, ",")), []byte(fmt.Sprintf("biggest-add=%d", rstats.BiggestAdd))), nil
	case "bsdiff":
		// statistics are asked for: they are shared state of the scan pipeline too, and the
		// one deterministic figure among them belongs to the output
		stats := &bsdiff.DiffStats{}
		bdc := &bsdiff.DiffContext{Partitions: sc.Partitions, SuffixSortConcurrency: sc.Conc, Stats: stats}
		var msgs bytes.Buffer
		oldB, newB := []byte(sc.OldS), []byte(sc.NewS)
		if sc.OldSpec != "" {
			oldB, newB = wh.Content(sc.OldSpec, p.seed), wh.Content(sc.NewSpec, p.seed)
		}
		err := bdc.Do(bytes.NewReader(oldB), bytes.NewReader(newB), func(m proto.Message) error {
			b, err := proto.Marshal(m)
			if err != nil {
				return err
			}
			fmt.Fprintf(&msgs, "%d:", len(b))
			msgs.Write(b)
			return nil
		}, wh.Quiet())
		if err != nil {
			return "", err
		}
		return digest(msgs.Bytes(), []byte(fmt.Sprintf("biggest-add=%d", stats.BiggestAdd))), nil
	}
	return "", fmt.Errorf("bad kind %q", sc.Kind)
}

func digest(parts ...[]byte) string {
	h := sha256.New()
	for _, p := range parts {
		fmt.Fprintf(h, "%d|", len(p))
		h.Write(p)
	}
	return hex.EncodeToString(h.Sum(nil)[:12])
}

// largeScenarios are only run free (plain and race builds): outputs must not depend on
// the number of CPUs. The scanner only splits inputs above 128KiB per block.
func largeScenarios() []Scenario {
	multiOld := wh.Build{wh.F("a", "A.B.C.D.E.=x"), wh.F("b", "F.G/100")}
	multiNew := wh.Build{wh.F("a", "A.B.r3/70000.D.E.H.=tail"), wh.F("b", "F.G/100"), wh.F("c", "r4/200000")}
	return []Scenario{
		// several blocks per file, every source read cut short (the differ's consumers read
		// whole 64KiB blocks, the reader goroutine copies in 16KiB pieces: the caps make
		// pieces and blocks misalign in every phase)
		{Kind: "diff", Old: multiOld, New: multiNew, Comp: "none", ReadCaps: []int{16383, 10000, 4093, 5000, 17}},
		{Kind: "bsdiff", OldSpec: "r1/1600000", NewSpec: "r1/700000.=EDIT.r1/900000.r2/5000", Partitions: 2},
		{Kind: "bsdiff", OldSpec: "r1/1200000", NewSpec: "r1/1200000.=tail", Partitions: 0},
	}
}

func scenarios(quick bool) []Scenario {
	var out []Scenario
	b := func(q, t int) int {
		if quick {
			return q
		}
		return t
	}
	// --- WritePatch
	one := wh.Build{wh.F("a", "=hello world")}
	oneOld := wh.Build{wh.F("a", "=hello there")}
	two := wh.Build{wh.F("a", "=same content"), wh.F("b", "=edited!!"), wh.F("e", "")}
	twoOld := wh.Build{wh.F("a", "=same content"), wh.F("b", "=edited?")}
	blk := wh.Build{wh.F("a", "A.=tail")}
	blkOld := wh.Build{wh.F("a", "A.=tali")}
	for _, comp := range []wh.Comp{"none", "gzip-1"} {
		out = append(out,
			Scenario{Kind: "diff", Old: oneOld, New: one, Comp: comp, Bound: b(3, -1)},
			Scenario{Kind: "diff", Old: oneOld, New: one, Comp: comp, Slicing: true, Bound: b(2, 3)},
			Scenario{Kind: "diff", Old: twoOld, New: two, Comp: comp, Bound: b(1, 2)},
			Scenario{Kind: "diff", Old: blkOld, New: blk, Comp: comp, Bound: b(2, 3)},
		)
	}
	out = append(out, Scenario{Kind: "diff", Old: blkOld, New: blk, Comp: "none", Slicing: true, Bound: b(1, 2)})
	// a source reader that fails: whatever the schedule, the diff must not come out as a success
	out = append(out,
		Scenario{Kind: "diff", Old: oneOld, New: one, Comp: "none", FailAt: 1, Bound: b(3, -1)},
		Scenario{Kind: "diff", Old: twoOld, New: two, Comp: "none", FailAt: 2, Bound: b(2, 3)},
		Scenario{Kind: "diff", Old: blkOld, New: blk, Comp: "none", FailAt: 3, Bound: b(2, 3)},
	)
	// a large old signature with heavily duplicated block contents, new file at another path:
	// which of the equal old blocks a range names must not depend on any schedule
	out = append(out, Scenario{Kind: "diff", Old: wh.Build{}, New: wh.Build{wh.F("n", "C.A.B.=t")}, Comp: "none", BigSig: 2100, Bound: b(1, 2)})
	// --- bsdiff scanner: 2-4 workers, 2-7 blocks
	for _, c := range []struct {
		o, n   string
		p      int
		bq, bt int
	}{{"abcabcabc", "abcabd", 2, 1, 2}, {"aaaaaaaa", "aaabaaa", 2, 1, 2}, {"xyzxyz", "xyzxy", 2, 1, 2},
		{"abcdefgh", "abx", 3, 0, 1}, {"abcdefghij", "abcx", 4, -9, 0}} {
		if b(c.bq, c.bt) == -9 {
			continue
		}
		out = append(out, Scenario{Kind: "bsdiff", OldS: c.o, NewS: c.n, Partitions: c.p, Bound: b(c.bq, c.bt)})
		if !quick && c.p == 2 {
			out = append(out, Scenario{Kind: "bsdiff", OldS: c.o, NewS: c.n, Partitions: c.p, Conc: 2, Bound: 1})
		}
	}
	// scanner with its 256-slot match channels scaled to 1 and 2 slots (scheduler variant
	// only): "more matches than the channel holds" then needs 2-3 matches instead of 257
	for _, capacity := range []int{1, 2} {
		out = append(out,
			Scenario{Kind: "bsdiff", OldS: "abcabcabc", NewS: "abcabd", Partitions: 2, Cap: capacity, Bound: b(1, 2)},
			// one scan block yielding several matches (three reordered regions + fresh bytes)
			Scenario{Kind: "bsdiff", OldS: "abcdefghijklmnopqrstuvwx0123456789yz", NewS: "0123456789yz--abcdefghijkl++mnopqrstuvwx", Partitions: 0, Cap: capacity, Bound: b(2, 3)},
			Scenario{Kind: "bsdiff", OldS: "abcdefghijklmnopqrstuvwx0123456789yzABCDEFGHIJKL", NewS: "0123456789yz--abcdefghijkl++mnopqrstuvwx==ABCDEFGHIJKL..0123456789yz", Partitions: 2, Cap: capacity, Bound: b(1, 2)},
		)
	}
	// --- optimizer: map-order ties (two old files reused equally) and plain cases
	tieOld := wh.Build{wh.F("x", "A.=1"), wh.F("y", "B.=2")}
	tieNew := wh.Build{wh.F("z", "A.B.=3")}
	// a tie between the old file of the same name (higher index) and another old file (lower
	// index): the two tie-break rules point in different directions
	tie2Old := wh.Build{wh.F("a", "A.=1"), wh.F("b", "B.=2")}
	tie2New := wh.Build{wh.F("b", "A.B.=3")}
	// a new file assembled from comparable stretches of two old files (2 blocks of one, 1 of
	// the other; the optimizer's reuse count credits each range with an extra block): which one the optimizer maps it to must not depend on map order
	mixOld := wh.Build{wh.F("a", "A.B.C.=1"), wh.F("b", "E.F.=2")}
	mixNew := wh.Build{wh.F("c", "A.B.E.=0123456789")}
	out = append(out,
		Scenario{Kind: "rediff", Old: mixOld, New: mixNew, Comp: "none", Partitions: 0, Bound: 0},
		Scenario{Kind: "rediff", Old: tie2Old, New: tie2New, Comp: "none", Partitions: 0, Bound: b(0, 1)},
		Scenario{Kind: "rediff", Old: tieOld, New: tieNew, Comp: "none", Partitions: 0, Bound: b(1, 2)},
		Scenario{Kind: "rediff", Old: twoOld, New: two, Comp: "none", Partitions: 2, Bound: b(0, 1)},
	)
	if !quick {
		// three old files reused by two new files (ties in both): slow executions (real-size bsdiff)
		out = append(out, Scenario{Kind: "rediff", Old: wh.Build{wh.F("p", "A.B.=1"), wh.F("q", "C.D.=2"), wh.F("r", "E.=3")}, New: wh.Build{wh.F("n", "A.C.E.=x"), wh.F("m", "B.D.=y")}, Comp: "none", Partitions: 0, Bound: 0})
	}
	return out
}

var schedSubs func(w *runner.W)

func main() {
	runner.Main(runner.Config{
		ID:    "C15",
		Level: "model_checking",
		Rule:  "stateless model checking of the real differ (WritePatch: diff, sign and reader goroutines over pipes), of the bsdiff scanner (workers, dispatcher, collector) and of the optimizer under a controlled scheduler: preemption-bounded DFS with happens-before caching over goroutine interleavings, select choices, map iteration orders and source-reader answers (short reads, io.EOF together with the last bytes, and - in dedicated scenarios - a read error, under which every schedule must make the diff fail); oracle: output bytes (patch, signature, counters / control messages / optimized patch and mappings) equal those of the default schedule, no deadlock. Separate detector pass: the same bodies free-running under the Go race detector with GOMAXPROCS 1,2,4,16. Non-trivial = scenario with at least 3 goroutines alive at once.",
		Assumptions: []string{
			"code between visible operations is atomic under the scheduler; unsynchronised accesses are only caught by the race-detector pass, which is a detector, not an enumeration",
			"io.Pipe is modelled atomically (a Write blocks until consumed or closed), all other primitives at their real call sites",
		},
		Variants:       []string{"sched", "race"},
		QuickBudget:    90 * time.Second,
		ThoroughBudget: 15 * time.Minute,
	}, body)
}

func body(w *runner.W) {
	// free-running repetition (plain build): outputs must not vary
	free := runner.NewSub(w, "free-running", func(sc Scenario, r *runner.Rec) {
		p, err := prepare(sc, w.Scratch(), w.Seed)
		if err != nil {
			panic(err)
		}
		defer p.cleanup()
		seen := map[string]int{}
		reps := 12
		if sc.OldSpec != "" {
			reps = 5
		}
		for rep := 0; rep < reps; rep++ {
			runtime.GOMAXPROCS([]int{1, 2, 4, 8, 16}[rep%5])
			d, err := p.run(nil)
			if err != nil {
				r.Failf("error:"+sc.Kind, "%v", err)
				return
			}
			seen[d]++
		}
		// the same diff with every source read cut short at a fixed size
		for ci, c := range sc.ReadCaps {
			runtime.GOMAXPROCS([]int{1, 2, 4, 8, 16}[ci%5])
			p.readCap = c
			d, err := p.run(nil)
			p.readCap = 0
			if err != nil {
				r.Failf("error:"+sc.Kind, "read cap %d: %v", c, err)
				return
			}
			seen[d]++
		}
		runtime.GOMAXPROCS(runtime.NumCPU())
		if len(seen) > 1 {
			r.Failf("nondeterministic:"+sc.Kind+":free-running", "%d different outputs under GOMAXPROCS 1,2,4,8,16 and source reads capped at %v: %v", len(seen), sc.ReadCaps, seen)
		}
		r.Nontrivial()
		r.Outcome(sc.Kind)
	}, runner.Journal())
	if free.Active() {
		for _, sc := range scenarios(w.Quick()) {
			if sc.Cap != 0 {
				continue
			}
			sc.Slicing = false
			free.Do(sc)
		}
		for _, sc := range largeScenarios() {
			free.Do(sc)
		}
		free.Done()
	}

	// race-detector pass
	race := runner.NewSub(w, "race-pass", func(sc Scenario, r *runner.Rec) {
		p, err := prepare(sc, w.Scratch(), w.Seed)
		if err != nil {
			panic(err)
		}
		defer p.cleanup()
		reps := 30
		if w.Quick() {
			reps = 8
		}
		ref := ""
		for rep := 0; rep < reps; rep++ {
			runtime.GOMAXPROCS([]int{1, 2, 4, 16}[rep%4])
			d, err := p.run(nil)
			if err != nil {
				r.Failf("error:"+sc.Kind, "%v", err)
				break
			}
			if ref == "" {
				ref = d
			} else if d != ref {
				r.Failf("nondeterministic:"+sc.Kind+":race-pass", "output differs between repetitions")
				break
			}
		}
		for ci, c := range sc.ReadCaps {
			runtime.GOMAXPROCS([]int{1, 2, 4, 16}[ci%4])
			p.readCap = c
			d, err := p.run(nil)
			p.readCap = 0
			if err != nil {
				r.Failf("error:"+sc.Kind, "read cap %d: %v", c, err)
				break
			}
			if d != ref {
				r.Failf("nondeterministic:"+sc.Kind+":race-pass", "output differs when source reads are capped at %d bytes", c)
				break
			}
		}
		runtime.GOMAXPROCS(runtime.NumCPU())
		if rep := raceReports(); rep != "" {
			r.Failf("data-race:"+raceSite(rep), "race detector report:\n%s", rep)
		}
		r.Nontrivial()
		r.Outcome(sc.Kind)
	}, runner.Variant("race"), runner.Journal())
	if race.Active() {
		if !raceEnabled {
			race.Skip("binary not built with -race")
		} else {
			for _, sc := range scenarios(w.Quick()) {
				if sc.Cap != 0 {
					continue
				}
				sc.Slicing = false
				race.Do(sc)
			}
			for _, sc := range largeScenarios() {
				if w.Quick() && sc.Kind != "diff" {
					continue // the MB-sized bsdiff inputs are slow under the detector
				}
				race.Do(sc)
			}
			race.Done()
		}
	}
	if schedSubs != nil {
		schedSubs(w)
	}
}

// raceReports collects (and removes) the race detector's log files of this process.
func raceReports() string {
	base := os.Getenv("VERIF_RACE_LOG")
	if base == "" {
		return ""
	}
	matches, _ := filepath.Glob(base + ".*")
	var sb strings.Builder
	for _, m := range matches {
		if !strings.HasSuffix(m, fmt.Sprintf(".%d", os.Getpid())) {
			continue
		}
		b, _ := os.ReadFile(m)
		sb.Write(b)
		os.Truncate(m, 0)
	}
	s := sb.String()
	if len(s) > 6000 {
		s = s[:6000]
	}
	return s
}

func raceSite(rep string) string {
	for _, l := range strings.Split(rep, "\n") {
		l = strings.TrimSpace(l)
		if strings.HasPrefix(l, "github.com/itchio/wharf/") {
			l = strings.TrimPrefix(l, "github.com/itchio/wharf/")
			if i := strings.Index(l, "("); i > 0 && !strings.HasPrefix(l[i:], "(*") {
				l = l[:i]
			}
			for {
				i := strings.LastIndex(l, ".func")
				if i < 0 {
					break
				}
				l = l[:i]
			}
			if i := strings.LastIndex(l, "()"); i > 0 {
				l = l[:i]
			}
			return l
		}
	}
	return "unknown"
}
