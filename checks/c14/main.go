// C14 — an overlay turns the old file into the new file, whatever the write
// pattern. Bounded exhaustive enumeration of (old,new) pairs x write cuts x
// flush/resume points against the real overlay writer and applier:
//
//   - scaled builds (go build -overlay, /repo untouched) in which the writer's
//     processing window and skip threshold are 8/2 and 4/1 instead of
//     128KiB/8KiB, so that every position of an equal run relative to a window
//     and to a write boundary is reachable with inputs of a dozen bytes;
//   - the unscaled build with a segment grammar whose run lengths sit around
//     the real threshold and window.
package main

import (
	"fmt"
	"runtime/debug"
	"strings"
	"time"

	"verif/lib/runner"
)

func main() {
	runner.Main(runner.Config{
		ID:    "C14",
		Level: "model_checking",
		Rule:  "scaled builds (window/threshold 8/2 and 4/1, verified behaviourally at run time): 'binary' = every (old,new) over {0,1} up to a length bound; 'pattern' = every equality pattern between old and new for every new length up to ~1.5 (8/2) or 3 (4/1) windows and every old length in {0..n, n+1, n+window+1}, new bytes position-dependent; each pair x every way to cut new into <=3 writes (cut positions 0..n, repeated positions = empty writes) x every tagging of the cuts with {nothing, Flush, Flush+resume in a new session from ReadOffset/OverlayOffset, the same after the abandoned session went on writing stale bytes}. 'runs' = two-run contents 0^a 1^(L-a) of 40 bytes (longer than any reader buffer) against the same runs with the border moved by -2..3 and the length changed by -1..1, one tagged cut anywhere or two tagged cuts the first within two windows. Full scale (window/threshold detected behaviourally): old/new built from <=3-4 alternating equal/differing runs with lengths in {1,T-1,T,T+1,2T,W-T,W,W+1}, tails only in old or only in new, written in chunks of {1,4KiB,32KiB,W,W+1,everything} with flush/resume marks at every write boundary (singles, pairs for the window-sized chunks), partly through real files exactly as the overlay bowl does. Oracle: OverlayPatchContext.Patch onto a copy of old + truncate at the final position == new; an independent decoder/applier of the overlay stream agrees; ReadOffset/OverlayOffset after Flush equal the bytes consumed/produced. Non-trivial = the overlay contains both a SKIP and a FRESH op of non-zero length.",
		Assumptions: []string{
			"the reader handed to the writer returns full reads until end of file (bytes.Reader / os.File), as the pools used by the overlay bowl do",
			"scaled variants rebuild pwr/overlay with only overlayBufSize and overlaySameThreshold changed",
			"pattern and segment families rely on the writer looking at the data only through byte equality old[i]==new[i]; the binary family does not",
			"full-scale byte content is seeded pseudo-random (VERIF_SEED)",
		},
		Variants:       []string{"w8t2", "w4t1"},
		QuickBudget:    80 * time.Second,
		ThoroughBudget: 14 * time.Minute,
	}, body)
}

func body(w *runner.W) {
	// every application allocates a 32KiB wire buffer: collect garbage by heap
	// size instead of by growth ratio (the live heap is tiny)
	debug.SetGCPercent(-1)
	debug.SetMemoryLimit(160 << 20)
	e := &env{scratch: w.Scratch()}

	runOne := func(c Case, r *runner.Rec) {
		old, nw := c.Gen.materialize(w.Seed)
		b := c.bounds(len(nw))
		for i := 1; i < len(b); i++ {
			if b[i] < b[i-1] || b[i] > len(nw) {
				r.Failf("bad-case", "write boundaries %v not monotone within 0..%d", b, len(nw))
				return
			}
		}
		res := e.runCase(old, nw, b, c.tags(len(b)-1), c.File)
		if res.nSkip > 0 && res.nFresh > 0 {
			r.Nontrivial()
		}
		r.Trans(res.ops)
		r.Outcome(outcomeName(outcomeClass(&res, len(old), len(nw))))
		for _, f := range res.fails {
			r.Failf(f.fp, "%s", f.msg)
		}
	}

	scaled(w, e, runOne, "w8t2", 8, 2)
	scaled(w, e, runOne, "w4t1", 4, 1)
	fullScale(w, e, runOne)
}

func outcomeClass(res *result, oldLen, newLen int) int {
	c := 0
	if res.nSkip > 0 {
		c |= 1
	}
	if res.nFresh > 0 {
		c |= 2
	}
	rel := 0
	if newLen == oldLen {
		rel = 1
	} else if newLen > oldLen {
		rel = 2
	}
	s := res.sessions
	if s > 3 {
		s = 3
	}
	return c + 4*rel + 12*(s-1)
}

func outcomeName(c int) string {
	rel := []string{"new<old", "new=old", "new>old"}[(c/4)%3]
	return fmt.Sprintf("skip=%v fresh=%v %s sessions=%d", c&1 != 0, c&2 != 0, rel, c/12+1)
}

// ---------------------------------------------------------------------------
// step sequences for the scaled families

var tagSet = []string{"", "F", "R", "S"}

type stepSeq struct {
	bounds []int
	tags   []string
}

func (s stepSeq) toCase(g Gen) Case {
	c := Case{Gen: g}
	c.Cuts = append([]int{}, s.bounds[1:len(s.bounds)-1]...)
	for k, t := range s.tags {
		if t != "" {
			c.Marks = append(c.Marks, Mark{K: k, Tag: t})
		}
	}
	return c
}

// stepSeqs lists every way to cut n bytes at <=maxCuts positions from 0..n
// (non-decreasing) with every tagging of the cuts.
func stepSeqs(n, maxCuts int) []stepSeq {
	var out []stepSeq
	var rec func(cuts []int, tags []string, from int)
	rec = func(cuts []int, tags []string, from int) {
		b := append(append([]int{0}, cuts...), n)
		t := append(append([]string{}, tags...), "")
		out = append(out, stepSeq{b, t})
		if len(cuts) == maxCuts {
			return
		}
		for c := from; c <= n; c++ {
			for _, tg := range tagSet {
				rec(append(append([]int{}, cuts...), c), append(append([]string{}, tags...), tg), c)
			}
		}
	}
	rec(nil, nil, 0)
	return out
}

func bitStrings(maxLen int) []string {
	out := []string{""}
	prev := []string{""}
	for l := 1; l <= maxLen; l++ {
		var cur []string
		for _, p := range prev {
			cur = append(cur, p+"0", p+"1")
		}
		out = append(out, cur...)
		prev = cur
	}
	return out
}

type tally struct {
	evals, nontriv, trans int64
	outcomes              [36]int
	reported              map[string]int
	suppressed            int64
}

// report caps the number of violation records a worker emits per failure
// class in a hot loop (a broken writer fails millions of cases).
func (t *tally) report(fp string) bool {
	if t.reported == nil {
		t.reported = map[string]int{}
	}
	t.reported[fp]++
	if t.reported[fp] > 8 {
		t.suppressed++
		return false
	}
	return true
}

func (t *tally) add(res *result, oldLen, newLen int) {
	t.evals++
	t.trans += int64(res.ops)
	if res.nSkip > 0 && res.nFresh > 0 {
		t.nontriv++
	}
	t.outcomes[outcomeClass(res, oldLen, newLen)]++
}

func scaled(w *runner.W, e *env, runOne func(Case, *runner.Rec), variant string, W, T int) {
	bin := runner.NewSub(w, "scaled-"+variant+"-binary", runOne, runner.Variant(variant))
	pat := runner.NewSub(w, "scaled-"+variant+"-pattern", runOne, runner.Variant(variant))
	runs := runner.NewSub(w, "scaled-"+variant+"-runs", runOne, runner.Variant(variant))
	if w.Variant != variant {
		return
	}
	gotW, gotT, derr := -1, -1, error(nil)
	probed := false
	probe := func() bool {
		if !probed {
			gotW, gotT, derr = detectParams()
			probed = true
		}
		return derr == nil && gotW == W && gotT == T
	}
	skipMsg := func() string {
		if derr != nil {
			return "cannot determine the effective window/threshold: " + derr.Error()
		}
		return fmt.Sprintf("effective window/threshold are %d/%d in this build, expected %d/%d", gotW, gotT, W, T)
	}

	// ---- binary: all (old,new) over {0,1} -------------------------------
	if bin.Active() {
		if !probe() {
			bin.Skip(skipMsg())
		} else {
			maxLen, maxCuts := W, 2
			if W == 4 {
				maxLen = 7
			}
			if w.Quick() {
				maxLen = 5
			}
			strs := bitStrings(maxLen)
			seqs := make([][]stepSeq, maxLen+1)
			for n := range seqs {
				seqs[n] = stepSeqs(n, maxCuts)
			}
			var tl tally
			for oi, os := range strs {
				if !w.Owns(oi) || w.Expired() {
					continue
				}
				for _, ns := range strs {
					g := Gen{Kind: "lit", Old: os, New: ns}
					old, nw := g.materialize(w.Seed)
					e.memo = map[string]memoEntry{}
					for _, sq := range seqs[len(nw)] {
						res := e.runCase(old, nw, sq.bounds, sq.tags, false)
						tl.add(&res, len(old), len(nw))
						for _, f := range res.fails {
							if tl.report(f.fp) {
								bin.Report(sq.toCase(g), f.fp, "%s", f.msg)
							}
						}
					}
				}
				if oi%97 == 0 {
					bin.Sample(seqs[maxLen][len(seqs[maxLen])/2].toCase(Gen{Kind: "lit", Old: os, New: strs[len(strs)-1-oi%64]}))
				}
			}
			e.memo = nil
			bin.Bulk(tl.evals, tl.nontriv, tl.trans)
			for c, n := range tl.outcomes {
				if n > 0 {
					bin.BulkOutcome(outcomeName(c), n)
				}
			}
			bin.Note("max_len", maxLen)
			bin.Note("max_cuts", maxCuts)
			bin.Note("window", gotW)
			bin.Note("threshold", gotT)
			bin.Done()
		}
	}

	// ---- pattern: all equality patterns, longer inputs -------------------
	if pat.Active() {
		if !probe() {
			pat.Skip(skipMsg())
		} else {
			maxNew := 12 // 1.5 windows of 8
			if W == 4 {
				maxNew = 13 // three windows of 4 and one byte of a fourth
			}
			if w.Quick() {
				maxNew = 9
			}
			var tl tally
			ord := 0
			for n := 0; n <= maxNew; n++ {
				seqs := stepSeqs(n, 2)
				var oldLens []int
				for m := 0; m <= n; m++ {
					oldLens = append(oldLens, m)
				}
				oldLens = append(oldLens, n+1, n+W+1)
				for _, m := range oldLens {
					k := m
					if n < k {
						k = n
					}
					for p := 0; p < 1<<uint(k); p++ {
						mine := w.Owns(ord)
						ord++
						if !mine || w.Expired() {
							continue
						}
						pb := make([]byte, k)
						for i := range pb {
							if p>>uint(i)&1 == 1 {
								pb[i] = '='
							} else {
								pb[i] = 'x'
							}
						}
						g := Gen{Kind: "pat", Pat: string(pb), OldLen: m, NewLen: n}
						old, nw := g.materialize(w.Seed)
						e.memo = map[string]memoEntry{}
						for _, sq := range seqs {
							res := e.runCase(old, nw, sq.bounds, sq.tags, false)
							tl.add(&res, len(old), len(nw))
							for _, f := range res.fails {
								if tl.report(f.fp) {
									pat.Report(sq.toCase(g), f.fp, "%s", f.msg)
								}
							}
						}
						if n == maxNew && p%1021 == 7 {
							pat.Sample(seqs[len(seqs)/3].toCase(g))
						}
					}
				}
			}
			e.memo = nil
			pat.Bulk(tl.evals, tl.nontriv, tl.trans)
			for c, n := range tl.outcomes {
				if n > 0 {
					pat.BulkOutcome(outcomeName(c), n)
				}
			}
			pat.Note("max_new_len", maxNew)
			pat.Note("window", gotW)
			pat.Note("threshold", gotT)
			pat.Done()
		}
	}

	// ---- runs: long two-run contents with a moved border ------------------
	if runs.Active() {
		if !probe() {
			runs.Skip(skipMsg())
		} else {
			runs.Note("window", gotW)
			runs.Note("threshold", gotT)
			runsFamily(w, e, runs, W)
		}
	}
}

// runsFamily: long low-entropy inputs — old = 0^a 1^(L-a), new = the same two runs with the
// border moved by d and the length changed by e — written with one tagged cut anywhere, or
// two tagged cuts the first of which lies within the first two windows. L is several windows
// (and more than any reader buffer a change might put in front of the old file: 40 bytes),
// so a comparison that is off by a few bytes still finds long equal stretches.
func runsFamily(w *runner.W, e *env, sub *runner.Sub[Case], W int) {
	lens := []int{5*W + 0, 40}
	if w.Quick() {
		lens = []int{40}
	}
	var tl tally
	ord := 0
	for _, L := range lens {
		for a := 1; a < L; a++ {
			for _, d := range []int{-2, -1, 1, 2, 3} {
				for _, el := range []int{0, 1, -1} {
					mine := w.Owns(ord)
					ord++
					if !mine || w.Expired() || a+d < 0 || a+d > L+el {
						continue
					}
					os := strings.Repeat("0", a) + strings.Repeat("1", L-a)
					ns := strings.Repeat("0", a+d) + strings.Repeat("1", L+el-a-d)
					g := Gen{Kind: "lit", Old: os, New: ns}
					old, nw := g.materialize(w.Seed)
					n := len(nw)
					var seqs []stepSeq
					for c1 := 0; c1 <= n; c1++ {
						for _, t1 := range tagSet {
							seqs = append(seqs, stepSeq{[]int{0, c1, n}, []string{t1, ""}})
							if c1 > 2*W+1 {
								continue
							}
							for c2 := c1; c2 <= n; c2++ {
								for _, t2 := range tagSet {
									seqs = append(seqs, stepSeq{[]int{0, c1, c2, n}, []string{t1, t2, ""}})
								}
							}
						}
					}
					e.memo = map[string]memoEntry{}
					for _, sq := range seqs {
						res := e.runCase(old, nw, sq.bounds, sq.tags, false)
						tl.add(&res, len(old), len(nw))
						for _, f := range res.fails {
							if tl.report(f.fp) {
								sub.Report(sq.toCase(g), f.fp, "%s", f.msg)
							}
						}
					}
					if ord%211 == 0 {
						sub.Sample(seqs[len(seqs)/2].toCase(g))
					}
				}
			}
		}
	}
	e.memo = nil
	sub.Bulk(tl.evals, tl.nontriv, tl.trans)
	for c, n := range tl.outcomes {
		if n > 0 {
			sub.BulkOutcome(outcomeName(c), n)
		}
	}
	sub.Note("lengths", fmt.Sprint(lens))
	sub.Done()
}

// ---------------------------------------------------------------------------
// full scale

func fullScale(w *runner.W, e *env, runOne func(Case, *runner.Rec)) {
	fs := runner.NewSub(w, "fullscale-segments", runOne)
	if !fs.Active() {
		return
	}
	W, T, err := detectParams()
	if err != nil {
		fs.Skip("cannot determine the effective window/threshold: " + err.Error())
		return
	}
	if W < 4096 || T < 16 || 2*T >= W {
		fs.Skip(fmt.Sprintf("effective window/threshold %d/%d are not full scale", W, T))
		return
	}
	fs.Note("window", W)
	fs.Note("threshold", T)

	lens := []int{1, T - 1, T, T + 1, 2 * T, W - T, W, W + 1}
	maxSegs := 3
	if w.Quick() {
		maxSegs = 2
	}
	var segLists [][]Seg
	var rec func(cur []Seg)
	rec = func(cur []Seg) {
		segLists = append(segLists, append([]Seg{}, cur...))
		if len(cur) == maxSegs {
			return
		}
		for _, l := range lens {
			if len(cur) == 0 {
				rec([]Seg{{Eq: true, Len: l}})
				rec([]Seg{{Eq: false, Len: l}})
			} else {
				rec(append(append([]Seg{}, cur...), Seg{Eq: !cur[len(cur)-1].Eq, Len: l}))
			}
		}
	}
	rec(nil)
	type tail struct{ o, n int }
	tails := []tail{{0, 0}, {1, 0}, {T + 1, 0}, {0, 1}, {0, T + 1}, {0, W + 1}}
	chunks := []int{4096, 32768, W, W + 1, 0}
	tags := []string{"F", "R", "S"}

	nCase := 0
	do := func(c Case) {
		// every 5th case goes through real files
		nCase++
		c.File = nCase%5 == 0
		fs.Do(c)
	}
	for _, sl := range segLists {
		for _, tl := range tails {
			g := Gen{Kind: "seg", Segs: sl, OldTail: tl.o, NewTail: tl.n}
			n := tl.n
			for _, s := range sl {
				n += s.Len
			}
			cs := chunks
			if n <= 20*1024 {
				cs = append([]int{1}, chunks...)
			}
			for _, ch := range cs {
				do(Case{Gen: g, Chunk: ch})
				if ch == 0 || ch == 1 || n == 0 {
					continue
				}
				nWrites := (n + ch - 1) / ch
				// single marks at every write boundary (4KiB chunks: at the
				// boundaries next to a multiple of 32KiB only)
				for k := 0; k < nWrites-1; k++ {
					if ch == 4096 && (k+1)%8 > 1 {
						continue
					}
					for _, tg := range tags {
						do(Case{Gen: g, Chunk: ch, Marks: []Mark{{k, tg}}})
					}
				}
				// pairs of marks for window-sized chunks
				if ch >= W && len(sl) <= 2 {
					for k1 := 0; k1 < nWrites-1; k1++ {
						for k2 := k1 + 1; k2 < nWrites-1; k2++ {
							for _, t1 := range tags {
								for _, t2 := range tags {
									do(Case{Gen: g, Chunk: ch, Marks: []Mark{{k1, t1}, {k2, t2}}})
								}
							}
						}
					}
				}
			}
		}
	}
	// four segments, written whole and in window+1 chunks (shifting alignment)
	if !w.Quick() {
		for _, sl := range segLists {
			if len(sl) != 3 {
				continue
			}
			for _, l := range lens {
				g := Gen{Kind: "seg", Segs: append(append([]Seg{}, sl...), Seg{Eq: !sl[2].Eq, Len: l}), NewTail: (l % 2) * (T + 1)}
				do(Case{Gen: g, Chunk: 0})
				do(Case{Gen: g, Chunk: W + 1})
			}
		}
	}
	fs.Note("segment_lists", len(segLists))
	fs.Done()
}
