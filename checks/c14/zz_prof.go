package main

import (
	"os"
	"runtime/pprof"
)

func init() {
	if p := os.Getenv("VERIF_PPROF"); p != "" {
		f, _ := os.Create(p)
		pprof.StartCPUProfile(f)
		stopProf = func() { pprof.StopCPUProfile(); f.Close() }
	}
}

var stopProf = func() {}
