package main

import (
	"bytes"
	"encoding/binary"
	"fmt"
	"io"
	"os"
	"path/filepath"
	"runtime/debug"

	"github.com/golang/protobuf/proto"
	"github.com/itchio/savior/filesource"
	"github.com/itchio/savior/seeksource"
	"github.com/itchio/wharf/pwr/overlay"

	"verif/lib/runner"
	"verif/lib/wh"
)

// ---------------------------------------------------------------------------
// case description (this is the replay artefact)

// Seg is one run of the segment grammar: Len bytes that are equal in old and
// new (Eq) or differ at every position (!Eq).
type Seg struct {
	Eq  bool `json:"eq"`
	Len int  `json:"len"`
}

// Gen describes the (old,new) pair.
//
//	lit: Old/New are literal strings of digits (byte value = digit)
//	pat: Pat[i] ('=' or 'x') says whether old[i]==new[i] for i<min(OldLen,NewLen);
//	     new[i] is a position-dependent byte, old beyond NewLen is filler
//	seg: segments (common part) followed by OldTail bytes only in old and
//	     NewTail bytes only in new; new bytes are seeded pseudo-random
type Gen struct {
	Kind    string `json:"kind"`
	Old     string `json:"old,omitempty"`
	New     string `json:"new,omitempty"`
	Pat     string `json:"pat,omitempty"`
	OldLen  int    `json:"old_len,omitempty"`
	NewLen  int    `json:"new_len,omitempty"`
	Segs    []Seg  `json:"segs,omitempty"`
	OldTail int    `json:"old_tail,omitempty"`
	NewTail int    `json:"new_tail,omitempty"`
}

// Mark is an action taken after the K-th write (0-based):
//
//	F flush and check the reported offsets
//	R flush, then continue in a new session (fresh writer, fresh re-seeked
//	  reader, output positioned at the reported overlay offset)
//	S like R, but the abandoned session first goes on to write the rest of
//	  the new content and finalizes (stale bytes past the resume point, as
//	  after a crash that happened later than the checkpoint)
type Mark struct {
	K   int    `json:"k"`
	Tag string `json:"tag"`
}

// Case: the new content is written either in chunks of Chunk bytes (Chunk>0)
// or cut at the byte positions Cuts (non-decreasing; equal positions give empty
// writes; no cuts = one write of everything).
type Case struct {
	Gen   Gen    `json:"gen"`
	Chunk int    `json:"chunk,omitempty"`
	Cuts  []int  `json:"cuts,omitempty"`
	Marks []Mark `json:"marks,omitempty"`
	File  bool   `json:"file,omitempty"` // real files (as the overlay bowl does) instead of memory
}

func patNew(i int) byte { return byte(i*7 + 1) }

func (g Gen) materialize(seed int64) (old, nw []byte) {
	switch g.Kind {
	case "lit":
		old, nw = make([]byte, len(g.Old)), make([]byte, len(g.New))
		for i := range g.Old {
			old[i] = g.Old[i] - '0'
		}
		for i := range g.New {
			nw[i] = g.New[i] - '0'
		}
	case "pat":
		nw = make([]byte, g.NewLen)
		for i := range nw {
			nw[i] = patNew(i)
		}
		old = make([]byte, g.OldLen)
		for i := range old {
			switch {
			case i >= g.NewLen:
				old[i] = byte(0xE0 + i%16)
			case g.Pat[i] == '=':
				old[i] = nw[i]
			default:
				old[i] = nw[i] ^ 0x80
			}
		}
	case "seg":
		common := 0
		for _, s := range g.Segs {
			common += s.Len
		}
		stream := wh.Content(fmt.Sprintf("r3/%d", common+g.NewTail), seed)
		nw = append([]byte{}, stream...)
		old = make([]byte, common, common+g.OldTail)
		copy(old, nw[:common])
		off := 0
		for _, s := range g.Segs {
			if !s.Eq {
				for i := off; i < off+s.Len; i++ {
					old[i] ^= 0x55
				}
			}
			off += s.Len
		}
		old = append(old, wh.Content(fmt.Sprintf("r4/%d", g.OldTail), seed)...)
	default:
		panic("bad gen kind " + g.Kind)
	}
	return old, nw
}

// bounds returns the write boundaries b[0]=0 .. b[nw]=len(new).
func (c *Case) bounds(n int) []int {
	b := []int{0}
	if c.Chunk > 0 {
		for p := c.Chunk; p < n; p += c.Chunk {
			b = append(b, p)
		}
	} else {
		b = append(b, c.Cuts...)
	}
	return append(b, n)
}

func (c *Case) tags(nWrites int) []string {
	t := make([]string, nWrites)
	for _, m := range c.Marks {
		if m.K >= 0 && m.K < nWrites {
			t[m.K] = m.Tag
		}
	}
	return t
}

// ---------------------------------------------------------------------------
// in-memory stand-ins for files

// memSink is the overlay output: a file that is written at a position.
type memSink struct {
	data []byte
	pos  int64
}

func (s *memSink) Write(p []byte) (int, error) {
	end := s.pos + int64(len(p))
	if end > int64(len(s.data)) {
		if end > int64(cap(s.data)) {
			nd := make([]byte, end, end*2+64)
			copy(nd, s.data)
			s.data = nd
		} else {
			s.data = s.data[:end]
		}
	}
	copy(s.data[s.pos:], p)
	s.pos = end
	return len(p), nil
}

// memFile is the file being patched: io.WriteSeeker with the semantics of a
// regular file (seeking past the end and writing leaves a zero-filled hole).
type memFile struct {
	data []byte
	pos  int64
}

func (f *memFile) Seek(off int64, whence int) (int64, error) {
	var np int64
	switch whence {
	case io.SeekStart:
		np = off
	case io.SeekCurrent:
		np = f.pos + off
	case io.SeekEnd:
		np = int64(len(f.data)) + off
	}
	if np < 0 {
		return f.pos, fmt.Errorf("memFile: negative position")
	}
	f.pos = np
	return np, nil
}

func (f *memFile) Write(p []byte) (int, error) {
	end := f.pos + int64(len(p))
	if end > int64(len(f.data)) {
		nd := make([]byte, end)
		copy(nd, f.data)
		f.data = nd
	}
	copy(f.data[f.pos:], p)
	f.pos = end
	return len(p), nil
}

func (f *memFile) truncate(n int64) {
	if n <= int64(len(f.data)) {
		f.data = f.data[:n]
		return
	}
	nd := make([]byte, n)
	copy(nd, f.data)
	f.data = nd
}

// ---------------------------------------------------------------------------
// independent decoding + reference application of an overlay stream

type ovOp struct {
	typ overlay.OverlayOp_Type
	n   int64 // SKIP length or FRESH data length
}

type decoded struct {
	ops      []ovOp
	trailing int // bytes after the end marker
}

// refApply decodes the stream with its own framing (int32 LE magic, then
// uvarint-length-prefixed bodies; first body = header) and applies the ops to a
// copy of old, truncating at the final position.
func refApply(stream []byte, old []byte, d *decoded) ([]byte, error) {
	d.ops = d.ops[:0]
	d.trailing = 0
	if len(stream) < 4 {
		return nil, fmt.Errorf("stream of %d bytes has no magic", len(stream))
	}
	if m := int32(binary.LittleEndian.Uint32(stream)); m != overlay.OverlayMagic {
		return nil, fmt.Errorf("bad magic %#x", m)
	}
	off := 4
	next := func() ([]byte, error) {
		if off >= len(stream) {
			return nil, io.ErrUnexpectedEOF
		}
		l, n := binary.Uvarint(stream[off:])
		if n <= 0 {
			return nil, fmt.Errorf("bad length prefix at %d", off)
		}
		off += n
		if uint64(len(stream)-off) < l {
			return nil, fmt.Errorf("message at %d: %d bytes announced, %d left", off, l, len(stream)-off)
		}
		b := stream[off : off+int(l)]
		off += int(l)
		return b, nil
	}
	hb, err := next()
	if err != nil {
		return nil, fmt.Errorf("header: %v", err)
	}
	if err := proto.Unmarshal(hb, &overlay.OverlayHeader{}); err != nil {
		return nil, fmt.Errorf("header: %v", err)
	}
	out := append(make([]byte, 0, len(old)+64), old...)
	pos := int64(0)
	op := &overlay.OverlayOp{}
	for {
		b, err := next()
		if err != nil {
			return nil, fmt.Errorf("op %d: %v (no end marker)", len(d.ops), err)
		}
		op.Reset()
		if err := proto.Unmarshal(b, op); err != nil {
			return nil, fmt.Errorf("op %d: %v", len(d.ops), err)
		}
		switch op.Type {
		case overlay.OverlayOp_HEY_YOU_DID_IT:
			d.trailing = len(stream) - off
			if pos <= int64(len(out)) {
				out = out[:pos]
			} else {
				out = append(out, make([]byte, pos-int64(len(out)))...)
			}
			return out, nil
		case overlay.OverlayOp_SKIP:
			if op.Len < 0 || pos+op.Len < 0 {
				return nil, fmt.Errorf("op %d: SKIP %d at %d", len(d.ops), op.Len, pos)
			}
			pos += op.Len
			d.ops = append(d.ops, ovOp{op.Type, op.Len})
		case overlay.OverlayOp_FRESH:
			end := pos + int64(len(op.Data))
			if end > int64(len(out)) {
				out = append(out, make([]byte, end-int64(len(out)))...)
			}
			copy(out[pos:], op.Data)
			pos = end
			d.ops = append(d.ops, ovOp{op.Type, int64(len(op.Data))})
		default:
			return nil, fmt.Errorf("op %d: unknown type %d", len(d.ops), op.Type)
		}
	}
}

// ---------------------------------------------------------------------------
// running one case

type fail struct{ fp, msg string }

type result struct {
	fails      []fail
	nSkip      int // SKIP ops with Len>0
	nFresh     int // FRESH ops with data
	ops        int
	sessions   int
	skipBytes  int64
	freshBytes int64
}

func (r *result) failf(fp, f string, a ...any) {
	if len(r.fails) < 4 {
		r.fails = append(r.fails, fail{fp, fmt.Sprintf(f, a...)})
	}
}

// memoEntry is the verdict of the application stage for one overlay stream.
type memoEntry struct {
	nSkip, nFresh, ops    int
	skipBytes, freshBytes int64
}

type env struct {
	scratch string
	dec     decoded
	// memo, when non-nil, caches the application stage per overlay stream for
	// the current (old,new) pair: many write patterns produce byte-identical
	// streams, and Patch is a function of (stream, old) only. Only passing
	// streams are cached. The hot loops reset it for every pair.
	memo     map[string]memoEntry
	memoHits int64
}

func firstDiff(a, b []byte) int {
	n := len(a)
	if len(b) < n {
		n = len(b)
	}
	for i := 0; i < n; i++ {
		if a[i] != b[i] {
			return i
		}
	}
	if len(a) != len(b) {
		return n
	}
	return -1
}

// runCase feeds nw to overlay writers as described by bounds/tags, then applies
// the overlay with the real applier and with the reference applier.
func (e *env) runCase(old, nw []byte, bounds []int, tags []string, file bool) (res result) {
	defer func() {
		if x := recover(); x != nil {
			res.failf("panic:"+runner.PanicSite(string(debug.Stack())), "panic: %v", x)
		}
	}()
	res.sessions = 1
	var stream []byte
	var err error
	if file {
		stream, err = e.writeFile(old, nw, bounds, tags, &res)
	} else {
		stream, err = e.writeMem(old, nw, bounds, tags, &res)
	}
	if err != nil {
		res.failf("writer-error", "%v", err)
		return
	}

	if e.memo != nil && !file {
		if m, ok := e.memo[string(stream)]; ok {
			res.nSkip, res.nFresh, res.ops, res.skipBytes, res.freshBytes = m.nSkip, m.nFresh, m.ops, m.skipBytes, m.freshBytes
			e.memoHits++
			return
		}
		defer func() {
			if len(res.fails) == 0 {
				e.memo[string(stream)] = memoEntry{res.nSkip, res.nFresh, res.ops, res.skipBytes, res.freshBytes}
			}
		}()
	}

	// reference application (independent framing)
	refOut, refErr := refApply(stream, old, &e.dec)
	for _, o := range e.dec.ops {
		res.ops++
		if o.n == 0 {
			continue
		}
		if o.typ == overlay.OverlayOp_SKIP {
			res.nSkip++
			res.skipBytes += o.n
		} else {
			res.nFresh++
			res.freshBytes += o.n
		}
	}
	refOK := refErr == nil && bytes.Equal(refOut, nw)

	// real applier
	var got []byte
	if file {
		got, err = e.patchFile(old)
	} else {
		got, err = patchMem(stream, old)
	}
	if err != nil {
		if refErr != nil {
			res.failf("patch-error:stream-malformed", "Patch: %v; independent decoder: %v", err, refErr)
		} else {
			res.failf("patch-error", "Patch: %v (independent decoder reads the stream fine)", err)
		}
		return
	}
	if !bytes.Equal(got, nw) {
		i := firstDiff(got, nw)
		if refOK {
			res.failf("result-mismatch:applier", "Patch+truncate gives %d bytes, new has %d, first difference at %d; reference application of the same overlay equals new", len(got), len(nw), i)
		} else {
			res.failf("result-mismatch:writer", "Patch+truncate gives %d bytes, new has %d, first difference at %d (reference application differs too: %v)", len(got), len(nw), i, refErr)
		}
		return
	}
	if !refOK {
		// the real applier produced new, the reference did not: the harness'
		// reading of the format is wrong or the stream is irregular
		res.failf("reference-disagrees", "Patch result equals new but reference application does not (err=%v, %d bytes)", refErr, len(refOut))
	}
	return
}

func (e *env) checkOffsets(res *result, k int, ro, oo int64, consumed int, produced int64) {
	if ro != int64(consumed) {
		res.failf("read-offset-after-flush", "after write %d + Flush: ReadOffset()=%d, %d bytes of new content were written", k, ro, consumed)
	}
	if oo != produced {
		res.failf("overlay-offset-after-flush", "after write %d + Flush: OverlayOffset()=%d, output position is %d", k, oo, produced)
	}
}

func (e *env) writeMem(old, nw []byte, bounds []int, tags []string, res *result) ([]byte, error) {
	sink := &memSink{}
	rd := bytes.NewReader(old)
	ow, err := overlay.NewOverlayWriter(rd, 0, sink, 0)
	if err != nil {
		return nil, err
	}
	nWrites := len(bounds) - 1
	for k := 0; k < nWrites; k++ {
		chunk := nw[bounds[k]:bounds[k+1]]
		n, err := ow.Write(chunk)
		if err != nil {
			return nil, fmt.Errorf("write %d: %v", k, err)
		}
		if n != len(chunk) {
			return nil, fmt.Errorf("write %d: %d of %d bytes accepted without error", k, n, len(chunk))
		}
		tag := ""
		if k < len(tags) {
			tag = tags[k]
		}
		if tag == "" || k == nWrites-1 {
			continue
		}
		if err := ow.Flush(); err != nil {
			return nil, fmt.Errorf("flush after write %d: %v", k, err)
		}
		ro, oo := ow.ReadOffset(), ow.OverlayOffset()
		e.checkOffsets(res, k, ro, oo, bounds[k+1], sink.pos)
		if tag == "F" {
			continue
		}
		if tag == "S" {
			if _, err := ow.Write(nw[bounds[k+1]:]); err != nil {
				return nil, fmt.Errorf("abandoned session: %v", err)
			}
			if err := ow.Finalize(); err != nil {
				return nil, fmt.Errorf("abandoned session: %v", err)
			}
		}
		// new session, resumed from the reported offsets
		rd = bytes.NewReader(old)
		if _, err := rd.Seek(ro, io.SeekStart); err != nil {
			return nil, err
		}
		sink.pos = oo
		ow, err = overlay.NewOverlayWriter(rd, ro, sink, oo)
		if err != nil {
			return nil, err
		}
		res.sessions++
	}
	if err := ow.Finalize(); err != nil {
		return nil, fmt.Errorf("finalize: %v", err)
	}
	return sink.data, nil
}

func patchMem(stream, old []byte) ([]byte, error) {
	mf := &memFile{data: append(make([]byte, 0, len(old)+64), old...)}
	src := seeksource.FromBytes(stream)
	if _, err := src.Resume(nil); err != nil {
		return nil, err
	}
	ctx := &overlay.OverlayPatchContext{}
	if err := ctx.Patch(src, mf); err != nil {
		return nil, err
	}
	final, _ := mf.Seek(0, io.SeekCurrent)
	mf.truncate(final)
	return mf.data, nil
}

// writeFile is writeMem over real files, the way pwr/bowl's overlayEntryWriter
// drives the writer (reader = the old file, output = staging file opened
// without O_TRUNC and seeked to the overlay offset on resume).
func (e *env) writeFile(old, nw []byte, bounds []int, tags []string, res *result) ([]byte, error) {
	oldPath := filepath.Join(e.scratch, "old")
	ovPath := filepath.Join(e.scratch, "overlay")
	if err := os.WriteFile(oldPath, old, 0o644); err != nil {
		return nil, err
	}
	os.Remove(ovPath)
	rd, err := os.Open(oldPath)
	if err != nil {
		return nil, err
	}
	defer func() { rd.Close() }()
	f, err := os.OpenFile(ovPath, os.O_CREATE|os.O_WRONLY, 0o644)
	if err != nil {
		return nil, err
	}
	defer func() { f.Close() }()
	ow, err := overlay.NewOverlayWriter(rd, 0, f, 0)
	if err != nil {
		return nil, err
	}
	nWrites := len(bounds) - 1
	for k := 0; k < nWrites; k++ {
		chunk := nw[bounds[k]:bounds[k+1]]
		n, err := ow.Write(chunk)
		if err != nil {
			return nil, fmt.Errorf("write %d: %v", k, err)
		}
		if n != len(chunk) {
			return nil, fmt.Errorf("write %d: %d of %d bytes accepted without error", k, n, len(chunk))
		}
		tag := ""
		if k < len(tags) {
			tag = tags[k]
		}
		if tag == "" || k == nWrites-1 {
			continue
		}
		if err := ow.Flush(); err != nil {
			return nil, fmt.Errorf("flush after write %d: %v", k, err)
		}
		ro, oo := ow.ReadOffset(), ow.OverlayOffset()
		fpos, _ := f.Seek(0, io.SeekCurrent)
		e.checkOffsets(res, k, ro, oo, bounds[k+1], fpos)
		if tag == "F" {
			continue
		}
		if tag == "S" {
			if _, err := ow.Write(nw[bounds[k+1]:]); err != nil {
				return nil, fmt.Errorf("abandoned session: %v", err)
			}
			if err := ow.Finalize(); err != nil {
				return nil, fmt.Errorf("abandoned session: %v", err)
			}
		}
		rd.Close()
		f.Close()
		rd, err = os.Open(oldPath)
		if err != nil {
			return nil, err
		}
		if _, err := rd.Seek(ro, io.SeekStart); err != nil {
			return nil, err
		}
		f, err = os.OpenFile(ovPath, os.O_CREATE|os.O_WRONLY, 0o644)
		if err != nil {
			return nil, err
		}
		if _, err := f.Seek(oo, io.SeekStart); err != nil {
			return nil, err
		}
		ow, err = overlay.NewOverlayWriter(rd, ro, f, oo)
		if err != nil {
			return nil, err
		}
		res.sessions++
	}
	if err := ow.Finalize(); err != nil {
		return nil, fmt.Errorf("finalize: %v", err)
	}
	if err := f.Sync(); err != nil {
		return nil, err
	}
	return os.ReadFile(ovPath)
}

// patchFile applies e.scratch/overlay to a copy of old exactly like
// overlayBowl.applyOverlays: filesource, O_WRONLY, Patch, Seek(0,cur), Truncate.
func (e *env) patchFile(old []byte) ([]byte, error) {
	outPath := filepath.Join(e.scratch, "out")
	if err := os.WriteFile(outPath, old, 0o644); err != nil {
		return nil, err
	}
	r, err := filesource.Open(filepath.Join(e.scratch, "overlay"))
	if err != nil {
		return nil, err
	}
	defer r.Close()
	w, err := os.OpenFile(outPath, os.O_WRONLY, 0o644)
	if err != nil {
		return nil, err
	}
	defer w.Close()
	ctx := &overlay.OverlayPatchContext{}
	if err := ctx.Patch(r, w); err != nil {
		return nil, err
	}
	final, err := w.Seek(0, io.SeekCurrent)
	if err != nil {
		return nil, err
	}
	if err := w.Truncate(final); err != nil {
		return nil, err
	}
	return os.ReadFile(outPath)
}

// ---------------------------------------------------------------------------
// behavioural detection of the writer's two unexported constants

// singleWriteOps writes nw in one call against old and returns the decoded ops.
func singleWriteOps(old, nw []byte) ([]ovOp, error) {
	sink := &memSink{}
	ow, err := overlay.NewOverlayWriter(bytes.NewReader(old), 0, sink, 0)
	if err != nil {
		return nil, err
	}
	if _, err := ow.Write(nw); err != nil {
		return nil, err
	}
	if err := ow.Finalize(); err != nil {
		return nil, err
	}
	var d decoded
	if _, err := refApply(sink.data, old, &d); err != nil {
		return nil, err
	}
	return d.ops, nil
}

// detectParams finds the effective processing window (a single write of more
// than one window against an empty old file is emitted as FRESH ops of one
// window each) and the skip threshold (the largest length of an all-equal input
// that is not turned into a SKIP; located by bisection, then confirmed on both
// sides).
func detectParams() (window, threshold int, err error) {
	defer func() {
		if x := recover(); x != nil {
			err = fmt.Errorf("panic while probing: %v", x)
		}
	}()
	const probe = 3*128*1024 + 5
	ops, err := singleWriteOps(nil, bytes.Repeat([]byte{7}, probe))
	if err != nil {
		return 0, 0, err
	}
	if len(ops) < 2 || ops[0].typ != overlay.OverlayOp_FRESH || ops[0].n <= 0 || ops[0].n >= probe {
		return 0, 0, fmt.Errorf("window probe: unexpected op list (%d ops)", len(ops))
	}
	window = int(ops[0].n)
	hasSkip := func(n int) (bool, error) {
		b := bytes.Repeat([]byte{9}, n)
		ops, err := singleWriteOps(b, b)
		if err != nil {
			return false, err
		}
		for _, o := range ops {
			if o.typ == overlay.OverlayOp_SKIP && o.n > 0 {
				return true, nil
			}
		}
		return false, nil
	}
	top, err := hasSkip(window)
	if err != nil {
		return 0, 0, err
	}
	if !top {
		return 0, 0, fmt.Errorf("threshold probe: a full window of equal bytes is not skipped")
	}
	lo, hi := 0, window // invariant: !hasSkip(lo) (vacuous for 0), hasSkip(hi)
	for hi-lo > 1 {
		mid := (lo + hi) / 2
		s, err := hasSkip(mid)
		if err != nil {
			return 0, 0, err
		}
		if s {
			hi = mid
		} else {
			lo = mid
		}
	}
	return window, lo, nil
}
