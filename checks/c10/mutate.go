package main

// Flat message model of a stream and the mutation catalogue.
//
// A decoded stream (wh.DecodePatch / wh.DecodeSig / decodeOverlay) is flattened
// into the list of its non-container messages, in stream order, end markers
// included. A mutation edits that list (set one field, delete / duplicate /
// swap messages) or the stream header; the list is then framed again with
// wh.Frame, so containers and declared message lengths always stay valid.

import (
	"bytes"
	"encoding/binary"
	"fmt"
	"math"

	"github.com/golang/protobuf/proto"
	"github.com/itchio/lake/tlc"
	"github.com/itchio/wharf/bsdiff"
	"github.com/itchio/wharf/pwr"
	"github.com/itchio/wharf/pwr/overlay"

	"verif/lib/wh"
)

// Mut is one mutation. It is part of the replay artefact.
type Mut struct {
	Kind  string `json:"kind"`            // trunc | set | del | dup | swap | hdr
	Cut   int    `json:"cut,omitempty"`   // trunc: number of leading bytes kept
	Msg   int    `json:"msg,omitempty"`   // index into the flat message list
	Field string `json:"field,omitempty"` // set/hdr: field name
	Val   int64  `json:"val,omitempty"`   // integer value; for bytes fields the new length
}

// MarshalJSON writes only the members that are meaningful for the kind, but
// always those (a zero message index or value is spelled out).
func (m Mut) MarshalJSON() ([]byte, error) {
	switch m.Kind {
	case "trunc":
		return []byte(fmt.Sprintf(`{"kind":"trunc","cut":%d}`, m.Cut)), nil
	case "set":
		return []byte(fmt.Sprintf(`{"kind":"set","msg":%d,"field":%q,"val":%d}`, m.Msg, m.Field, m.Val)), nil
	case "hdr":
		return []byte(fmt.Sprintf(`{"kind":"hdr","field":%q,"val":%d}`, m.Field, m.Val)), nil
	}
	return []byte(fmt.Sprintf(`{"kind":%q,"msg":%d}`, m.Kind, m.Msg)), nil
}

func (m Mut) String() string {
	switch m.Kind {
	case "trunc":
		return fmt.Sprintf("truncate to %d bytes", m.Cut)
	case "set":
		return fmt.Sprintf("msg[%d].%s <- %d", m.Msg, m.Field, m.Val)
	case "hdr":
		return fmt.Sprintf("header.%s <- %d", m.Field, m.Val)
	case "swap":
		return fmt.Sprintf("swap msg[%d] and msg[%d]", m.Msg, m.Msg+1)
	default:
		return fmt.Sprintf("%s msg[%d]", m.Kind, m.Msg)
	}
}

// flat is a flattened stream.
type flat struct {
	kind      string // patch | sig | overlay
	target    *tlc.Container
	source    *tlc.Container // patch: new build; sig: the signed container
	msgs      []proto.Message
	series    []int // patch: series index of every message
	oldSizeOv int64 // overlay: size of the file being patched
}

func flattenPatch(p *wh.Patch) *flat {
	f := &flat{kind: "patch", target: p.Target, source: p.Source}
	add := func(si int, m proto.Message) {
		f.msgs = append(f.msgs, m)
		f.series = append(f.series, si)
	}
	for si, s := range p.Series {
		add(si, s.Header)
		if s.Bsdiff != nil {
			add(si, s.Bsdiff)
			for _, c := range s.Ctrl {
				add(si, c)
			}
		} else {
			for _, op := range s.Ops {
				add(si, op)
			}
		}
		add(si, &pwr.SyncOp{Type: pwr.SyncOp_HEY_YOU_DID_IT})
	}
	return f
}

func flattenSig(s *wh.Sig) *flat {
	f := &flat{kind: "sig", source: s.Container}
	for _, h := range s.Hashes {
		f.msgs = append(f.msgs, h)
		f.series = append(f.series, 0)
	}
	return f
}

// decodeOverlay is the check's own decoder of an overlay stream: int32 LE
// magic, then uvarint-framed messages; the first one is the (empty)
// OverlayHeader, the rest are OverlayOps.
func decodeOverlay(b []byte, oldSize int64) (*flat, error) {
	if len(b) < 4 || int32(binary.LittleEndian.Uint32(b)) != overlay.OverlayMagic {
		return nil, fmt.Errorf("overlay: bad magic")
	}
	off := 4
	f := &flat{kind: "overlay", oldSizeOv: oldSize}
	first := true
	for off < len(b) {
		l, n := binary.Uvarint(b[off:])
		if n <= 0 || uint64(len(b)-off-n) < l {
			return nil, fmt.Errorf("overlay: bad frame at %d", off)
		}
		body := b[off+n : off+n+int(l)]
		off += n + int(l)
		if first {
			first = false
			if l != 0 {
				return nil, fmt.Errorf("overlay: non-empty header")
			}
			continue
		}
		op := &overlay.OverlayOp{}
		if err := proto.Unmarshal(body, op); err != nil {
			return nil, err
		}
		f.msgs = append(f.msgs, op)
		f.series = append(f.series, 0)
	}
	return f, nil
}

// frameOverlay is the small framing helper for overlay streams.
func frameOverlay(msgs []proto.Message) []byte {
	var out bytes.Buffer
	binary.Write(&out, binary.LittleEndian, int32(overlay.OverlayMagic))
	wh.Frame(&out, &overlay.OverlayHeader{})
	for _, m := range msgs {
		wh.Frame(&out, m)
	}
	return out.Bytes()
}

// hdrSpec describes a mutated stream header (patch / signature).
type hdrSpec struct {
	nilCompression bool
	algo           *int64
	quality        *int64
}

// encode frames the (mutated) message list into a stream.
func (f *flat) encode(msgs []proto.Message, comp wh.Comp, hs *hdrSpec) ([]byte, error) {
	switch f.kind {
	case "overlay":
		return frameOverlay(msgs), nil
	case "patch", "sig":
		var body bytes.Buffer
		if f.kind == "patch" {
			wh.Frame(&body, f.target)
		}
		wh.Frame(&body, f.source)
		for _, m := range msgs {
			wh.Frame(&body, m)
		}
		if hs == nil && f.kind == "patch" {
			return wh.EncodePatchRaw(comp, body.Bytes())
		}
		cs := comp.Settings()
		if hs != nil {
			if hs.algo != nil {
				cs.Algorithm = pwr.CompressionAlgorithm(*hs.algo)
			}
			if hs.quality != nil {
				cs.Quality = int32(*hs.quality)
			}
			if hs.nilCompression {
				cs = nil
			}
		}
		var out bytes.Buffer
		if f.kind == "patch" {
			binary.Write(&out, binary.LittleEndian, pwr.PatchMagic)
			wh.Frame(&out, &pwr.PatchHeader{Compression: cs})
		} else {
			binary.Write(&out, binary.LittleEndian, pwr.SignatureMagic)
			wh.Frame(&out, &pwr.SignatureHeader{Compression: cs})
		}
		z, err := wh.Compress(comp, body.Bytes())
		if err != nil {
			return nil, err
		}
		out.Write(z)
		return out.Bytes(), nil
	}
	return nil, fmt.Errorf("bad flat kind %q", f.kind)
}

// apply applies the non-truncating mutations to a copy of the message list.
// Message indices of later mutations refer to the original list, so they are
// applied from the highest index down for del/dup.
func (f *flat) apply(muts []Mut) ([]proto.Message, *hdrSpec, error) {
	msgs := make([]proto.Message, len(f.msgs))
	copy(msgs, f.msgs)
	var hs *hdrSpec
	// pass 1: field edits and swaps (do not change indices... swaps do, but a
	// swap is never combined with another structural mutation)
	for _, m := range muts {
		switch m.Kind {
		case "set":
			if m.Msg < 0 || m.Msg >= len(msgs) {
				return nil, nil, fmt.Errorf("mutation %v: no such message", m)
			}
			c := proto.Clone(msgs[m.Msg])
			if err := setField(c, m.Field, m.Val); err != nil {
				return nil, nil, err
			}
			msgs[m.Msg] = c
		case "swap":
			if m.Msg < 0 || m.Msg+1 >= len(msgs) {
				return nil, nil, fmt.Errorf("mutation %v: no such message", m)
			}
			msgs[m.Msg], msgs[m.Msg+1] = msgs[m.Msg+1], msgs[m.Msg]
		case "hdr":
			if hs == nil {
				hs = &hdrSpec{}
			}
			v := m.Val
			switch m.Field {
			case "compression=nil":
				hs.nilCompression = true
			case "algorithm":
				hs.algo = &v
			case "quality":
				hs.quality = &v
			default:
				return nil, nil, fmt.Errorf("mutation %v: unknown header field", m)
			}
		}
	}
	// pass 2: structural, highest index first
	for i := len(msgs) - 1; i >= 0; i-- {
		for _, m := range muts {
			if m.Msg != i {
				continue
			}
			switch m.Kind {
			case "del":
				msgs = append(msgs[:i:i], msgs[i+1:]...)
			case "dup":
				rest := append([]proto.Message{msgs[i]}, msgs[i:]...)
				msgs = append(msgs[:i:i], rest...)
			}
		}
	}
	return msgs, hs, nil
}

func resize(b []byte, n int64, fill byte) []byte {
	if n < 0 {
		n = 0
	}
	out := make([]byte, n)
	k := copy(out, b)
	for i := k; i < len(out); i++ {
		out[i] = fill
	}
	return out
}

func setField(m proto.Message, field string, v int64) error {
	switch x := m.(type) {
	case *pwr.SyncHeader:
		switch field {
		case "type":
			x.Type = pwr.SyncHeader_Type(v)
			return nil
		case "fileIndex":
			x.FileIndex = v
			return nil
		}
	case *pwr.SyncOp:
		switch field {
		case "type":
			x.Type = pwr.SyncOp_Type(v)
			return nil
		case "fileIndex":
			x.FileIndex = v
			return nil
		case "blockIndex":
			x.BlockIndex = v
			return nil
		case "blockSpan":
			x.BlockSpan = v
			return nil
		case "data":
			x.Data = resize(x.Data, v, 0x55)
			return nil
		}
	case *pwr.BsdiffHeader:
		if field == "targetIndex" {
			x.TargetIndex = v
			return nil
		}
	case *bsdiff.Control:
		switch field {
		case "add":
			x.Add = resize(x.Add, v, 0)
			return nil
		case "copy":
			x.Copy = resize(x.Copy, v, 0x55)
			return nil
		case "seek":
			x.Seek = v
			return nil
		case "eof":
			x.Eof = v != 0
			return nil
		}
	case *pwr.BlockHash:
		switch field {
		case "weakHash":
			x.WeakHash = uint32(v)
			return nil
		case "strongHash":
			x.StrongHash = resize(x.StrongHash, v, 0x55)
			return nil
		}
	case *overlay.OverlayOp:
		switch field {
		case "type":
			x.Type = overlay.OverlayOp_Type(v)
			return nil
		case "len":
			x.Len = v
			return nil
		case "data":
			x.Data = resize(x.Data, v, 0x55)
			return nil
		}
	}
	return fmt.Errorf("cannot set %T.%s", m, field)
}

func getField(m proto.Message, field string) int64 {
	switch x := m.(type) {
	case *pwr.SyncHeader:
		switch field {
		case "type":
			return int64(x.Type)
		case "fileIndex":
			return x.FileIndex
		}
	case *pwr.SyncOp:
		switch field {
		case "type":
			return int64(x.Type)
		case "fileIndex":
			return x.FileIndex
		case "blockIndex":
			return x.BlockIndex
		case "blockSpan":
			return x.BlockSpan
		case "data":
			return int64(len(x.Data))
		}
	case *pwr.BsdiffHeader:
		return x.TargetIndex
	case *bsdiff.Control:
		switch field {
		case "add":
			return int64(len(x.Add))
		case "copy":
			return int64(len(x.Copy))
		case "seek":
			return x.Seek
		case "eof":
			if x.Eof {
				return 1
			}
			return 0
		}
	case *pwr.BlockHash:
		switch field {
		case "weakHash":
			return int64(x.WeakHash)
		case "strongHash":
			return int64(len(x.StrongHash))
		}
	case *overlay.OverlayOp:
		switch field {
		case "type":
			return int64(x.Type)
		case "len":
			return x.Len
		case "data":
			return int64(len(x.Data))
		}
	}
	return 0
}

// intValues is the boundary value set for an integer field whose meaningful
// range is [0,count): negative, zero, one, around count, the end-marker number,
// 2^31 and the int64 extremes.
func intValues(count int64, eachValid bool) []int64 {
	vs := []int64{-1, 0, 1, count - 1, count, count + 1, 2049, 1 << 31, math.MaxInt64, math.MinInt64}
	if eachValid && count <= 8 {
		for i := int64(0); i < count; i++ {
			vs = append(vs, i)
		}
	}
	return dedupe(vs)
}

func dedupe(vs []int64) []int64 {
	seen := map[int64]bool{}
	var out []int64
	for _, v := range vs {
		if !seen[v] {
			seen[v] = true
			out = append(out, v)
		}
	}
	return out
}

func numBlocks(size int64) int64 { return (size + wh.B - 1) / wh.B }

// setMuts enumerates every single-field mutation of message i.
func (f *flat) setMuts(i int) []Mut {
	var out []Mut
	add := func(field string, vals []int64) {
		cur := getField(f.msgs[i], field)
		for _, v := range dedupe(vals) {
			if v == cur {
				continue
			}
			out = append(out, Mut{Kind: "set", Msg: i, Field: field, Val: v})
		}
	}
	nTarget, nSource := int64(0), int64(0)
	if f.target != nil {
		nTarget = int64(len(f.target.Files))
	}
	if f.source != nil {
		nSource = int64(len(f.source.Files))
	}
	switch x := f.msgs[i].(type) {
	case *pwr.SyncHeader:
		add("type", []int64{0, 1, 2, 7, 2049, -1})
		add("fileIndex", intValues(nSource, true))
	case *pwr.SyncOp:
		add("type", []int64{0, 1, 2049, 2, 7, -1})
		add("fileIndex", intValues(nTarget, true))
		nb := int64(1)
		if x.FileIndex >= 0 && x.FileIndex < nTarget {
			nb = numBlocks(f.target.Files[x.FileIndex].Size)
		}
		add("blockIndex", intValues(nb, false))
		add("blockSpan", intValues(nb, false))
		add("data", []int64{0, int64(len(x.Data)) + 1})
	case *pwr.BsdiffHeader:
		add("targetIndex", intValues(nTarget, true))
	case *bsdiff.Control:
		oldSize := f.bsdiffOldSize(i)
		add("add", []int64{0, int64(len(x.Add)) + 1, oldSize + 1})
		add("copy", []int64{0, int64(len(x.Copy)) + 1})
		add("seek", append(intValues(oldSize, false), -oldSize, -oldSize-1))
		add("eof", []int64{0, 1})
	case *pwr.BlockHash:
		add("weakHash", []int64{0, 1, math.MaxUint32})
		add("strongHash", []int64{0, 1, int64(len(x.StrongHash)) + 1})
	case *overlay.OverlayOp:
		add("type", []int64{0, 1, 2040, 2, 7, 2049, -1})
		add("len", intValues(f.oldSizeOv, false))
		add("data", []int64{0, int64(len(x.Data)) + 1})
	}
	return out
}

// bsdiffOldSize finds the size of the old file a bsdiff control (message i)
// applies to: the target file named by the series' BsdiffHeader.
func (f *flat) bsdiffOldSize(i int) int64 {
	for j := i; j >= 0 && f.series[j] == f.series[i]; j-- {
		if bh, ok := f.msgs[j].(*pwr.BsdiffHeader); ok {
			if bh.TargetIndex >= 0 && bh.TargetIndex < int64(len(f.target.Files)) {
				return f.target.Files[bh.TargetIndex].Size
			}
		}
	}
	return 0
}

// structMuts enumerates delete / duplicate of every message and swaps of
// neighbours (missing, duplicated and moved end markers, headers, controls;
// fewer or more block hashes).
func (f *flat) structMuts() []Mut {
	var out []Mut
	for i := range f.msgs {
		out = append(out, Mut{Kind: "del", Msg: i}, Mut{Kind: "dup", Msg: i})
		if i+1 < len(f.msgs) && !proto.Equal(f.msgs[i], f.msgs[i+1]) {
			out = append(out, Mut{Kind: "swap", Msg: i})
		}
	}
	return out
}

// hdrMuts enumerates header mutations that keep the body readable as declared:
// compression settings absent, algorithm set to a value without a registered
// decompressor, any quality. (Swapping one registered algorithm for another
// would make the reader see ill-formed containers and arbitrary message
// lengths, which the property excludes.)
func hdrMuts() []Mut {
	out := []Mut{{Kind: "hdr", Field: "compression=nil"}}
	for _, v := range []int64{3, 7, 2049, -1} {
		out = append(out, Mut{Kind: "hdr", Field: "algorithm", Val: v})
	}
	for _, v := range []int64{-1, 0, 1, 12, 1<<31 - 1, -1 << 31} {
		out = append(out, Mut{Kind: "hdr", Field: "quality", Val: v})
	}
	return out
}

// describe renders a message compactly for failure reports.
func describe(m proto.Message) string {
	switch x := m.(type) {
	case *pwr.SyncHeader:
		return fmt.Sprintf("SyncHeader{type:%d fileIndex:%d}", x.Type, x.FileIndex)
	case *pwr.SyncOp:
		return fmt.Sprintf("SyncOp{type:%d fileIndex:%d blockIndex:%d blockSpan:%d data:%dB}", x.Type, x.FileIndex, x.BlockIndex, x.BlockSpan, len(x.Data))
	case *pwr.BsdiffHeader:
		return fmt.Sprintf("BsdiffHeader{targetIndex:%d}", x.TargetIndex)
	case *bsdiff.Control:
		return fmt.Sprintf("Control{add:%dB copy:%dB seek:%d eof:%v}", len(x.Add), len(x.Copy), x.Seek, x.Eof)
	case *pwr.BlockHash:
		return fmt.Sprintf("BlockHash{weak:%d strong:%dB}", x.WeakHash, len(x.StrongHash))
	case *overlay.OverlayOp:
		return fmt.Sprintf("OverlayOp{type:%d len:%d data:%dB}", x.Type, x.Len, len(x.Data))
	}
	return fmt.Sprintf("%T", m)
}

func describeAll(msgs []proto.Message) string {
	var sb bytes.Buffer
	for i, m := range msgs {
		if i > 0 {
			sb.WriteString(" ")
		}
		if i >= 24 {
			fmt.Fprintf(&sb, "... (%d messages)", len(msgs))
			break
		}
		fmt.Fprintf(&sb, "[%d]%s", i, describe(m))
	}
	return sb.String()
}
