package main

// Seed streams: small valid patch / signature / overlay streams produced by the
// real writers (pwr.DiffContext.WritePatch, rediff Optimize, overlay writer).

import (
	"bytes"
	"fmt"
	"os"
	"path/filepath"

	"github.com/golang/protobuf/proto"
	"github.com/itchio/wharf/pwr/overlay"

	"verif/lib/wh"
)

type seedDef struct {
	Name     string
	Old, New wh.Build
	Optimize bool // run the real optimizer on the rsync patch (bsdiff series)
	SigOnly  bool // only its signature stream is used
}

// Bulk data is kept small on purpose: DATA ops of a few bytes, a 0.4 KB bsdiff series;
// old files may be large (BLOCK_RANGE ops cost nothing in the stream).
var seedDefs = []seedDef{
	// BLOCK_RANGE (span 2) + DATA in one series; in the other a BLOCK_RANGE that is not
	// a whole-file op and ends on the short last block. (wsync never matches the last
	// 64 KiB of a file at an unaligned offset, so small patches have aligned shapes;
	// the swap mutation produces the other op orders.) The old build also has an empty
	// file, so that "each valid index" reaches a zero-length target.
	{Name: "mixed", Old: wh.Build{wh.F("a", "A.B.C/100"), wh.F("e", "")}, New: wh.Build{wh.F("a", "A.B.=xyz"), wh.F("d", "B.C/100")}},
	// whole-file ops: rename, untouched file; plus a new empty file
	{Name: "whole", Old: wh.Build{wh.F("a", "A"), wh.F("b", "B/1000")}, New: wh.Build{wh.F("c", "A"), wh.F("b", "B/1000"), wh.F("d", "")}},
	// several files, multi-op series, an EMPTY old file, fresh file, tiny change
	{Name: "multi", Old: wh.Build{wh.F("a", "A.B"), wh.F("e", ""), wh.F("s", "=small")}, New: wh.Build{wh.F("a", "B.A.=tail"), wh.F("n", "=brandnew"), wh.F("s", "=smalL")}},
	// dirs and symlinks in both containers, rename of a tiny file
	{Name: "tree", Old: wh.Build{wh.F("d/x", "=1"), wh.L("l", "d/x")}, New: wh.Build{wh.F("d/y", "=1"), wh.D("e"), wh.L("l", "d/y")}},
	// no old build at all: the target container has no files
	{Name: "noold", Old: wh.Build{}, New: wh.Build{wh.F("a", "=abc")}},
	// optimized patch: one bsdiff series (header + controls) and an untouched file
	{Name: "bsdiff", Old: wh.Build{wh.F("a", "r1/200.r2/200"), wh.F("k", "=keep")}, New: wh.Build{wh.F("a", "r1/200.=INS.r2/200"), wh.F("k", "=keep")}, Optimize: true},
	// optimized patch against an old file of exactly two 32 KiB cache chunks: a control whose
	// add is resized "past the old file" then reads up to and at the very end of the file
	// through the chunked cache
	{Name: "bsdiff64k", Old: wh.Build{wh.F("a", "r1/65536")}, New: wh.Build{wh.F("a", "r1/32768.=INSERTED.r5/32768")}, Optimize: true},
	// signature only: a 5-block file, an empty file, a tiny file
	{Name: "sig5", Old: wh.Build{}, New: wh.Build{wh.F("a", "A.B.C.D.E/100"), wh.F("e", ""), wh.F("s", "=x")}, SigOnly: true},
}

var comps = []wh.Comp{"none", "gzip-1", "brotli-1"}

type seed struct {
	// unavailable: why this seed could not be produced on the current tree (the optimizer
	// chose not to write a bsdiff series, or failed on the valid input — the latter is C07's
	// business). Its cases are skipped with a note; never an alarm of this check.
	unavailable    string
	def            seedDef
	oldDir, newDir string
	patch          map[wh.Comp][]byte // real writer output
	sig            map[wh.Comp][]byte
	flatPatch      *flat
	flatSig        *flat
}

type seedSet struct {
	root  string
	seed  int64
	seeds map[string]*seed
}

func newSeedSet(root string, seedv int64) *seedSet {
	return &seedSet{root: root, seed: seedv, seeds: map[string]*seed{}}
}

func defByName(name string) (seedDef, bool) {
	for _, d := range seedDefs {
		if d.Name == name {
			return d, true
		}
	}
	return seedDef{}, false
}

// get builds (once per worker) the seed: materialises both builds, runs the real
// diff (and optimizer) under every framing, decodes with the independent decoder
// and checks that re-encoding the unmutated message list reproduces the stream.
func (ss *seedSet) get(name string) *seed {
	if s, ok := ss.seeds[name]; ok {
		return s
	}
	def, ok := defByName(name)
	if !ok {
		panic("no such seed " + name)
	}
	s := &seed{def: def, patch: map[wh.Comp][]byte{}, sig: map[wh.Comp][]byte{}}
	s.oldDir = filepath.Join(ss.root, name, "old")
	s.newDir = filepath.Join(ss.root, name, "new")
	must(def.Old.Materialize(s.oldDir, ss.seed))
	must(def.New.Materialize(s.newDir, ss.seed))
	for _, c := range comps {
		dr, err := wh.Diff(s.oldDir, s.newDir, c)
		must(err)
		p := dr.Patch
		if def.Optimize {
			p, _, err = wh.Rediff(dr.Patch, s.oldDir, s.newDir, wh.RediffParams{Comp: c})
			if err != nil {
				s.unavailable = "the optimizer failed on the seed's valid patch: " + err.Error()
				ss.seeds[name] = s
				return s
			}
		}
		s.patch[c] = p
		s.sig[c] = dr.Sig
	}
	dp, err := wh.DecodePatch(s.patch["none"])
	must(err)
	s.flatPatch = flattenPatch(dp)
	ds, err := wh.DecodeSig(s.sig["none"])
	must(err)
	s.flatSig = flattenSig(ds)

	// self-checks of the harness codec (a failure here is a harness error): framing
	// the unmutated message list must give a stream that decodes to the same
	// containers and messages as the real writer's stream, under every framing,
	// and must agree byte for byte with wh.(*Patch).Encode / wh.(*Sig).Encode.
	for _, c := range comps {
		re, err := s.flatPatch.encode(s.flatPatch.msgs, c, nil)
		must(err)
		viaLib, err := dp.Encode(c)
		must(err)
		if !bytes.Equal(viaLib, re) {
			panic(fmt.Sprintf("seed %s/%s: flat encoding differs from wh.(*Patch).Encode", name, c))
		}
		for _, stream := range [][]byte{re, s.patch[c]} {
			d, err := wh.DecodePatch(stream)
			must(err)
			if !sameFlat(flattenPatch(d), s.flatPatch) {
				panic(fmt.Sprintf("seed %s/%s: patch does not decode to the seed's message list", name, c))
			}
		}
		reSig, err := s.flatSig.encode(s.flatSig.msgs, c, nil)
		must(err)
		sigLib, err := ds.Encode(c)
		must(err)
		if !bytes.Equal(sigLib, reSig) {
			panic(fmt.Sprintf("seed %s/%s: flat encoding differs from wh.(*Sig).Encode", name, c))
		}
		for _, stream := range [][]byte{reSig, s.sig[c]} {
			d, err := wh.DecodeSig(stream)
			must(err)
			if !sameFlat(flattenSig(d), s.flatSig) {
				panic(fmt.Sprintf("seed %s/%s: signature does not decode to the seed's message list", name, c))
			}
		}
	}
	if def.Optimize {
		nb := 0
		for _, m := range s.flatPatch.msgs {
			if describe(m)[:6] == "Bsdiff" {
				nb++
			}
		}
		if nb == 0 {
			s.unavailable = "the optimizer wrote no bsdiff series for this seed"
		}
	}
	ss.seeds[name] = s
	return s
}

func sameFlat(a, b *flat) bool {
	if !proto.Equal(a.source, b.source) || len(a.msgs) != len(b.msgs) {
		return false
	}
	if (a.target == nil) != (b.target == nil) || (a.target != nil && !proto.Equal(a.target, b.target)) {
		return false
	}
	for i := range a.msgs {
		if !proto.Equal(a.msgs[i], b.msgs[i]) {
			return false
		}
	}
	return true
}

func must(err error) {
	if err != nil {
		panic(err)
	}
}

// ---- overlay seeds ---------------------------------------------------------

type ovSeed struct {
	name     string
	old, new []byte
	stream   []byte
	flat     *flat
}

var ovSeedNames = []string{"skip-fresh-skip", "grow", "fresh", "same", "empty"}

func (ss *seedSet) overlaySeed(name string) *ovSeed {
	o := &ovSeed{name: name}
	switch name {
	case "skip-fresh-skip":
		o.old = wh.Content("r1/20000", ss.seed)
		o.new = append([]byte{}, o.old...)
		for i := 10000; i < 10010; i++ {
			o.new[i] ^= 0xff
		}
	case "grow":
		o.old = wh.Content("r1/9000", ss.seed)
		o.new = append(append([]byte{}, o.old...), wh.Content("r2/500", ss.seed)...)
	case "fresh":
		o.old = wh.Content("r1/300", ss.seed)
		o.new = wh.Content("r2/200", ss.seed)
	case "same":
		o.old = wh.Content("r1/9000", ss.seed)
		o.new = o.old
	case "empty":
		o.old = wh.Content("r1/10", ss.seed)
		o.new = nil
	default:
		panic("no such overlay seed " + name)
	}
	var buf bytes.Buffer
	ow, err := overlay.NewOverlayWriter(bytes.NewReader(o.old), 0, &buf, 0)
	must(err)
	_, err = ow.Write(o.new)
	must(err)
	must(ow.Finalize())
	o.stream = buf.Bytes()
	f, err := decodeOverlay(o.stream, int64(len(o.old)))
	must(err)
	o.flat = f
	if re := frameOverlay(f.msgs); !bytes.Equal(re, o.stream) {
		panic("overlay seed " + name + ": re-framing the unmutated ops does not reproduce the real stream")
	}
	return o
}

func writeFile(path string, b []byte) {
	must(os.MkdirAll(filepath.Dir(path), 0o755))
	must(os.WriteFile(path, b, 0o644))
}
