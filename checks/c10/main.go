// C10 — malformed patch / signature / overlay streams yield an error, never a
// crash. Fault enumeration: every byte-level truncation of small valid streams
// written by the real writers, and every single field-level / structural
// mutation of their independently decoded message lists (re-framed so that
// containers and declared message lengths stay valid), fed to
//
//	patcher.New + Resume (fresh bowl, overlay bowl + Commit, dry bowl)
//	rediff.NewContext + Optimize
//	pwr.ReadSignature + pwr.ComputeHashInfo
//	overlay.OverlayPatchContext.Patch
//
// Oracle: the call returns (error or nil). A panic, a process crash or a case
// that is still running after the watchdog limit is a violation.
package main

import (
	"bytes"
	"compress/gzip"
	"encoding/binary"
	"fmt"
	"io"
	"os"
	"path/filepath"
	"strings"
	"time"

	"github.com/golang/protobuf/proto"
	dsbrotli "github.com/itchio/dskompress/brotli"
	"github.com/itchio/wharf/pwr"

	"verif/lib/runner"
	"verif/lib/wh"
)

// Case is the replay artefact: seed stream, framing, reader under test, mutations.
type Case struct {
	Seed   string  `json:"seed"`
	Comp   wh.Comp `json:"comp,omitempty"`
	Target string  `json:"target"` // apply-fresh | apply-overlay | apply-dry | optimize | optimize-fma | signature | overlay
	Muts   []Mut   `json:"muts"`   // empty = the valid seed stream itself
}

func main() {
	runner.Main(runner.Config{
		ID:    "C10",
		Level: "fault_enumeration",
		Rule:  "seed streams: 7 small valid patches (rsync ops of every kind, whole-file ops, empty files, no old build, dirs+symlinks, two optimized patches with a bsdiff series - one against an old file of exactly two 32KiB cache chunks), 5 signatures, 5 overlay streams, written by the real writers under none/gzip-1/brotli-1 framing. Enumerated exhaustively per reader: (a) every prefix length of every seed stream; (b) on the independently decoded message list: every integer/enum field of every non-container message <- {-1,0,1,count-1,count,count+1,2049,2^31,2^63-1,-2^63, each valid index} (enums: defined values, 2, 7, 2049, -1), bytes fields resized (empty, +1, past the old file), bool toggled, every message deleted / duplicated / swapped with its neighbour (missing, duplicated, moved end markers and headers; fewer/more block hashes), header compression nil / unregistered algorithm / any quality; all pairs (field x field, field x delete/duplicate/swap) of mutations of every overlay stream; thorough adds all such pairs within one file's series (every patch seed, uncompressed framing, patcher with each bowl and optimizer) and the optimizer with ForceMapAll. Mutated lists are re-framed with the harness codec so containers and declared lengths stay valid. Non-trivial = the reader gets past the containers: any message-level mutation, or a truncation that leaves both containers (signature: the container; overlay: magic+header) intact as judged by an independent tolerant decode of the prefix.",
		Assumptions: []string{
			"header mutations that swap one registered compression algorithm for another are not enumerated: the reader would then see ill-formed containers and arbitrary message lengths, which the property excludes",
			"file contents are seeded pseudo-random (VERIF_SEED); the shape of seeds and mutations does not depend on the seed",
			"a hang is a case still running after 60 s (normal run time is below 10 ms); the watchdog only abandons the case, it is not a performance oracle",
			"the readers are given lake's fspool over the real old/new directories, as butler does",
		},
		QuickBudget:    85 * time.Second,
		ThoroughBudget: 14 * time.Minute,
	}, body)
}

type env struct {
	w     *runner.W
	seeds *seedSet
	ov    map[string]*ovSeed
	g     *guard
	caseN int
	// unavailable: seeds the current tree cannot produce (name -> reason); reported as notes
	unavailable map[string]string
}

func (e *env) ovSeed(name string) *ovSeed {
	if o, ok := e.ov[name]; ok {
		return o
	}
	o := e.seeds.overlaySeed(name)
	e.ov[name] = o
	return o
}

func splitMuts(muts []Mut) (cut int, hasCut bool, rest []Mut) {
	for _, m := range muts {
		if m.Kind == "trunc" {
			cut, hasCut = m.Cut, true
		} else {
			rest = append(rest, m)
		}
	}
	return
}

// runCase builds the mutated stream, feeds it to the reader and judges.
func (e *env) runCase(c Case, r *runner.Rec) {
	var real []byte
	var fl *flat
	var sd *seed
	var ovs *ovSeed
	kind := "patch"
	switch c.Target {
	case "signature":
		kind = "sig"
		sd = e.seeds.get(c.Seed)
		real, fl = sd.sig[c.Comp], sd.flatSig
	case "overlay":
		kind = "overlay"
		ovs = e.ovSeed(c.Seed)
		real, fl = ovs.stream, ovs.flat
	default:
		sd = e.seeds.get(c.Seed)
		real, fl = sd.patch[c.Comp], sd.flatPatch
	}
	if sd != nil && sd.unavailable != "" {
		r.Outcome("seed-unavailable")
		return
	}
	if real == nil {
		panic(fmt.Sprintf("harness: no %s stream for seed %s under %q", kind, c.Seed, c.Comp))
	}

	cut, hasCut, rest := splitMuts(c.Muts)
	stream := real
	msgs := fl.msgs
	nontrivial := len(rest) > 0
	var descs []string
	if len(rest) > 0 {
		m2, hs, err := fl.apply(rest)
		if err != nil {
			panic("harness: " + err.Error())
		}
		msgs = m2
		stream, err = fl.encode(msgs, c.Comp, hs)
		if err != nil {
			panic("harness: " + err.Error())
		}
		for _, m := range rest {
			d := m.String()
			if m.Kind != "hdr" && m.Msg < len(fl.msgs) {
				d += " (was " + describe(fl.msgs[m.Msg]) + ")"
			}
			if m.Kind == "hdr" {
				nontrivial = false
			}
			descs = append(descs, d)
		}
	}
	if hasCut {
		if cut > len(stream) {
			cut = len(stream)
		}
		stream = stream[:cut]
		descs = append(descs, fmt.Sprintf("truncated to %d of %d bytes", cut, len(real)))
		nontrivial = containersIntact(kind, stream)
	}
	if len(c.Muts) == 0 {
		nontrivial = false // the valid stream is a sanity case, not a fault
	}
	if nontrivial {
		r.Nontrivial()
	}
	r.Trans(len(msgs) + 1)

	e.caseN++
	caseDir := filepath.Join(e.w.Scratch(), fmt.Sprintf("case%d", e.caseN))
	needDir := c.Target == "apply-fresh" || c.Target == "apply-overlay" || c.Target == "overlay"
	if needDir {
		if err := os.MkdirAll(caseDir, 0o755); err != nil {
			panic("harness: " + err.Error())
		}
	}

	o := e.g.run(func(stage *string) error {
		switch c.Target {
		case "apply-fresh", "apply-overlay", "apply-dry":
			return applyPatch(stream, sd, strings.TrimPrefix(c.Target, "apply-"), caseDir, stage)
		case "optimize":
			return optimizePatch(stream, sd, false, stage)
		case "optimize-fma":
			return optimizePatch(stream, sd, true, stage)
		case "signature":
			return readSignature(stream, stage)
		case "overlay":
			return applyOverlay(stream, ovs.old, caseDir, stage)
		}
		panic("harness: bad target " + c.Target)
	})

	what := strings.Join(descs, "; ")
	if what == "" {
		what = "valid seed stream"
	}
	listLabel := "messages after the containers"
	if hasCut {
		listLabel = "messages of the stream before truncation"
	}
	switch {
	case o.hung:
		// the goroutine (and its scratch files) are leaked on purpose
		r.Outcome(c.Target + ":hang")
		r.Failf("hang:"+c.Target, "%s: still running after %s (seed %s/%s); %s: %s", what, watchdogLimit, c.Seed, c.Comp, listLabel, describeAll(msgs))
		return
	case o.panicked:
		if needDir {
			os.RemoveAll(caseDir)
		}
		if strings.HasPrefix(o.pmsg, "harness:") {
			r.Failf("harness-error", "%s", o.pmsg)
			return
		}
		r.Outcome(c.Target + ":panic:" + o.site)
		r.Failf("panic:"+o.site, "panic: %s | %s | seed %s/%s reader %s stage %s | %s: %s\n%s", o.pmsg, what, c.Seed, c.Comp, c.Target, o.stage, listLabel, describeAll(msgs), o.stack)
		return
	}
	if needDir {
		os.RemoveAll(caseDir)
	}
	r.Outcome(c.Target + ":" + o.stage + ":" + errClass(o.err))
	if len(c.Muts) == 0 && o.err != nil {
		// guards against a vacuous run (every stream rejected up front)
		r.Failf("vacuity-guard:valid-seed-rejected", "the unmutated seed stream %s/%s was rejected by %s: %v", c.Seed, c.Comp, c.Target, o.err)
	}
}

// ---- independent tolerant prefix decode (non-triviality rule only) ---------

func tolerantInflate(algo pwr.CompressionAlgorithm, b []byte) []byte {
	switch algo {
	case pwr.CompressionAlgorithm_NONE:
		return b
	case pwr.CompressionAlgorithm_GZIP:
		zr, err := gzip.NewReader(bytes.NewReader(b))
		if err != nil {
			return nil
		}
		out, _ := io.ReadAll(zr)
		return out
	case pwr.CompressionAlgorithm_BROTLI:
		br, err := dsbrotli.NewReader(bytes.NewReader(b), nil)
		if err != nil {
			return nil
		}
		out, _ := io.ReadAll(br)
		return out
	}
	return nil
}

func nextFrame(b []byte, off int) (int, bool) {
	if off >= len(b) {
		return off, false
	}
	l, n := binary.Uvarint(b[off:])
	if n <= 0 || uint64(len(b)-off-n) < l {
		return off, false
	}
	return off + n + int(l), true
}

// containersIntact reports whether a (truncated) stream still holds its header
// and container(s) completely.
func containersIntact(kind string, s []byte) (ok bool) {
	defer func() {
		if recover() != nil {
			ok = false
		}
	}()
	if len(s) < 4 {
		return false
	}
	off, good := nextFrame(s, 4)
	if !good {
		return false
	}
	if kind == "overlay" {
		return true
	}
	l, n := binary.Uvarint(s[4:])
	hb := s[4+n : 4+n+int(l)]
	var cs *pwr.CompressionSettings
	if kind == "patch" {
		h := &pwr.PatchHeader{}
		if proto.Unmarshal(hb, h) != nil {
			return false
		}
		cs = h.Compression
	} else {
		h := &pwr.SignatureHeader{}
		if proto.Unmarshal(hb, h) != nil {
			return false
		}
		cs = h.Compression
	}
	if cs == nil {
		return false
	}
	body := tolerantInflate(cs.Algorithm, s[off:])
	need := 1
	if kind == "patch" {
		need = 2
	}
	o := 0
	for i := 0; i < need; i++ {
		o, good = nextFrame(body, o)
		if !good {
			return false
		}
	}
	return true
}

// ---- enumeration -----------------------------------------------------------

var patchSeedNames = []string{"noold", "tree", "mixed", "whole", "multi", "bsdiff"}

// fieldSeedNames: seeds of the field-mutation sub-checks (the 64 KiB series is not truncated
// at every byte: its stream is 65 KB long)
var fieldSeedNames = append(append([]string{}, patchSeedNames...), "bsdiff64k")
var sigSeedNames = []string{"noold", "whole", "multi", "tree", "sig5"}
var pairSeedNames = []string{"noold", "tree", "mixed", "whole", "multi", "bsdiff"}

func (e *env) fieldMuts(fl *flat, withHdr bool) [][]Mut {
	var out [][]Mut
	for i := range fl.msgs {
		for _, m := range fl.setMuts(i) {
			out = append(out, []Mut{m})
		}
	}
	for _, m := range fl.structMuts() {
		out = append(out, []Mut{m})
	}
	if withHdr {
		for _, m := range hdrMuts() {
			out = append(out, []Mut{m})
		}
	}
	return out
}

// pairMuts: all unordered pairs of mutations within one series (one file's
// messages): two field mutations at different (message, field) positions, or one
// field mutation combined with one structural mutation (delete / duplicate /
// swap) of a message of the same series.
func (e *env) pairMuts(fl *flat) [][]Mut {
	var out [][]Mut
	bySeries := map[int][]Mut{}
	var order []int
	for i := range fl.msgs {
		si := fl.series[i]
		if _, ok := bySeries[si]; !ok {
			order = append(order, si)
		}
		bySeries[si] = append(bySeries[si], fl.setMuts(i)...)
	}
	for _, m := range fl.structMuts() {
		si := fl.series[m.Msg]
		if m.Kind == "swap" && fl.series[m.Msg+1] != si {
			continue
		}
		bySeries[si] = append(bySeries[si], m)
	}
	for _, si := range order {
		ms := bySeries[si]
		for a := 0; a < len(ms); a++ {
			for b := a + 1; b < len(ms); b++ {
				sa, sb := ms[a].Kind == "set", ms[b].Kind == "set"
				switch {
				case sa && sb:
					if ms[a].Msg == ms[b].Msg && ms[a].Field == ms[b].Field {
						continue
					}
				case sa || sb:
					st := ms[a]
					if sa {
						st = ms[b]
					}
					if st.Kind == "del" && ms[a].Msg == ms[b].Msg {
						continue // editing a message that is then deleted
					}
				default:
					continue // two structural mutations: index meaning would be ambiguous
				}
				out = append(out, []Mut{ms[a], ms[b]})
			}
		}
	}
	return out
}

func body(w *runner.W) {
	// a worker restarted after a crash inherits the scratch directory of the dead one
	if ents, err := os.ReadDir(w.Scratch()); err == nil {
		for _, en := range ents {
			os.RemoveAll(filepath.Join(w.Scratch(), en.Name()))
		}
	}
	e := &env{w: w, seeds: newSeedSet(filepath.Join(w.Scratch(), "seeds"), w.Seed), ov: map[string]*ovSeed{}, g: &guard{}, unavailable: map[string]string{}}
	run := e.runCase
	thorough := !w.Quick()

	// enumerate feeds cases to a sub-check until the hang budget of this worker
	// is used up; it reports whether the enumeration ran to its end.
	type doer interface {
		Do(Case)
		Done()
		Note(string, any)
	}
	t0 := time.Now()
	finish := func(s doer, complete bool, counts map[string]int) {
		s.Note("one_worker_wall_s", fmt.Sprintf("%.1f", time.Since(t0).Seconds()))
		t0 = time.Now()
		for k, v := range counts {
			s.Note(k, v)
		}
		for name, why := range e.unavailable {
			s.Note("seed_unavailable:"+name, why)
		}
		if complete {
			s.Done()
		} else {
			s.Note("stopped", fmt.Sprintf("enumeration stopped: %d hung cases in this sub-check, %d in this worker", e.g.subHangs, e.g.hangs))
		}
	}

	// ---- optimizer (first: a crash in a goroutine started by bsdiff kills the
	// worker, and a restarted worker re-runs everything declared before) -------
	opt := runner.NewSub(w, "optimize", run, runner.Journal())
	if opt.Active() {
		e.g.beginSub()
		counts := map[string]int{}
		complete := func() bool {
			targets := []string{"optimize"}
			if thorough {
				targets = append(targets, "optimize-fma")
			}
			for _, name := range fieldSeedNames {
				sd := e.seeds.get(name)
				if sd.unavailable != "" {
					e.unavailable[name] = sd.unavailable
					continue
				}
				for _, comp := range comps {
					for _, t := range targets {
						opt.Do(Case{Seed: name, Comp: comp, Target: t})
						for _, ms := range e.fieldMuts(sd.flatPatch, true) {
							if e.g.exhausted() {
								return false
							}
							opt.Do(Case{Seed: name, Comp: comp, Target: t, Muts: ms})
							counts["message_mutations"]++
						}
					}
					for cut := 0; cut < len(sd.patch[comp]); cut++ {
						if e.g.exhausted() {
							return false
						}
						opt.Do(Case{Seed: name, Comp: comp, Target: "optimize", Muts: []Mut{{Kind: "trunc", Cut: cut}}})
						counts["truncations"]++
					}
				}
			}
			if thorough {
				for _, name := range pairSeedNames {
					sd := e.seeds.get(name)
					if sd.unavailable != "" {
						e.unavailable[name] = sd.unavailable
						continue
					}
					for _, ms := range e.pairMuts(sd.flatPatch) {
						if e.g.exhausted() {
							return false
						}
						opt.Do(Case{Seed: name, Comp: "none", Target: "optimize", Muts: ms})
						counts["pair_mutations"]++
					}
				}
			}
			return true
		}()
		finish(opt, complete, counts)
	}

	bowls := []string{"apply-fresh", "apply-overlay", "apply-dry"}

	// ---- patcher: message-level mutations ---------------------------------
	af := runner.NewSub(w, "apply-field", run, runner.Journal())
	if af.Active() {
		e.g.beginSub()
		counts := map[string]int{}
		complete := func() bool {
			for _, name := range fieldSeedNames {
				sd := e.seeds.get(name)
				if sd.unavailable != "" {
					e.unavailable[name] = sd.unavailable
					continue
				}
				for _, comp := range comps {
					for _, t := range bowls {
						af.Do(Case{Seed: name, Comp: comp, Target: t})
						for _, ms := range e.fieldMuts(sd.flatPatch, true) {
							if e.g.exhausted() {
								return false
							}
							af.Do(Case{Seed: name, Comp: comp, Target: t, Muts: ms})
							counts["message_mutations"]++
						}
					}
				}
			}
			return true
		}()
		finish(af, complete, counts)
	}

	// ---- patcher: truncations ------------------------------------------------
	at := runner.NewSub(w, "apply-trunc", run, runner.Journal())
	if at.Active() {
		e.g.beginSub()
		counts := map[string]int{}
		complete := func() bool {
			for _, name := range patchSeedNames {
				sd := e.seeds.get(name)
				if sd.unavailable != "" {
					e.unavailable[name] = sd.unavailable
					continue
				}
				for _, comp := range comps {
					for _, t := range bowls {
						for cut := 0; cut < len(sd.patch[comp]); cut++ {
							if e.g.exhausted() {
								return false
							}
							at.Do(Case{Seed: name, Comp: comp, Target: t, Muts: []Mut{{Kind: "trunc", Cut: cut}}})
							counts["truncations"]++
						}
					}
				}
			}
			return true
		}()
		finish(at, complete, counts)
	}

	// ---- signature -------------------------------------------------------------
	sf := runner.NewSub(w, "sig-field", run, runner.Journal())
	if sf.Active() {
		e.g.beginSub()
		counts := map[string]int{}
		complete := func() bool {
			for _, name := range sigSeedNames {
				sd := e.seeds.get(name)
				if sd.unavailable != "" {
					e.unavailable[name] = sd.unavailable
					continue
				}
				for _, comp := range comps {
					sf.Do(Case{Seed: name, Comp: comp, Target: "signature"})
					for _, ms := range e.fieldMuts(sd.flatSig, true) {
						if e.g.exhausted() {
							return false
						}
						sf.Do(Case{Seed: name, Comp: comp, Target: "signature", Muts: ms})
						counts["message_mutations"]++
					}
					// fewer / more hashes than the container needs: drop the last k, append k copies
					n := len(sd.flatSig.msgs)
					for k := 2; k <= n; k++ {
						var ms []Mut
						for i := n - k; i < n; i++ {
							ms = append(ms, Mut{Kind: "del", Msg: i})
						}
						sf.Do(Case{Seed: name, Comp: comp, Target: "signature", Muts: ms})
						counts["drop_last_k_hashes"]++
					}
				}
			}
			return true
		}()
		finish(sf, complete, counts)
	}
	st := runner.NewSub(w, "sig-trunc", run, runner.Journal())
	if st.Active() {
		e.g.beginSub()
		counts := map[string]int{}
		complete := func() bool {
			for _, name := range sigSeedNames {
				sd := e.seeds.get(name)
				if sd.unavailable != "" {
					e.unavailable[name] = sd.unavailable
					continue
				}
				for _, comp := range comps {
					for cut := 0; cut < len(sd.sig[comp]); cut++ {
						if e.g.exhausted() {
							return false
						}
						st.Do(Case{Seed: name, Comp: comp, Target: "signature", Muts: []Mut{{Kind: "trunc", Cut: cut}}})
						counts["truncations"]++
					}
				}
			}
			return true
		}()
		finish(st, complete, counts)
	}

	// ---- overlay ---------------------------------------------------------------
	of := runner.NewSub(w, "overlay-field", run, runner.Journal())
	if of.Active() {
		e.g.beginSub()
		counts := map[string]int{}
		complete := func() bool {
			for _, name := range ovSeedNames {
				o := e.ovSeed(name)
				of.Do(Case{Seed: name, Target: "overlay"})
				for _, ms := range e.fieldMuts(o.flat, false) {
					if e.g.exhausted() {
						return false
					}
					of.Do(Case{Seed: name, Target: "overlay", Muts: ms})
					counts["message_mutations"]++
				}
				for _, ms := range e.pairMuts(o.flat) {
					if e.g.exhausted() {
						return false
					}
					of.Do(Case{Seed: name, Target: "overlay", Muts: ms})
					counts["pair_mutations"]++
				}
			}
			return true
		}()
		finish(of, complete, counts)
	}
	ot := runner.NewSub(w, "overlay-trunc", run, runner.Journal())
	if ot.Active() {
		e.g.beginSub()
		counts := map[string]int{}
		complete := func() bool {
			for _, name := range ovSeedNames {
				o := e.ovSeed(name)
				for cut := 0; cut < len(o.stream); cut++ {
					if e.g.exhausted() {
						return false
					}
					ot.Do(Case{Seed: name, Target: "overlay", Muts: []Mut{{Kind: "trunc", Cut: cut}}})
					counts["truncations"]++
				}
			}
			return true
		}()
		finish(ot, complete, counts)
	}

	// ---- patcher: pairs of field mutations within one series (thorough) ---------
	if !thorough {
		return
	}
	ap := runner.NewSub(w, "apply-pairs", run, runner.Journal())
	if ap.Active() {
		e.g.beginSub()
		counts := map[string]int{}
		complete := func() bool {
			for _, name := range pairSeedNames {
				sd := e.seeds.get(name)
				if sd.unavailable != "" {
					e.unavailable[name] = sd.unavailable
					continue
				}
				for _, t := range bowls {
					for _, ms := range e.pairMuts(sd.flatPatch) {
						if e.g.exhausted() {
							return false
						}
						ap.Do(Case{Seed: name, Comp: "none", Target: t, Muts: ms})
						counts["pair_mutations"]++
					}
				}
			}
			return true
		}()
		finish(ap, complete, counts)
	}
}
