package main

// The four readers under test, and the guard (panic recovery + watchdog) every
// case runs under.

import (
	"bytes"
	"context"
	"fmt"
	"os"
	"path/filepath"
	"regexp"
	"runtime/debug"
	"strings"
	"time"

	"github.com/itchio/lake/pools/fspool"
	"github.com/itchio/savior/seeksource"
	"github.com/itchio/wharf/pwr"
	"github.com/itchio/wharf/pwr/bowl"
	"github.com/itchio/wharf/pwr/overlay"
	"github.com/itchio/wharf/pwr/patcher"
	"github.com/itchio/wharf/pwr/rediff"
	"github.com/pkg/errors"

	"verif/lib/runner"
	"verif/lib/wh"
)

// watchdogLimit is far above the normal run time of a case (well under 10 ms);
// it only exists so that an endless loop is reported instead of blocking the run.
const watchdogLimit = 60 * time.Second

// A hung case leaks its goroutine (a Go goroutine cannot be killed). A sub-check
// stops enumerating after maxHangsPerSub hung cases in one worker (and is then not
// marked complete); a worker tolerates maxHangsPerWorker leaked goroutines in all.
const (
	maxHangsPerSub    = 2
	maxHangsPerWorker = 4
)

type outcome struct {
	stage    string // how far the reader got
	err      error
	panicked bool
	site     string
	pmsg     string
	stack    string
	hung     bool
}

type guard struct {
	hangs    int // leaked goroutines in this worker
	subHangs int // ... during the current sub-check
}

func (g *guard) beginSub() { g.subHangs = 0 }

func (g *guard) exhausted() bool {
	return g.subHangs >= maxHangsPerSub || g.hangs >= maxHangsPerWorker
}

// run executes f in its own goroutine so that an endless loop can be abandoned
// (the goroutine is leaked; a Go goroutine cannot be killed).
func (g *guard) run(f func(stage *string) error) outcome {
	done := make(chan outcome, 1)
	go func() {
		var o outcome
		defer func() {
			if e := recover(); e != nil {
				st := string(debug.Stack())
				o.panicked = true
				o.site = runner.PanicSite(st)
				o.pmsg = fmt.Sprint(e)
				o.stack = trimStack(st)
			}
			done <- o
		}()
		o.err = f(&o.stage)
	}()
	t := time.NewTimer(watchdogLimit)
	defer t.Stop()
	select {
	case o := <-done:
		return o
	case <-t.C:
		g.hangs++
		g.subHangs++
		return outcome{hung: true}
	}
}

// trimStack keeps the frames from the panic down to the harness.
func trimStack(s string) string {
	lines := strings.Split(s, "\n")
	// drop the debug.Stack / recover frames
	start := 0
	for i, l := range lines {
		if strings.HasPrefix(l, "panic(") {
			start = i
			break
		}
	}
	lines = lines[start:]
	if len(lines) > 24 {
		lines = lines[:24]
	}
	return strings.Join(lines, "\n")
}

// ---- patcher ---------------------------------------------------------------

// applyPatch: patcher.New + Resume with the given bowl (+ Commit when Resume
// returned nil, as a caller would).
func applyPatch(stream []byte, sd *seed, bowlKind, caseDir string, stage *string) error {
	*stage = "new"
	src := seeksource.FromBytes(stream)
	p, err := patcher.New(src, wh.Quiet())
	if err != nil {
		return err
	}
	*stage = "bowl"
	oldDir := sd.oldDir
	if bowlKind == "overlay" {
		// the overlay bowl patches in place: give it a private copy of the old build
		oldDir = filepath.Join(caseDir, "inplace")
		if err := wh.CopyTree(sd.oldDir, oldDir); err != nil {
			panic(fmt.Sprintf("harness: cannot copy old build: %v", err))
		}
	}
	pool := fspool.New(p.GetTargetContainer(), oldDir)
	var b bowl.Bowl
	switch bowlKind {
	case "fresh":
		b, err = bowl.NewFreshBowl(bowl.FreshBowlParams{
			SourceContainer: p.GetSourceContainer(),
			TargetContainer: p.GetTargetContainer(),
			TargetPool:      pool,
			OutputFolder:    filepath.Join(caseDir, "out"),
		})
	case "overlay":
		b, err = bowl.NewOverlayBowl(bowl.OverlayBowlParams{
			SourceContainer: p.GetSourceContainer(),
			TargetContainer: p.GetTargetContainer(),
			StageFolder:     filepath.Join(caseDir, "stage"),
			OutputFolder:    oldDir,
			Consumer:        wh.Quiet(),
		})
	case "dry":
		b, err = bowl.NewDryBowl(&bowl.DryBowlParams{
			SourceContainer: p.GetSourceContainer(),
			TargetContainer: p.GetTargetContainer(),
		})
	default:
		panic("harness: bad bowl kind " + bowlKind)
	}
	if err != nil {
		return err
	}
	defer b.Close()
	*stage = "resume"
	if err := p.Resume(nil, pool, b); err != nil {
		return err
	}
	*stage = "commit"
	if err := b.Commit(); err != nil {
		return err
	}
	*stage = "done"
	return nil
}

// ---- optimizer -------------------------------------------------------------

func optimizePatch(stream []byte, sd *seed, forceMapAll bool, stage *string) error {
	*stage = "analyze"
	rc, err := rediff.NewContext(rediff.Params{
		PatchReader: seeksource.FromBytes(stream),
		Consumer:    wh.Quiet(),
		Compression: wh.Comp("none").Settings(),
		ForceMapAll: forceMapAll,
	})
	if err != nil {
		return err
	}
	*stage = "optimize"
	var out bytes.Buffer
	err = rc.Optimize(rediff.OptimizeParams{
		TargetPool:  fspool.New(rc.GetTargetContainer(), sd.oldDir),
		SourcePool:  fspool.New(rc.GetSourceContainer(), sd.newDir),
		PatchWriter: &out,
	})
	if err != nil {
		return err
	}
	*stage = "done"
	return nil
}

// ---- signature -------------------------------------------------------------

func readSignature(stream []byte, stage *string) error {
	*stage = "read"
	src := seeksource.FromBytes(stream)
	if _, err := src.Resume(nil); err != nil {
		return err
	}
	si, err := pwr.ReadSignature(context.Background(), src)
	if err != nil {
		return err
	}
	*stage = "hashinfo"
	if _, err := pwr.ComputeHashInfo(si); err != nil {
		return err
	}
	*stage = "done"
	return nil
}

// ---- overlay ---------------------------------------------------------------

func applyOverlay(stream []byte, old []byte, caseDir string, stage *string) error {
	*stage = "open"
	path := filepath.Join(caseDir, "f")
	writeFile(path, old)
	w, err := os.OpenFile(path, os.O_WRONLY, 0o644)
	if err != nil {
		panic(fmt.Sprintf("harness: %v", err))
	}
	defer w.Close()
	src := seeksource.FromBytes(stream)
	if _, err := src.Resume(nil); err != nil {
		return err
	}
	*stage = "patch"
	if err := (&overlay.OverlayPatchContext{}).Patch(src, w); err != nil {
		return err
	}
	*stage = "done"
	return nil
}

// ---- outcome classes -------------------------------------------------------

var (
	reNum  = regexp.MustCompile(`-?[0-9]+`)
	rePath = regexp.MustCompile(`/[^\s:']+`)
	reQuot = regexp.MustCompile(`'[^']*'`)
)

// errClass normalises an error to a coarse class (numbers, paths and quoted
// names removed) for the distinct-outcome count.
func errClass(err error) string {
	if err == nil {
		return "ok"
	}
	s := errors.Cause(err).Error()
	s = rePath.ReplaceAllString(s, "P")
	s = reQuot.ReplaceAllString(s, "Q")
	s = reNum.ReplaceAllString(s, "N")
	if len(s) > 70 {
		s = s[:70]
	}
	return s
}
