// C07 — optimizing a patch never changes what it produces: the patch rewritten
// by rediff applies, fresh and in place, to exactly the new build, and the
// optimizer neither fails nor crashes, for every enumerated (patch, parameters).
package main

import (
	"crypto/sha256"
	"fmt"
	"os"
	"path/filepath"
	"runtime/debug"
	"strings"
	"time"

	"verif/lib/runner"
	"verif/lib/wh"
)

type Case struct {
	Old      wh.Build        `json:"old"`
	New      wh.Build        `json:"new"`
	DiffComp wh.Comp         `json:"diff_comp"` // compression of the input (rsync) patch
	P        wh.RediffParams `json:"params"`
}

// optimizeWatchdog: the largest optimizer run of this check takes well under a second.
const optimizeWatchdog = 120 * time.Second

// once a hang has been seen the remaining cases of this worker get a short leash (they
// only add examples to a failure that is already reported)
var hangsSeen int

func watchdogNow() time.Duration {
	if hangsSeen > 0 {
		return 10 * time.Second
	}
	return optimizeWatchdog
}

// rethrown carries a panic of the optimizer goroutine (with its stack) to the case goroutine.
type rethrown struct {
	val   interface{}
	stack string
}

func main() {
	runner.Main(runner.Config{
		ID:    "C07",
		Level: "model_checking",
		Rule:  "patches x parameters. Byte level: old file 'a' in {\"\",x,xx,xy,P[:5],P[:9],P[:17],P[:40]} (P a fixed aperiodic string over {x,y}; strings starting with y are the x<->y images of enumerated ones) x new file in {every string over {x,y} of length 0..4; for each length 5..16: prefix of old, prefix with one byte edited, old extended, unrelated string} x layout in {same path, renamed a->b, same path plus two fixed companion files m (9->10 bytes) and z (40->33 bytes)}. Block level: an enumerated list of build pairs over 64KiB blocks (identical, one block changed, swapped, grown, shrunk, renamed with shared blocks, two candidate old files, short final block reused by a tiny renamed file, empty and tiny files next to big ones). File sequences: three files per build, each in every relation {unchanged, 1 edit, 2 edits, grown, shrunk, unrelated, emptied} to its old version, all 343 orders, Partitions {0,2,5} x ForceMapAll (the optimizer reuses one bsdiff context for all files of a patch). Parameters: Partitions 0..16 x ForceMapAll {f,t} x RediffSizeLimit {default,1,10 (byte level) | 70000 (block level)} in full product, SuffixSortConcurrency {0,1,-1} x output compression {none,gzip-1,brotli-1,optimizer default} cycling with the ordinal (every pair meets every combination several times); compression of the input patch cycles over {none,gzip-1,brotli-1} per pair. quick runs every pair under every Partitions value with a rotating slice of the six (ForceMapAll, limit) combinations (one per Partitions value; every pair meets all six). Sub-check suffix-sort-concurrency: SuffixSortConcurrency -1..17 x Partitions 0..16 in full product on four pairs. Oracle: NewContext/Optimize return (120 s watchdog) nil without panic or process crash, the optimized patch decodes with the independent decoder, applies with a fresh bowl to a tree equal to the new build, and applies in place (overlay bowl on a copy of the old build) to a tree equal to the new build; the original patch is checked the same way once per pair; an optimized patch byte-identical to one already applied and verified for the same pair is not applied again (the patcher is a deterministic function of patch bytes and old build). Non-trivial = the optimized patch contains a bsdiff series with a non-empty Add.",
		Assumptions: []string{
			"new builds with no entries at all are not enumerated (nothing to optimize; reading such a patch back under gzip is the C01 finding in the savior dependency)",
			"file modes, symlinks and directories are not varied here (C01/C02 own them)",
			"block contents are seeded pseudo-random (VERIF_SEED)",
			"goroutine interleavings inside bsdiff.Do are free-running (schedule dimension: E2 part of C12)",
		},
		QuickBudget:    90 * time.Second,
		ThoroughBudget: 15 * time.Minute,
	}, body)
}

const pat = "xyxxyyxyyyxxxyxyyxxyxyxxxxyyyyxyxyyxyxxy" // 40 symbols
const unrel = "yyxyxxxyxyyyxxyxy"                      // 17 symbols

type pair struct {
	o, n  wh.Build
	block bool
}

func lit(s string) string {
	if s == "" {
		return ""
	}
	return "=" + s
}

func flip(s string, i int) string {
	b := []byte(s)
	if b[i] == 'x' {
		b[i] = 'y'
	} else {
		b[i] = 'x'
	}
	return string(b)
}

func strs(maxLen int) []string {
	out := []string{""}
	prev := []string{""}
	for l := 1; l <= maxLen; l++ {
		var cur []string
		for _, p := range prev {
			cur = append(cur, p+"x", p+"y")
		}
		out = append(out, cur...)
		prev = cur
	}
	return out
}

func bytePairs() []pair {
	olds := []string{"", "x", "xx", "xy", pat[:5], pat[:9], pat[:17], pat[:40]}
	var ps []pair
	for _, o := range olds {
		news := strs(4)
		seen := map[string]bool{}
		for _, s := range news {
			seen[s] = true
		}
		add := func(s string) {
			if !seen[s] {
				seen[s] = true
				news = append(news, s)
			}
		}
		for l := 5; l <= 16; l++ {
			if len(o) >= l {
				add(o[:l])
				add(flip(o[:l], l/2))
			} else {
				add(o + unrel[:l-len(o)])
			}
			add(unrel[:l])
		}
		for _, n := range news {
			ps = append(ps,
				pair{o: wh.Build{wh.F("a", lit(o))}, n: wh.Build{wh.F("a", lit(n))}},
				pair{o: wh.Build{wh.F("a", lit(o))}, n: wh.Build{wh.F("b", lit(n))}},
				pair{o: wh.Build{wh.F("a", lit(o)), wh.F("m", lit(pat[3:12])), wh.F("z", lit(pat))},
					n: wh.Build{wh.F("a", lit(n)), wh.F("m", lit(flip(pat[3:12], 4)+"y")), wh.F("z", lit(pat[:20]+"y"+pat[28:]))}},
			)
		}
	}
	return ps
}

// seqPairs: three files per build, each related to its old version in one of several
// ways, in every order: the optimizer reuses one bsdiff context (buffers, suffix array)
// for all files of a patch, so what one file leaves behind meets every kind of next file.
func seqPairs() []pair {
	base := []string{pat[:40], unrel[:16] + pat[5:35], pat[10:40] + unrel[:12]}
	big := pat + unrel + pat[7:] + unrel[3:] + pat[:33] + unrel[:9] + pat // ~300 bytes
	rel := func(kind byte, o string) string {
		switch kind {
		case 'U':
			return o
		case 'E':
			return flip(o, len(o)/2)
		case 'F':
			return flip(flip(o, 1), len(o)-2)
		case 'G':
			return o + "xyyx"
		case 'S':
			return o[:len(o)/2]
		case 'X':
			x := ""
			for len(x) < len(o)/2 {
				x += unrel
			}
			return x[:len(o)/2] + "yx"
		case '0':
			return ""
		}
		panic("bad kind")
	}
	kinds := "UEFGSX0"
	var ps []pair
	for _, k1 := range kinds {
		for _, k2 := range kinds {
			for _, k3 := range kinds {
				olds := []string{base[0], big, base[2]}
				if (int(k1)+int(k2)+int(k3))%2 == 1 {
					olds = []string{big, base[1], base[2]}
				}
				ps = append(ps, pair{
					o: wh.Build{wh.F("f1", lit(olds[0])), wh.F("f2", lit(olds[1])), wh.F("f3", lit(olds[2]))},
					n: wh.Build{wh.F("f1", lit(rel(byte(k1), olds[0]))), wh.F("f2", lit(rel(byte(k2), olds[1]))), wh.F("f3", lit(rel(byte(k3), olds[2])))},
				})
			}
		}
	}
	return ps
}

func blockPairs() []pair {
	one := func(o, n string) pair {
		return pair{o: wh.Build{wh.F("a", o)}, n: wh.Build{wh.F("a", n)}, block: true}
	}
	ren := func(o, n string) pair {
		return pair{o: wh.Build{wh.F("a", o)}, n: wh.Build{wh.F("b", n)}, block: true}
	}
	ps := []pair{
		// same path
		one("A.B", "A.B"), one("A.B", "A.C"), one("A.B", "B.A"), one("A.B", "A.B.C/100"), one("A.B.C/100", "A.B"),
		one("A.B", "A"), one("A", "A.B"), one("A.B", "=q.A.B"), one("A.B", "A.=q.B"), one("A.B", "A/65535.B"),
		one("A.B.C", "C.B.A"), one("A.B.C", "A.C"), one("A.B", "D.E"), one("A.B", ""), one("", "A.B"),
		one("A/1000", "A/999"), one("A/1000", "A/1000.=q"), one("A/1000", "B/1000"), one("A/1000", "A/5"), one("A/20", "A/1"),
		one("A.B/20", "A.B/3"), one("A.B/20", "=q.B/20"), one("A.B", "A/3"), one("A.B", "=q"), one("Z.Z", "Z"),
		one("Z.Z", "Z.A.Z"), one("A.A", "A.A.A"), one("A.B/100", "A.B/100.B/100"),
		// renamed, content shared with the old file
		ren("A.B", "A.B"), ren("A.B", "A.C"), ren("A.B", "C.B"), ren("A.B", "=q.A.B"), ren("A.B", "B"), ren("A.B.C/100", "B.C/100"),
		ren("A.B", "D.E"),
		// short final block of the old file reused by a tiny renamed file
		ren("A.C/5", "C/5"), ren("A.C/5", "=q.C/5"), ren("A.C/1", "C/1"), ren("A.C/12", "=qq.C/12"), ren("C/5", "C/5"), ren("C/5", "=q.C/5"),
		// several files: two candidate old files, ties, empty and tiny files next to big ones
		{o: wh.Build{wh.F("a", "A.B"), wh.F("c", "C.D")}, n: wh.Build{wh.F("b", "A.D")}, block: true},
		{o: wh.Build{wh.F("a", "A.B"), wh.F("c", "C.D")}, n: wh.Build{wh.F("a", "C.D"), wh.F("c", "A.B")}, block: true},
		{o: wh.Build{wh.F("a", "A.B"), wh.F("c", "C.D")}, n: wh.Build{wh.F("a", "A.D"), wh.F("c", "C.B"), wh.F("e", "A.C.=q")}, block: true},
		{o: wh.Build{wh.F("a", "A.B"), wh.F("e", "")}, n: wh.Build{wh.F("a", ""), wh.F("e", "A.B")}, block: true},
		{o: wh.Build{wh.F("a", "A.B"), wh.F("t", "=xyxxy")}, n: wh.Build{wh.F("a", "A.=q.B"), wh.F("t", "=xy")}, block: true},
		{o: wh.Build{wh.F("a", "A.B"), wh.F("t", "=xyxxyyxyyyxx")}, n: wh.Build{wh.F("a", "=xyx"), wh.F("t", "A.B")}, block: true},
		{o: wh.Build{wh.F("d/a", "A.B.C/7")}, n: wh.Build{wh.F("d/a", "A.C/7"), wh.F("d/b", "B.C/7"), wh.F("c", "C/7")}, block: true},
		{o: wh.Build{wh.F("a", "A.B"), wh.F("b", "A.B")}, n: wh.Build{wh.F("a", "A.C"), wh.F("b", "C.B"), wh.F("c", "A.B")}, block: true},
		{o: wh.Build{wh.F("a", "A.B.C.D")}, n: wh.Build{wh.F("a", "A.B"), wh.F("b", "C.D"), wh.F("c", "B.C.=q")}, block: true},
		{o: wh.Build{wh.F("a", "A"), wh.F("b", "B"), wh.F("c", "C")}, n: wh.Build{wh.F("x", "A.B.C"), wh.F("y", "C.B.A/9")}, block: true},
		{o: wh.Build{wh.F("a", "r1/300000")}, n: wh.Build{wh.F("a", "r1/150000.=q.r1/300000")}, block: true},
		{o: wh.Build{wh.F("a", "r1/300000")}, n: wh.Build{wh.F("b", "r1/200000.r2/50")}, block: true},
	}
	return ps
}

type dirCache struct {
	root string
	seed int64
	m    map[string]string
	n    int
}

func key(b wh.Build) string {
	var sb strings.Builder
	for _, e := range b {
		fmt.Fprintf(&sb, "%s|%s|%s|%s;", e.Path, e.Kind, e.Content, e.Dest)
	}
	return sb.String()
}

func (c *dirCache) dir(b wh.Build) string {
	k := key(b)
	if d, ok := c.m[k]; ok {
		return d
	}
	c.n++
	d := filepath.Join(c.root, fmt.Sprintf("b%d", c.n))
	if err := b.Materialize(d, c.seed); err != nil {
		panic(err)
	}
	c.m[k] = d
	return d
}

type baseline struct {
	patch []byte
	err   string // why the original patch is unusable ("" = fine)
	want  map[string]wh.Snap
}

func body(w *runner.W) {
	// Every application of a patch with a bsdiff series allocates the patcher's
	// 32MiB read cache; with the default pacer the collector runs on every other
	// case. Collect on a memory limit instead (the live heap is a few MiB).
	debug.SetGCPercent(-1)
	debug.SetMemoryLimit(640 << 20)

	// Memo of optimized patches already verified against the current pair: the
	// patcher is a deterministic function of (patch bytes, old build), so a
	// byte-identical optimized patch needs no second application.
	memoPair := ""
	memo := map[[32]byte]bool{}

	// a worker restarted after a process crash inherits the scratch directory of
	// the dead attempt: start from an empty one, or stale builds would be merged
	// with new ones
	os.RemoveAll(w.Scratch())
	os.MkdirAll(w.Scratch(), 0o755)

	cache := &dirCache{root: filepath.Join(w.Scratch(), "builds"), seed: w.Seed, m: map[string]string{}}
	bases := map[string]*baseline{}
	outN := 0

	checkApply := func(patch []byte, oldDir string, want map[string]wh.Snap) (string, string) {
		outN++
		out := filepath.Join(w.Scratch(), fmt.Sprintf("out%d", outN))
		work := filepath.Join(w.Scratch(), fmt.Sprintf("work%d", outN))
		stage := filepath.Join(w.Scratch(), fmt.Sprintf("stage%d", outN))
		defer os.RemoveAll(out)
		defer os.RemoveAll(work)
		defer os.RemoveAll(stage)
		if err := wh.ApplyFresh(patch, oldDir, out); err != nil {
			return "fresh-apply-error", err.Error()
		}
		got, err := wh.Snapshot(out)
		if err != nil {
			return "snapshot-error", err.Error()
		}
		if d := wh.DiffSnaps(got, want, false); len(d) > 0 {
			return "fresh-tree-mismatch", strings.Join(d, "; ")
		}
		if err := os.MkdirAll(work, 0o755); err != nil {
			return "harness", err.Error()
		}
		if err := wh.CopyTree(oldDir, work); err != nil {
			return "harness", err.Error()
		}
		if err := wh.ApplyInPlace(patch, work, stage, nil); err != nil {
			return "inplace-apply-error", err.Error()
		}
		got, err = wh.Snapshot(work)
		if err != nil {
			return "snapshot-error", err.Error()
		}
		if d := wh.DiffSnaps(got, want, false); len(d) > 0 {
			return "inplace-tree-mismatch", strings.Join(d, "; ")
		}
		return "", ""
	}

	getBase := func(c Case, oldDir, newDir string) *baseline {
		k := key(c.Old) + "=>" + key(c.New) + "@" + string(c.DiffComp)
		if b, ok := bases[k]; ok {
			return b
		}
		b := &baseline{}
		bases[k] = b
		dr, err := wh.Diff(oldDir, newDir, c.DiffComp)
		if err != nil {
			b.err = "diff: " + err.Error()
			return b
		}
		b.patch = dr.Patch
		b.want, _ = wh.Snapshot(newDir)
		if fp, msg := checkApply(b.patch, oldDir, b.want); fp != "" {
			b.err = fp + ": " + msg
		}
		return b
	}

	run := func(c Case, r *runner.Rec) {
		oldDir, newDir := cache.dir(c.Old), cache.dir(c.New)
		b := getBase(c, oldDir, newDir)
		if b.err != "" {
			// the property presupposes a valid input patch that yields the new build
			r.Failf("baseline:original-patch-unusable", "the rsync patch itself does not reproduce the new build: %s", b.err)
			return
		}
		var opt []byte
		var pfp, pmsg string
		func() {
			defer func() {
				if e := recover(); e != nil {
					stack := string(debug.Stack())
					if rt, ok := e.(rethrown); ok {
						e, stack = rt.val, rt.stack
					}
					site := runner.PanicSite(stack)
					pfp = "panic:" + site
					pmsg = fmt.Sprintf("Optimize panicked: %v", e)
					if strings.Contains(fmt.Sprint(e), "integer divide by zero") && site == "bsdiff.(*DiffContext).Do" {
						// discriminating feature: some new file shorter than Partitions while an old file is longer than Partitions+1
						if nf, of := divZeroWitness(c); nf != "" {
							pfp += ":divide-by-zero:0<len(new)<partitions<len(old)-1"
							pmsg += fmt.Sprintf(" (new file %s, old file %s, partitions %d)", nf, of, c.P.Partitions)
						}
					}
				}
			}()
			// the optimizer must terminate: it runs on its own goroutine and is given up
			// after optimizeWatchdog (a stuck call is left behind, it holds no lock of ours)
			type res struct {
				opt   []byte
				err   error
				pval  interface{}
				stack string
			}
			done := make(chan res, 1)
			go func() {
				var rs res
				defer func() {
					if e := recover(); e != nil {
						rs.pval, rs.stack = e, string(debug.Stack())
					}
					done <- rs
				}()
				rs.opt, _, rs.err = wh.Rediff(b.patch, oldDir, newDir, c.P)
			}()
			select {
			case rs := <-done:
				if rs.pval != nil {
					panic(rethrown{rs.pval, rs.stack})
				}
				opt = rs.opt
				if rs.err != nil {
					pfp, pmsg = "optimize-error", rs.err.Error()
				}
			case <-time.After(watchdogNow()):
				hangsSeen++
				pfp = "hang:optimize"
				pmsg = fmt.Sprintf("the optimizer did not return within %v (partitions %d, suffix-sort concurrency %d, force %v, limit %d)", optimizeWatchdog, c.P.Partitions, c.P.Concurrency, c.P.ForceMapAll, c.P.SizeLimit)
			}
		}()
		if pfp != "" {
			r.Outcome("optimizer-failed")
			r.Failf(pfp, "%s", pmsg)
			return
		}
		dp, err := wh.DecodePatch(opt)
		if err != nil {
			r.Failf("optimized-patch-undecodable", "independent decoder: %v", err)
			return
		}
		nb, nadd, nctrl := 0, 0, 0
		for _, s := range dp.Series {
			if s.Bsdiff != nil {
				nb++
				for _, ct := range s.Ctrl {
					nctrl++
					if len(ct.Add) > 0 {
						nadd++
					}
				}
			} else {
				nctrl += len(s.Ops)
			}
		}
		r.Trans(nctrl)
		if nadd > 0 {
			r.Nontrivial()
		}
		pk := key(c.Old) + "=>" + key(c.New)
		if pk != memoPair {
			memoPair = pk
			memo = map[[32]byte]bool{}
		}
		h := sha256.Sum256(opt)
		if memo[h] {
			r.Outcome(fmt.Sprintf("files=%d bsdiff-series=%d with-add=%v same-bytes-as-verified", len(dp.Series), nb, nadd > 0))
			return
		}
		r.Outcome(fmt.Sprintf("files=%d bsdiff-series=%d with-add=%v applied", len(dp.Series), nb, nadd > 0))
		if fp, msg := checkApply(opt, oldDir, b.want); fp != "" {
			r.Failf(fp, "optimized patch (%d bsdiff series of %d): %s", nb, len(dp.Series), msg)
			return
		}
		memo[h] = true
	}

	type prm struct {
		force bool
		limit int64
	}
	concs := []int{0, 1, -1}
	ocomps := []wh.Comp{"none", "gzip-1", "brotli-1", ""}
	dcomps := []wh.Comp{"none", "gzip-1", "brotli-1"}

	// thorough: full product Partitions x ForceMapAll x limit; quick: for every pair
	// and every Partitions value quickCombos of the six (ForceMapAll, limit)
	// combinations, rotating so that every pair meets all six.
	enumerate := func(sub *runner.Sub[Case], ps []pair, limits []int64, quickCombos int, shardByPair bool) {
		var combos []prm
		for _, force := range []bool{false, true} {
			for _, limit := range limits {
				combos = append(combos, prm{force: force, limit: limit})
			}
		}
		n := 0
		for pi, p := range ps {
			for part := 0; part <= 16; part++ {
				for ci, cb := range combos {
					if w.Quick() && ((ci-part-pi)%len(combos)+len(combos))%len(combos) >= quickCombos {
						continue
					}
					n++
					c := Case{Old: p.o, New: p.n, DiffComp: dcomps[pi%3], P: wh.RediffParams{
						Partitions: part, Concurrency: concs[(n/4)%3], ForceMapAll: cb.force, SizeLimit: cb.limit, Comp: ocomps[n%4]}}
					if !shardByPair {
						sub.Do(c)
					} else if w.Owns(pi) {
						// all cases of a pair on one worker, so that the memo is effective
						sub.DoOwned(c)
					}
				}
			}
		}
	}

	byteSub := runner.NewSub(w, "byte-level", run, runner.Journal())
	if byteSub.Active() {
		ps := bytePairs()
		byteSub.Note("pairs", len(ps))
		enumerate(byteSub, ps, []int64{0, 1, 10}, 1, true)
		byteSub.Done()
	}

	seqSub := runner.NewSub(w, "file-sequences", run, runner.Journal())
	if seqSub.Active() {
		ps := seqPairs()
		seqSub.Note("pairs", len(ps))
		n := 0
		for pi, p := range ps {
			if !w.Owns(pi) {
				continue
			}
			for _, part := range []int{0, 2, 5} {
				for _, force := range []bool{true, false} {
					n++
					if w.Quick() && part == 5 {
						continue
					}
					seqSub.DoOwned(Case{Old: p.o, New: p.n, DiffComp: dcomps[pi%3], P: wh.RediffParams{
						Partitions: part, Concurrency: concs[n%3], ForceMapAll: force, Comp: ocomps[n%4]}})
				}
			}
		}
		seqSub.Done()
	}

	// suffix-sort concurrency in full product with the partition count (the other
	// sub-checks cycle through {0,1,-1} only): every value -1..17 x Partitions 0..16 on a
	// handful of pairs whose old file is longer than any partition count
	concSub := runner.NewSub(w, "suffix-sort-concurrency", run, runner.Journal())
	if concSub.Active() {
		ps := []pair{
			{o: wh.Build{wh.F("a", lit(pat))}, n: wh.Build{wh.F("a", lit(flip(pat, 11)))}},
			{o: wh.Build{wh.F("a", lit(pat))}, n: wh.Build{wh.F("b", lit(pat[:20]+"y"+pat[28:]))}},
			{o: wh.Build{wh.F("a", lit(pat[:17])), wh.F("z", lit(pat))}, n: wh.Build{wh.F("a", lit(pat[:16]+"xy")), wh.F("z", lit(pat[:30]))}},
			{o: wh.Build{wh.F("a", "A.B.=tail")}, n: wh.Build{wh.F("a", "A.=x.B.=tail")}},
		}
		concSub.Note("pairs", len(ps))
		n := 0
		for pi, p := range ps {
			for part := 0; part <= 16; part++ {
				for conc := -1; conc <= 17; conc++ {
					n++
					if w.Quick() && pi >= 2 && (part+conc)%3 != 0 {
						continue
					}
					concSub.Do(Case{Old: p.o, New: p.n, DiffComp: dcomps[pi%3], P: wh.RediffParams{
						Partitions: part, Concurrency: conc, ForceMapAll: true, Comp: ocomps[n%4]}})
				}
			}
		}
		concSub.Done()
	}

	blockSub := runner.NewSub(w, "block-level", run, runner.Journal())
	if blockSub.Active() {
		ps := blockPairs()
		blockSub.Note("pairs", len(ps))
		enumerate(blockSub, ps, []int64{0, 1, 70000}, 1, false)
		blockSub.Done()
	}
}

// divZeroWitness looks for a (new file, old file) pair with
// 0 < len(new) < Partitions < len(old)-1 in the case.
func divZeroWitness(c Case) (string, string) {
	p := c.P.Partitions
	size := func(e wh.Entry) int { return len(wh.Content(e.Content, 1)) }
	for _, samePath := range []bool{true, false} {
		for _, n := range c.New {
			if n.Kind != "f" || size(n) == 0 || size(n) >= p {
				continue
			}
			for _, o := range c.Old {
				if o.Kind == "f" && (o.Path == n.Path) == samePath && p < size(o)-1 {
					return fmt.Sprintf("%s (%d bytes)", n.Path, size(n)), fmt.Sprintf("%s (%d bytes)", o.Path, size(o))
				}
			}
		}
	}
	return "", ""
}
