// Stand-alone reproduction of the four safekeeper failures reported by check C09
// (uses only wharf + lake + savior + headway, none of the verification library):
//
//	cd /verif && GOFLAGS=-mod=mod GOPROXY=off go run ./checks/c09/repro
//
// Every scenario signs and diffs a pristine old build, optionally damages it,
// applies the patch with the old build read through pwr.NewSafeKeeper (same
// pool for patcher and fresh bowl) and compares the output with the new build.
package main

import (
	"bytes"
	"context"
	"fmt"
	"math/rand"
	"os"
	"path/filepath"

	"github.com/itchio/headway/state"
	"github.com/itchio/lake/pools/fspool"
	"github.com/itchio/lake/tlc"
	"github.com/itchio/savior"
	"github.com/itchio/savior/seeksource"
	"github.com/itchio/wharf/pwr"
	"github.com/itchio/wharf/pwr/bowl"
	"github.com/itchio/wharf/pwr/patcher"
)

const B = 64 * 1024

func must(err error) {
	if err != nil {
		panic(err)
	}
}

func blk(seed int64, n int) []byte {
	b := make([]byte, n)
	rand.New(rand.NewSource(seed)).Read(b)
	return b
}

func cat(bs ...[]byte) []byte { return bytes.Join(bs, nil) }

func writeTree(dir string, files map[string][]byte) {
	must(os.MkdirAll(dir, 0o755))
	for p, c := range files {
		must(os.WriteFile(filepath.Join(dir, p), c, 0o644))
	}
}

// diff returns (patch old->new, signature of new)
func diff(oldDir, newDir string) ([]byte, []byte) {
	oldC, err := tlc.WalkAny(oldDir, tlc.WalkOpts{})
	must(err)
	newC, err := tlc.WalkAny(newDir, tlc.WalkOpts{})
	must(err)
	hashes, err := pwr.ComputeSignature(context.Background(), oldC, fspool.New(oldC, oldDir), &state.Consumer{})
	must(err)
	dctx := &pwr.DiffContext{
		Compression:     &pwr.CompressionSettings{Algorithm: pwr.CompressionAlgorithm_NONE},
		Consumer:        &state.Consumer{},
		SourceContainer: newC, Pool: fspool.New(newC, newDir),
		TargetContainer: oldC, TargetSignature: hashes,
	}
	var patch, sig bytes.Buffer
	must(dctx.WritePatch(context.Background(), &patch, &sig))
	return patch.Bytes(), sig.Bytes()
}

func apply(patch, oldSig []byte, oldDir, outDir string) error {
	p, err := patcher.New(seeksource.FromBytes(patch), &state.Consumer{})
	must(err)
	sk, err := pwr.NewSafeKeeper(pwr.SafeKeeperParams{
		Inner: fspool.New(p.GetTargetContainer(), oldDir),
		Open: func() (savior.SeekSource, error) {
			s := seeksource.FromBytes(oldSig)
			if _, err := s.Resume(nil); err != nil {
				return nil, err
			}
			return s, nil
		},
	})
	must(err)
	b, err := bowl.NewFreshBowl(bowl.FreshBowlParams{
		SourceContainer: p.GetSourceContainer(), TargetContainer: p.GetTargetContainer(),
		TargetPool: sk, OutputFolder: outDir,
	})
	must(err)
	if err := p.Resume(nil, sk, b); err != nil {
		return fmt.Errorf("Resume: %w", err)
	}
	if err := b.Commit(); err != nil {
		return fmt.Errorf("Commit: %w", err)
	}
	return nil
}

func scenario(name string, old, nw map[string][]byte, damage func(oldDir string)) {
	root, err := os.MkdirTemp("", "c09repro-")
	must(err)
	defer os.RemoveAll(root)
	oldDir, newDir, emptyDir, outDir := root+"/old", root+"/new", root+"/empty", root+"/out"
	writeTree(oldDir, old)
	writeTree(newDir, nw)
	must(os.MkdirAll(emptyDir, 0o755))
	patch, _ := diff(oldDir, newDir)
	_, oldSig := diff(emptyDir, oldDir) // the signature published with the old build
	if damage != nil {
		damage(oldDir)
	}
	err = apply(patch, oldSig, oldDir, outDir)
	fmt.Printf("== %s\n", name)
	if err != nil {
		fmt.Printf("   error: %.200v\n", err)
		return
	}
	ok := true
	for p, want := range nw {
		got, _ := os.ReadFile(filepath.Join(outDir, p))
		if !bytes.Equal(got, want) {
			ok = false
			fmt.Printf("   NO ERROR, but %s differs: got %d bytes, want %d bytes (first diff at %d)\n", p, len(got), len(want), firstDiff(got, want))
		}
	}
	if ok {
		fmt.Printf("   ok: output equals new build\n")
	}
}

func firstDiff(a, b []byte) int {
	for i := 0; i < len(a) && i < len(b); i++ {
		if a[i] != b[i] {
			return i
		}
	}
	if len(a) != len(b) {
		if len(a) < len(b) {
			return len(a)
		}
		return len(b)
	}
	return -1
}

func main() {
	A, Bb, C := blk(1, B), blk(2, B), blk(3, B)
	X := blk(9, 1000)
	small := blk(4, 100)
	ext := func(n int) func(string) {
		return func(d string) {
			f, err := os.OpenFile(d+"/a", os.O_APPEND|os.O_WRONLY, 0)
			must(err)
			f.Write(blk(77, n))
			f.Close()
		}
	}
	trunc := func(n int64) func(string) {
		return func(d string) { must(os.Truncate(d+"/a", n)) }
	}

	fmt.Println("---- DESIGN 6 item 4: undamaged whole-file copy of a k*64KiB file is rejected")
	scenario("4a undamaged; old a=A (64KiB); new a=A, x=fresh",
		map[string][]byte{"a": A}, map[string][]byte{"a": A, "x": X}, nil)
	scenario("4b undamaged; old a=A.B (128KiB); new b=A.B (rename)",
		map[string][]byte{"a": cat(A, Bb)}, map[string][]byte{"b": cat(A, Bb)}, nil)
	scenario("4c control: undamaged; old a=A.B/100; new a=same, x=fresh",
		map[string][]byte{"a": cat(A, Bb[:100])}, map[string][]byte{"a": cat(A, Bb[:100]), "x": X}, nil)

	fmt.Println("---- DESIGN 6 item 5: whole-file copy after an earlier read of the same old file starts at a stale offset")
	scenario("5a undamaged; old a=100 bytes; new a, b = both copies of it (duplicated file)",
		map[string][]byte{"a": small}, map[string][]byte{"a": small, "b": small}, nil)
	scenario("5b undamaged; old a=A.B.C/100; new x=A+fresh (block range [0,1) of a), y=A.B.C/100 (whole-file copy of a)",
		map[string][]byte{"a": cat(A, Bb, C[:100])},
		map[string][]byte{"x": cat(A, X), "y": cat(A, Bb, C[:100])}, nil)
	scenario("5c undamaged; old a=A; new x=A+fresh, y=A",
		map[string][]byte{"a": A}, map[string][]byte{"x": cat(A, X), "y": A}, nil)
	scenario("5d control: whole-file copy first, partial use second (new a=whole, z=A+fresh)",
		map[string][]byte{"a": cat(A, Bb, C[:100])},
		map[string][]byte{"a": cat(A, Bb, C[:100]), "z": cat(A, X)}, nil)

	fmt.Println("---- DESIGN 6 item 6: old file ends at or before the start of a block the patch reads: EOF swallowed")
	scenario("6a old a=A.B.C/100 truncated to 64KiB; new a=same (whole-file copy), x=fresh",
		map[string][]byte{"a": cat(A, Bb, C[:100])}, map[string][]byte{"a": cat(A, Bb, C[:100]), "x": X}, trunc(B))
	scenario("6b old a=A.B.C/100 truncated to 0; new a=fresh+A+B.C/100 (block range [0,1))",
		map[string][]byte{"a": cat(A, Bb, C[:100])}, map[string][]byte{"a": cat(X, A, Bb, C[:100])}, trunc(0))
	scenario("6c old a=A.B truncated to 1 byte (inside block 0); new a=B (block range [1,2))",
		map[string][]byte{"a": cat(A, Bb)}, map[string][]byte{"a": Bb}, trunc(1))
	scenario("6d control: old a=A.B.C/100 truncated inside a block that is read (64KiB+5), whole-file copy",
		map[string][]byte{"a": cat(A, Bb, C[:100])}, map[string][]byte{"a": cat(A, Bb, C[:100]), "x": X}, trunc(B+5))

	fmt.Println("---- DESIGN 6 item 7: old file extended inside its last block + whole-file copy")
	scenario("7a old a=A.B/100 extended by 50 bytes; new a=same (whole-file copy), x=fresh",
		map[string][]byte{"a": cat(A, Bb[:100])}, map[string][]byte{"a": cat(A, Bb[:100]), "x": X}, ext(50))
	scenario("7b old a=A.B/100 extended to exactly 128KiB; whole-file copy",
		map[string][]byte{"a": cat(A, Bb[:100])}, map[string][]byte{"a": cat(A, Bb[:100]), "x": X}, ext(B-100))
	scenario("7c control: extended past the last block (to 128KiB+1)",
		map[string][]byte{"a": cat(A, Bb[:100])}, map[string][]byte{"a": cat(A, Bb[:100]), "x": X}, ext(B-100+1))
	scenario("7d control: extended by 50, reused through block ranges",
		map[string][]byte{"a": cat(A, Bb[:100])}, map[string][]byte{"a": cat(X, A, Bb[:100])}, ext(50))
}
