// C09 — applying through the safekeeper never yields a silently wrong result.
//
// Fault enumeration: a family of (old build, new build) pairs chosen so that
// every consumer of the old pool is exercised (block ranges aligned / shifted /
// over the short last block, whole-file copy, bsdiff series of the optimized
// patch, partial use followed by a whole-file copy of the same old file,
// duplicated files, empty files) x {plain, optimized patch} x every damage of a
// boundary-driven catalogue (bit flips in every block, truncations, extensions
// inside and past the last block, deletion, filled empty files; singles, pairs
// across two files, pairs on one file). The old build is read through
// pwr.NewSafeKeeper, and the very same pool is handed to the patcher
// (Resume's targetPool) and to the fresh bowl (TargetPool).
//
// Oracle (the statement, literally): the application either returns an error
// (patcher.Resume / bowl.Commit) or the output tree equals the new build; with
// no damage at all it must not return an error (and hence must equal the new
// build).
//
// Fingerprints: <violation>:<damage>:<size class of the old file>:<reuse>
//
//	violation  undamaged-rejected | silent-wrong
//	damage     none | flip | trunc-at-boundary (cut exactly at a block boundary,
//	           0 included) | trunc-in-block | extend-in-last-block (the appended
//	           bytes stay inside the last, short block) | extend-past-last-block |
//	           delete | filled-empty (several joined by +), or already-failing
//	           when the same new file already violates the property without any
//	           damage, or damage-elsewhere when no damage touches an old file it reads
//	size       size-0 | size-kB (non-zero multiple of the 64KiB block) | size-kB+r
//	reuse      how the wrong / rejected new file uses the old build: data |
//	           block-ranges | whole-copy (bowl.Transpose) | whole-copy-after-read
//	           (whole-file copy of the old file that was also the last one read
//	           through the pool) | bsdiff
//
// A stand-alone reproduction of the failures seen on the pinned tree is in
// ./repro (go run ./checks/c09/repro).
package main

import (
	"fmt"
	"os"
	"path/filepath"
	"runtime/debug"
	"sort"
	"strings"
	"time"

	"github.com/itchio/headway/state"
	"github.com/itchio/lake/pools/fspool"
	"github.com/itchio/savior"
	"github.com/itchio/savior/seeksource"
	"github.com/itchio/wharf/pwr"
	"github.com/itchio/wharf/pwr/bowl"
	"github.com/itchio/wharf/pwr/patcher"

	"verif/lib/runner"
	"verif/lib/wh"
)

const B = int64(wh.B)

// Dmg is one damage applied to the old build after it was signed and diffed.
type Dmg struct {
	Kind string `json:"kind"` // flip | twin | truncate | extend | delete
	Path string `json:"path"`
	N    int64  `json:"n"` // flip: byte offset (bit 0 is inverted); twin: block index (block replaced by its weak twin); truncate: new length; extend: bytes appended
}

// Case is the replay artefact.
type Case struct {
	Pair string   `json:"pair"`
	Old  wh.Build `json:"old"`
	New  wh.Build `json:"new"`
	Opt  bool     `json:"optimized"` // patch re-diffed with bsdiff (2 partitions)
	Dmg  []Dmg    `json:"damage"`
}

const hangTimeout = 120 * time.Second

func main() {
	runner.Main(runner.Config{
		ID:    "C09",
		Level: "fault_enumeration",
		Rule:  "enumerated: build pairs = old file size class {100B, 1 block, 1 block+100, 2 blocks, 2 blocks+100, 3 blocks (thorough: 2 blocks+65535, 3 blocks+1)} x reuse shape {whole-file copy, aligned prefix range, suffix range over the last block, fresh block then all blocks, shifted ranges, partial use then whole-file copy, other block then whole-file copy, whole-file copy twice, whole-file copy then partial use, insertion, second-half-of-block} plus two two-file pairs with an empty file two pairs whose patch reads two old files alternately and two pairs with look-alike blocks (duplicated old files, a file whose blocks repeat) (a,b,a,b inside one new file; a,b,a across three); x {plain patch, optimized patch (rediff, 2 partitions)}; x damage = none | every single damage of the catalogue on every old file (bit flip at first/last byte of every block, byte 1 and byte 32768; every block replaced by its weak twin - same rolling checksum, other bytes; truncation to 0, 1, 32768, B-1, B, B+1, 2B, last block boundary, size-1; extension by 1, up to / exactly to / one past the end of the last block, B, B+1; deletion; empty file filled with 1, B, B+1 bytes) | every pair of single damages on two different old files (two-file pairs) | thorough: every pair of single damages of different kinds on one file. Each case: old build copied, damaged, patch applied through pwr.NewSafeKeeper (same pool for patcher and fresh bowl), outcome compared with the new build by an independent Lstat walk. A silently wrong new file is attributed to its damage only if the same file comes out right without damage (else fingerprint damage = already-failing); with two damages, to the single damage that alone reproduces the same wrong content if there is one. Non-trivial = at least one damage hits an old file that the independently decoded patch reads (block range, whole-file copy or bsdiff target); for damage=none: the patch reads at least one old file.",
		Assumptions: []string{
			"block contents are seeded pseudo-random (VERIF_SEED); a bit flip inverts bit 0 of one byte",
			"the signature handed to the safekeeper is the one WritePatch produced when the old build was published (diff from an empty build), computed before the damage",
			"pwr/safekeeper_test.go is an empty stub; the safekeeper is constructed like butler does: Inner = fspool over the patch's target container, Open = a resumed seeksource over the signature bytes",
			"damage is static (applied before the application starts); kind changes (file -> directory/symlink) are not enumerated",
		},
		QuickBudget:    80 * time.Second,
		ThoroughBudget: 12 * time.Minute,
	}, body)
}

// ---------------------------------------------------------------------------
// content / materialisation (adds the token X@off/len = bytes [off,off+len) of block X)

func content(spec string, seed int64) []byte {
	if spec == "" {
		return nil
	}
	var out []byte
	for _, tok := range strings.Split(spec, ".") {
		if len(tok) > 2 && tok[1] == '@' {
			var off, n int
			if _, err := fmt.Sscanf(tok[2:], "%d/%d", &off, &n); err != nil {
				panic("bad content token " + tok)
			}
			out = append(out, wh.Content(tok[:1], seed)[off:off+n]...)
			continue
		}
		out = append(out, wh.Content(tok, seed)...)
	}
	return out
}

func materialize(b wh.Build, dir string, seed int64) {
	if err := os.MkdirAll(dir, 0o755); err != nil {
		panic(err)
	}
	for _, e := range b {
		if e.Kind != "f" {
			panic("C09 builds hold regular files only")
		}
		p := filepath.Join(dir, filepath.FromSlash(e.Path))
		if err := os.MkdirAll(filepath.Dir(p), 0o755); err != nil {
			panic(err)
		}
		if err := os.WriteFile(p, content(e.Content, seed), 0o644); err != nil {
			panic(err)
		}
	}
}

// ---------------------------------------------------------------------------
// pairs

type pair struct {
	name    string
	old, nw wh.Build
}

type sizeClass struct {
	name   string
	blocks []string // content tokens, one per block (the last may be short)
}

func (s sizeClass) whole() string     { return strings.Join(s.blocks, ".") }
func (s sizeClass) full(i int) bool   { return i < len(s.blocks) && !strings.Contains(s.blocks[i], "/") }
func (s sizeClass) from(i int) string { return strings.Join(s.blocks[i:], ".") }

func pairs(thorough bool) []pair {
	sizes := []sizeClass{
		{"100", []string{"A/100"}},
		{"1B", []string{"A"}},
		{"1B+100", []string{"A", "B/100"}},
		{"2B", []string{"A", "B"}},
		{"2B+100", []string{"A", "B", "C/100"}},
		{"3B", []string{"A", "B", "C"}},
	}
	if thorough {
		sizes = append(sizes,
			sizeClass{"2B+65535", []string{"A", "B", "C/65535"}},
			sizeClass{"3B+1", []string{"A", "B", "C", "D/1"}},
		)
	}
	var out []pair
	add := func(s sizeClass, shape string, nw wh.Build) {
		out = append(out, pair{name: s.name + "/" + shape, old: wh.Build{wh.F("a", s.whole())}, nw: nw})
	}
	for _, s := range sizes {
		n := len(s.blocks)
		w := s.whole()
		// whole-file copy (unchanged file) next to a fresh file
		add(s, "whole", wh.Build{wh.F("a", w), wh.F("n", "r1/300")})
		// fresh block, then every block of the old file through one range (incl. the short tail)
		add(s, "fresh-then-all", wh.Build{wh.F("a", "r1/65536."+w)})
		// the same file twice: two whole-file copies of one old file
		add(s, "dup", wh.Build{wh.F("a", w), wh.F("b", w)})
		if s.full(0) {
			add(s, "prefix", wh.Build{wh.F("a", s.blocks[0]+".r1/1000")})
			add(s, "partial-then-whole", wh.Build{wh.F("x", s.blocks[0]+".r1/1000"), wh.F("y", w)})
			add(s, "whole-then-partial", wh.Build{wh.F("a", w), wh.F("z", s.blocks[0]+".r1/1000")})
			add(s, "second-half", wh.Build{wh.F("a", "A@32768/32768.r1/200")})
		}
		if n >= 2 {
			add(s, "suffix", wh.Build{wh.F("a", s.from(1))})
			add(s, "insert", wh.Build{wh.F("a", s.blocks[0]+".r1/100."+s.from(1))})
		}
		if s.full(1) {
			add(s, "shifted", wh.Build{wh.F("a", "r1/1000."+s.blocks[0]+"."+s.blocks[1]+".r2/65536")})
			add(s, "other-then-whole", wh.Build{wh.F("x", s.blocks[1]+".r1/1000"), wh.F("y", w)})
		}
	}
	// two old files + an empty one: range use of a, whole copy of b, range into b's short tail
	out = append(out, pair{
		name: "two-files/mixed",
		old:  wh.Build{wh.F("a", "A.B/100"), wh.F("b", "C.D/200"), wh.F("e", "")},
		nw:   wh.Build{wh.F("a", "A.r1/100"), wh.F("b", "C.D/200"), wh.F("c", "r3/65536.D/200"), wh.F("e", ""), wh.F("f", "")},
	})
	// read history a, b, a, b: one new file assembled from blocks of two old files in turn;
	// and a, b, a across three new files (range, whole copy, range)
	out = append(out, pair{
		name: "two-files/alternating",
		old:  wh.Build{wh.F("a", "A.B.C/100"), wh.F("b", "D.E")},
		nw:   wh.Build{wh.F("m", "A.D.B.E.C/100")},
	})
	out = append(out, pair{
		name: "two-files/back-and-forth",
		old:  wh.Build{wh.F("a", "A.B"), wh.F("b", "D.E/300")},
		nw:   wh.Build{wh.F("k", "A.r1/500"), wh.F("l", "D.E/300"), wh.F("m", "r2/700.B")},
	})
	// look-alike blocks: two old files with the same content, and a file whose blocks repeat
	// (whatever a validation leaves behind in a shared buffer then equals what a truncation
	// of the next block cut off)
	out = append(out, pair{
		name: "two-files/duplicates",
		old:  wh.Build{wh.F("a", "A/40000"), wh.F("b", "A/40000"), wh.F("c", "B.A/40000")},
		nw:   wh.Build{wh.F("a", "A/40000"), wh.F("b", "A/40000"), wh.F("c", "B.A/40000"), wh.F("n", "=new")},
	})
	out = append(out, pair{
		name: "one-file/periodic",
		old:  wh.Build{wh.F("a", "A.A.A/100")},
		nw:   wh.Build{wh.F("a", "A.A.A/100"), wh.F("b", "r1/500.A.A.A/100")},
	})
	out = append(out, pair{
		name: "two-files/whole",
		old:  wh.Build{wh.F("a", "A/100"), wh.F("b", "B.C/7"), wh.F("e", "")},
		nw:   wh.Build{wh.F("a", "A/100"), wh.F("b", "B.C/7"), wh.F("e", "=x"), wh.F("n", "=y")},
	})
	return out
}

// ---------------------------------------------------------------------------
// damage catalogue

func uniq(xs []int64) []int64 {
	sort.Slice(xs, func(i, j int) bool { return xs[i] < xs[j] })
	var out []int64
	for i, x := range xs {
		if i == 0 || x != xs[i-1] {
			out = append(out, x)
		}
	}
	return out
}

func singles(path string, size int64) []Dmg {
	var out []Dmg
	if size == 0 {
		for _, n := range []int64{1, B, B + 1} {
			out = append(out, Dmg{"extend", path, n})
		}
		out = append(out, Dmg{"delete", path, 0})
		return out
	}
	nb := (size + B - 1) / B
	var flips []int64
	for j := int64(0); j < nb; j++ {
		end := (j + 1) * B
		if end > size {
			end = size
		}
		flips = append(flips, j*B, end-1)
	}
	for _, o := range []int64{1, 32768} {
		if o < size {
			flips = append(flips, o)
		}
	}
	for _, o := range uniq(flips) {
		out = append(out, Dmg{"flip", path, o})
	}
	// weak twin of every block of at least 64 bytes: same rolling checksum, other bytes
	for j := int64(0); j < nb; j++ {
		if size-j*B >= 64 {
			out = append(out, Dmg{"twin", path, j})
		}
	}
	var truncs []int64
	for _, l := range []int64{0, 1, 32768, B - 1, B, B + 1, 2 * B, size - size%B, size - 1} {
		if l >= 0 && l < size {
			truncs = append(truncs, l)
		}
	}
	for _, l := range uniq(truncs) {
		out = append(out, Dmg{"truncate", path, l})
	}
	var exts []int64
	if r := size % B; r > 0 {
		exts = []int64{1, B - r - 1, B - r, B - r + 1, B, B + 1}
	} else {
		exts = []int64{1, B - 1, B, B + 1}
	}
	for _, n := range uniq(exts) {
		if n > 0 {
			out = append(out, Dmg{"extend", path, n})
		}
	}
	out = append(out, Dmg{"delete", path, 0})
	return out
}

// kindLabel classifies a damage for fingerprints / outcome classes.
func kindLabel(d Dmg, signedSize int64) string {
	switch d.Kind {
	case "flip":
		return "flip"
	case "truncate":
		if d.N%B == 0 {
			return "trunc-at-boundary"
		}
		return "trunc-in-block"
	case "extend":
		if signedSize == 0 {
			return "filled-empty"
		}
		if r := signedSize % B; r > 0 && r+d.N <= B {
			return "extend-in-last-block"
		}
		return "extend-past-last-block"
	case "delete":
		return "delete"
	}
	return d.Kind
}

func sizeClassOf(size int64) string {
	switch {
	case size == 0:
		return "size-0"
	case size%B == 0:
		return "size-kB"
	}
	return "size-kB+r"
}

// applyDamage applies d to dir; ok=false if the damage is not applicable to the
// current state of the file (e.g. flip beyond a previous truncation).
func applyDamage(dir string, d Dmg, seed int64) (ok bool) {
	p := filepath.Join(dir, filepath.FromSlash(d.Path))
	st, err := os.Lstat(p)
	if err != nil {
		return false
	}
	switch d.Kind {
	case "flip":
		if d.N >= st.Size() {
			return false
		}
		f, err := os.OpenFile(p, os.O_RDWR, 0)
		if err != nil {
			panic(err)
		}
		defer f.Close()
		var b [1]byte
		if _, err := f.ReadAt(b[:], d.N); err != nil {
			panic(err)
		}
		b[0] ^= 1
		if _, err := f.WriteAt(b[:], d.N); err != nil {
			panic(err)
		}
	case "twin":
		if d.N*B+64 > st.Size() {
			return false
		}
		data, err := os.ReadFile(p)
		if err != nil {
			panic(err)
		}
		end := (d.N + 1) * B
		if end > int64(len(data)) {
			end = int64(len(data))
		}
		copy(data[d.N*B:end], wh.WeakTwin(data[d.N*B:end]))
		if err := os.WriteFile(p, data, st.Mode().Perm()); err != nil {
			panic(err)
		}
	case "truncate":
		if d.N >= st.Size() {
			return false
		}
		if err := os.Truncate(p, d.N); err != nil {
			panic(err)
		}
	case "extend":
		f, err := os.OpenFile(p, os.O_WRONLY|os.O_APPEND, 0)
		if err != nil {
			panic(err)
		}
		defer f.Close()
		if _, err := f.Write(wh.Content(fmt.Sprintf("r99/%d", d.N), seed)); err != nil {
			panic(err)
		}
	case "delete":
		if err := os.Remove(p); err != nil {
			panic(err)
		}
	default:
		panic("bad damage kind " + d.Kind)
	}
	return true
}

// ---------------------------------------------------------------------------
// patch analysis (independent decoder)

type fileInfo struct {
	mode  string  // data | block-ranges | whole-file-copy | bsdiff
	reads []int64 // old file indices read, in first-use order
	// afterSame: a whole-file copy issued while the pool's single cached reader
	// still belongs to the same old file (it was the last old file read)
	afterSame bool
}

func (fi fileInfo) reuse() string {
	if fi.mode == "whole-copy" && fi.afterSame {
		return "whole-copy-after-read"
	}
	return fi.mode
}

type patchInfo struct {
	files    []fileInfo
	newIndex map[string]int
	oldPaths []string
	oldSizes []int64
	oldRead  map[string][]string // old path -> reuse modes
	nops     int
}

func analyze(patch []byte) (*patchInfo, error) {
	dp, err := wh.DecodePatch(patch)
	if err != nil {
		return nil, err
	}
	pi := &patchInfo{newIndex: map[string]int{}, oldRead: map[string][]string{}}
	for _, f := range dp.Target.Files {
		pi.oldPaths = append(pi.oldPaths, f.Path)
		pi.oldSizes = append(pi.oldSizes, f.Size)
	}
	last := int64(-1)
	for i, s := range dp.Series {
		nf := dp.Source.Files[i]
		pi.newIndex[nf.Path] = i
		fi := fileInfo{mode: "data"}
		seen := map[int64]bool{}
		read := func(t int64) {
			if !seen[t] {
				seen[t] = true
				fi.reads = append(fi.reads, t)
			}
			last = t
		}
		switch {
		case s.Bsdiff != nil:
			fi.mode = "bsdiff"
			pi.nops += len(s.Ctrl)
			read(s.Bsdiff.TargetIndex)
		case len(s.Ops) > 0 && s.Ops[0].Type == pwr.SyncOp_BLOCK_RANGE && s.Ops[0].BlockIndex == 0 &&
			s.Ops[0].FileIndex >= 0 && s.Ops[0].FileIndex < int64(len(dp.Target.Files)) &&
			dp.Target.Files[s.Ops[0].FileIndex].Size == nf.Size && s.Ops[0].BlockSpan == (nf.Size+B-1)/B:
			fi.mode = "whole-copy"
			pi.nops += len(s.Ops)
			fi.afterSame = last == s.Ops[0].FileIndex
			read(s.Ops[0].FileIndex)
		default:
			pi.nops += len(s.Ops)
			for _, op := range s.Ops {
				if op.Type == pwr.SyncOp_BLOCK_RANGE {
					fi.mode = "block-ranges"
					read(op.FileIndex)
				}
			}
		}
		for _, t := range fi.reads {
			p := pi.oldPaths[t]
			pi.oldRead[p] = append(pi.oldRead[p], fi.reuse())
		}
		pi.files = append(pi.files, fi)
	}
	return pi, nil
}

// ---------------------------------------------------------------------------
// application through the safekeeper

type applyResult struct {
	stage   string // "" ok; new | safekeeper | bowl | resume | commit | panic | hang
	err     error
	current string // new file being processed when the error occurred (progress label)
	site    string
}

func applyThroughSafeKeeper(patch, oldSig []byte, oldDir, outDir string) applyResult {
	ch := make(chan applyResult, 1)
	go func() {
		var res applyResult
		defer func() {
			if e := recover(); e != nil {
				res.stage = "panic"
				res.err = fmt.Errorf("panic: %v", e)
				res.site = runner.PanicSite(string(debug.Stack()))
			}
			ch <- res
		}()
		consumer := &state.Consumer{OnProgressLabel: func(l string) { res.current = l }}
		p, err := patcher.New(seeksource.FromBytes(patch), consumer)
		if err != nil {
			res.stage, res.err = "new", err
			return
		}
		// one safekeeper-wrapped pool over the (possibly damaged) old build, shared by
		// the patcher and the bowl
		pool, err := pwr.NewSafeKeeper(pwr.SafeKeeperParams{
			Inner: fspool.New(p.GetTargetContainer(), oldDir),
			Open: func() (savior.SeekSource, error) {
				src := seeksource.FromBytes(oldSig)
				if _, err := src.Resume(nil); err != nil {
					return nil, err
				}
				return src, nil
			},
		})
		if err != nil {
			res.stage, res.err = "safekeeper", err
			return
		}
		bwl, err := bowl.NewFreshBowl(bowl.FreshBowlParams{
			SourceContainer: p.GetSourceContainer(),
			TargetContainer: p.GetTargetContainer(),
			TargetPool:      pool,
			OutputFolder:    outDir,
		})
		if err != nil {
			res.stage, res.err = "bowl", err
			return
		}
		defer bwl.Close()
		if err := p.Resume(nil, pool, bwl); err != nil {
			res.stage, res.err = "resume", err
			return
		}
		if err := bwl.Commit(); err != nil {
			res.stage, res.err = "commit", err
			return
		}
	}()
	watchdog := time.NewTimer(hangTimeout)
	defer watchdog.Stop()
	select {
	case r := <-ch:
		return r
	case <-watchdog.C:
		return applyResult{stage: "hang", err: fmt.Errorf("application did not return within %v", hangTimeout)}
	}
}

// ---------------------------------------------------------------------------
// per-worker preparation cache

type prep struct {
	oldDir, newDir string
	oldSig         []byte
	want           map[string]wh.Snap
	patch          [2][]byte
	info           [2]*patchInfo
	base           [2]*observed
}

// observed is what one application left behind.
type observed struct {
	res  applyResult
	snap map[string]wh.Snap // output tree (also taken after an error: partial output)
}

func (o *observed) errored() bool { return o.res.stage != "" }

type env struct {
	w     *runner.W
	preps map[string]*prep
	n     int
}

func buildKey(b wh.Build) string {
	var sb strings.Builder
	for _, e := range b {
		sb.WriteString(e.Path + "=" + e.Content + ";")
	}
	return sb.String()
}

func (e *env) tmp(tag string) string {
	e.n++
	return filepath.Join(e.w.Scratch(), fmt.Sprintf("%s%d", tag, e.n))
}

func (e *env) prepare(c Case) (*prep, error) {
	k := buildKey(c.Old) + "->" + buildKey(c.New)
	p := e.preps[k]
	if p == nil {
		p = &prep{oldDir: e.tmp("old"), newDir: e.tmp("new")}
		materialize(c.Old, p.oldDir, e.w.Seed)
		materialize(c.New, p.newDir, e.w.Seed)
		empty := e.tmp("empty")
		os.MkdirAll(empty, 0o755)
		// the signature published together with the old build
		sr, err := wh.Diff(empty, p.oldDir, "none")
		if err != nil {
			return nil, fmt.Errorf("signing the old build: %w", err)
		}
		p.oldSig = sr.Sig
		dr, err := wh.Diff(p.oldDir, p.newDir, "none")
		if err != nil {
			return nil, fmt.Errorf("diff: %w", err)
		}
		p.patch[0] = dr.Patch
		p.want, err = wh.Snapshot(p.newDir)
		if err != nil {
			return nil, err
		}
		e.preps[k] = p
	}
	o := 0
	if c.Opt {
		o = 1
		if p.patch[1] == nil {
			opt, _, err := wh.Rediff(p.patch[0], p.oldDir, p.newDir, wh.RediffParams{Partitions: 2, Comp: "none"})
			if err != nil {
				return nil, fmt.Errorf("rediff: %w", err)
			}
			p.patch[1] = opt
		}
	}
	if p.info[o] == nil {
		pi, err := analyze(p.patch[o])
		if err != nil {
			return nil, fmt.Errorf("independent decoder: %w", err)
		}
		p.info[o] = pi
	}
	return p, nil
}

// observe applies the patch to a copy of the old build carrying the given
// damages (nil: the undamaged old build itself). ok=false: a damage was not
// applicable.
func (e *env) observe(p *prep, o int, ds []Dmg) (obs *observed, ok bool) {
	oldDir := p.oldDir
	if len(ds) > 0 {
		oldDir = e.tmp("dmg")
		defer os.RemoveAll(oldDir)
		if err := wh.CopyTree(p.oldDir, oldDir); err != nil {
			panic(err)
		}
		for _, d := range ds {
			if !applyDamage(oldDir, d, e.w.Seed) {
				return nil, false
			}
		}
	}
	out := e.tmp("out")
	defer os.RemoveAll(out)
	obs = &observed{res: applyThroughSafeKeeper(p.patch[o], p.oldSig, oldDir, out)}
	var err error
	obs.snap, err = wh.Snapshot(out)
	if err != nil {
		panic(err)
	}
	return obs, true
}

// baseline is the application to the undamaged old build, once per worker and
// patch: a wrong result under damage is attributed to the damage only if the
// same new file comes out right without any damage.
func (e *env) baseline(p *prep, o int) *observed {
	if p.base[o] == nil {
		p.base[o], _ = e.observe(p, o, nil)
	}
	return p.base[o]
}

func sameContent(a, b wh.Snap) bool {
	return a.Kind == b.Kind && a.Size == b.Size && a.Sum == b.Sum && a.Dest == b.Dest
}

// baselineFails reports whether the undamaged application already violates the
// property for the new file at newPath (wrong content, or rejected while it
// was being written).
func (e *env) baselineFails(p *prep, o int, newPath string) bool {
	b := e.baseline(p, o)
	pi := p.info[o]
	idx, ok := pi.newIndex[newPath]
	if !ok {
		return false
	}
	if b.errored() {
		cur, ok := pi.newIndex[b.res.current]
		if !ok || idx > cur {
			return false // not reached
		}
		if idx == cur {
			return true
		}
	}
	g, okg := b.snap[newPath]
	return !okg || !sameContent(g, p.want[newPath])
}

func body(w *runner.W) {
	e := &env{w: w, preps: map[string]*prep{}}
	run := func(c Case, r *runner.Rec) { e.runCase(c, r) }
	thorough := !w.Quick()
	ps := pairs(thorough)

	type config struct {
		p   pair
		opt bool
	}
	var cfgs []config
	for _, p := range ps {
		cfgs = append(cfgs, config{p, false}, config{p, true})
	}
	mk := func(cf config, d ...Dmg) Case {
		return Case{Pair: cf.p.name, Old: cf.p.old, New: cf.p.nw, Opt: cf.opt, Dmg: d}
	}
	oldSizes := func(p pair) map[string]int64 {
		m := map[string]int64{}
		for _, f := range p.old {
			m[f.Path] = int64(len(content(f.Content, w.Seed)))
		}
		return m
	}

	// every sub-check may call the optimizer (bsdiff goroutines): journal the cases
	und := runner.NewSub(w, "undamaged", run, runner.Journal())
	if und.Active() {
		for i, cf := range cfgs {
			if w.Owns(i) {
				und.DoOwned(mk(cf))
			}
		}
		und.Note("pairs", len(ps))
		und.Done()
	}

	single := runner.NewSub(w, "single", run, runner.Journal())
	if single.Active() {
		for i, cf := range cfgs {
			if !w.Owns(i) {
				continue
			}
			sz := oldSizes(cf.p)
			for _, f := range cf.p.old {
				for _, d := range singles(f.Path, sz[f.Path]) {
					single.DoOwned(mk(cf, d))
				}
			}
		}
		single.Done()
	}

	cross := runner.NewSub(w, "two-files", run, runner.Journal())
	if cross.Active() {
		ord := 0
		for _, cf := range cfgs {
			if len(cf.p.old) < 2 {
				continue
			}
			sz := oldSizes(cf.p)
			for i := 0; i < len(cf.p.old); i++ {
				for j := i + 1; j < len(cf.p.old); j++ {
					fi, fj := cf.p.old[i], cf.p.old[j]
					for _, d1 := range singles(fi.Path, sz[fi.Path]) {
						mine := w.Owns(ord)
						ord++
						if !mine {
							continue
						}
						for _, d2 := range singles(fj.Path, sz[fj.Path]) {
							cross.DoOwned(mk(cf, d1, d2))
						}
					}
				}
			}
		}
		cross.Done()
	}

	same := runner.NewSub(w, "same-file", run, runner.Journal())
	if same.Active() {
		// pairs of single damages of different kinds on one file, applied in the
		// order truncate, extend, flip (quick: a slice of the pairs; thorough: all)
		rank := map[string]int{"truncate": 0, "extend": 1, "flip": 2}
		ord := 0
		for _, cf := range cfgs {
			if w.Quick() && !strings.HasSuffix(cf.p.name, "/whole") && !strings.HasSuffix(cf.p.name, "/fresh-then-all") && !strings.HasSuffix(cf.p.name, "/insert") {
				continue
			}
			sz := oldSizes(cf.p)
			for _, f := range cf.p.old {
				ds := singles(f.Path, sz[f.Path])
				for _, d1 := range ds {
					mine := w.Owns(ord)
					ord++
					if !mine || d1.Kind == "delete" {
						continue
					}
					for _, d2 := range ds {
						if d2.Kind == "delete" || rank[d1.Kind] >= rank[d2.Kind] {
							continue
						}
						if d1.Kind == "truncate" && d2.Kind == "flip" && d2.N >= d1.N {
							continue // the byte to flip was cut off
						}
						same.DoOwned(mk(cf, d1, d2))
					}
				}
			}
		}
		same.Done()
	}
}

func (e *env) runCase(c Case, r *runner.Rec) {
	p, err := e.prepare(c)
	if err != nil {
		r.Failf("prepare-error", "%v", err)
		return
	}
	o := 0
	if c.Opt {
		o = 1
	}
	pi := p.info[o]
	r.Trans(pi.nops)
	signed := map[string]int64{}
	for i, op := range pi.oldPaths {
		signed[op] = pi.oldSizes[i]
	}

	// outcome class / non-triviality from the damage list and the decoded patch
	var labels []string
	if len(c.Dmg) > 0 {
		hitsRead := false
		for _, d := range c.Dmg {
			if _, ok := signed[d.Path]; !ok {
				panic("damage names a file that is not in the old build: " + d.Path)
			}
			how := "unread"
			if m := pi.oldRead[d.Path]; len(m) > 0 {
				hitsRead = true
				how = strings.Join(m, ",")
			}
			labels = append(labels, how+"<-"+kindLabel(d, signed[d.Path]))
		}
		if hitsRead {
			r.Nontrivial()
		}
	} else {
		labels = []string{"none"}
		if len(pi.oldRead) > 0 {
			r.Nontrivial()
		}
	}
	class := strings.Join(labels, " & ")

	var obs *observed
	if len(c.Dmg) == 0 {
		obs = e.baseline(p, o)
	} else {
		var ok bool
		obs, ok = e.observe(p, o, c.Dmg)
		if !ok {
			r.Outcome("damage-not-applicable")
			return
		}
	}
	res := obs.res

	// reuse / size class of a new file
	shapeOf := func(newPath string) (fi fileInfo, size string, ok bool) {
		idx, ok := pi.newIndex[newPath]
		if !ok {
			return fileInfo{}, "?", false
		}
		fi = pi.files[idx]
		size = "no-old-file"
		if len(fi.reads) > 0 {
			size = sizeClassOf(pi.oldSizes[fi.reads[0]])
		}
		return fi, size, true
	}
	// kinds of the given damages that hit an old file read by fi
	relevant := func(fi fileInfo, ds []Dmg) (kinds []string, size string) {
		for _, d := range ds {
			for _, t := range fi.reads {
				if pi.oldPaths[t] == d.Path {
					kinds = append(kinds, kindLabel(d, signed[d.Path]))
					if size == "" {
						size = sizeClassOf(signed[d.Path])
					}
				}
			}
		}
		sort.Strings(kinds)
		return kinds, size
	}
	// damage label of a silently wrong new file:
	//  - "already-failing" if the same new file already violates the
	//    property without any damage (the damage is not what makes it wrong);
	//  - for two damages: the single damage that alone yields the very same wrong
	//    content, if there is one;
	//  - else the kinds of all damages on old files this new file reads.
	damageLabel := func(newPath string, fi fileInfo, size string) (string, string) {
		if len(c.Dmg) == 0 {
			return "none", size
		}
		if e.baselineFails(p, o, newPath) {
			return "already-failing", size
		}
		ds := c.Dmg
		if len(ds) > 1 {
			for _, d := range ds {
				alone, ok := e.observe(p, o, []Dmg{d})
				if ok && !alone.errored() && sameContent(alone.snap[newPath], obs.snap[newPath]) {
					ds = []Dmg{d}
					break
				}
			}
		}
		kinds, sz := relevant(fi, ds)
		if len(kinds) == 0 {
			return "damage-elsewhere", size
		}
		return strings.Join(kinds, "+"), sz
	}

	switch res.stage {
	case "":
		// no error: must equal the new build
	case "hang":
		r.Outcome(class + " => hang")
		r.Failf("hang", "%v", res.err)
		return
	case "panic":
		r.Outcome(class + " => panic")
		r.Failf("panic:"+res.site, "%v", res.err)
		return
	case "new", "safekeeper", "bowl":
		// these stages never touch the old build's content: a valid patch must get through
		r.Outcome(class + " => setup-error")
		r.Failf("setup-error:"+res.stage, "%v", res.err)
		return
	default: // resume | commit
		r.Outcome(class + " => error")
		if len(c.Dmg) == 0 {
			fi, size, _ := shapeOf(res.current)
			r.Failf(fmt.Sprintf("undamaged-rejected:none:%s:%s", size, fi.reuse()),
				"undamaged old build rejected while writing %q (%s): %v", res.current, res.stage, firstLine(res.err.Error()))
		}
		return
	}

	got := obs.snap
	diffs := wh.DiffSnaps(got, p.want, false)
	if len(diffs) == 0 {
		r.Outcome(class + " => ok")
		return
	}
	r.Outcome(class + " => WRONG")
	// one failure per distinct fingerprint
	seen := map[string]bool{}
	var paths []string
	for path := range p.want {
		paths = append(paths, path)
	}
	for path := range got {
		if _, ok := p.want[path]; !ok {
			paths = append(paths, path)
		}
	}
	sort.Strings(paths)
	for _, path := range paths {
		g, okg := got[path]
		wnt, okw := p.want[path]
		if okg && okw && sameContent(g, wnt) {
			continue
		}
		fp := "silent-wrong:tree-shape"
		if fi, size, ok := shapeOf(path); ok && okg && okw {
			dmg, sz := damageLabel(path, fi, size)
			fp = fmt.Sprintf("silent-wrong:%s:%s:%s", dmg, sz, fi.reuse())
		}
		if seen[fp] {
			continue
		}
		seen[fp] = true
		desc := "missing"
		if okg {
			desc = fmt.Sprintf("%d bytes (%s)", g.Size, g.Sum)
		}
		wdesc := "absent"
		if okw {
			wdesc = fmt.Sprintf("%d bytes (%s)", wnt.Size, wnt.Sum)
		}
		r.Failf(fp, "no error, but %q is %s, the new build has %s; all differences: %s", path, desc, wdesc, strings.Join(diffs, "; "))
	}
}

func firstLine(s string) string {
	if i := strings.IndexByte(s, '\n'); i >= 0 {
		s = s[:i]
	}
	if len(s) > 240 {
		s = s[:240]
	}
	return s
}
