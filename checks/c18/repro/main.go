// Stand-alone reproduction of the C18 failure class
// err:leak-on-close-after-failed-write:equals-next-signed-block
// (uses only wharf + lake, none of the verification library):
//
//	cd /verif && GOFLAGS=-mod=mod GOPROXY=off go run ./checks/c18/repro
//
// Signed file = blocks A.B. Written = B.B (content shifted by one block). The
// Write that completes block 0 fails, as it must. The caller then closes the
// writer (deferred Close, like pwr's validator and the patcher do): Close
// validates the rejected block again, now against block 1 — it matches — and
// forwards it to the underlying pool, returning nil.
package main

import (
	"bytes"
	"context"
	"fmt"
	"io"
	"math/rand"

	"github.com/itchio/headway/state"
	"github.com/itchio/lake/tlc"
	"github.com/itchio/wharf/pwr"
)

const B = 64 * 1024

type memPool struct {
	files   [][]byte
	written map[int64]*bytes.Buffer
}

func (p *memPool) GetSize(i int64) int64                { return int64(len(p.files[i])) }
func (p *memPool) GetReader(i int64) (io.Reader, error) { return bytes.NewReader(p.files[i]), nil }
func (p *memPool) GetReadSeeker(i int64) (io.ReadSeeker, error) {
	return bytes.NewReader(p.files[i]), nil
}
func (p *memPool) Close() error { return nil }

type nopCloser struct{ *bytes.Buffer }

func (nopCloser) Close() error { return nil }

func (p *memPool) GetWriter(i int64) (io.WriteCloser, error) {
	b := &bytes.Buffer{}
	p.written[i] = b
	return nopCloser{b}, nil
}

func main() {
	rng := rand.New(rand.NewSource(1))
	blkA, blkB := make([]byte, B), make([]byte, B)
	rng.Read(blkA)
	rng.Read(blkB)
	signed := append(append([]byte{}, blkA...), blkB...)

	c := &tlc.Container{Files: []*tlc.File{{Path: "f", Mode: 0o644, Size: int64(len(signed))}}, Size: int64(len(signed))}
	hashes, err := pwr.ComputeSignature(context.Background(), c, &memPool{files: [][]byte{signed}}, &state.Consumer{})
	if err != nil {
		panic(err)
	}

	inner := &memPool{files: [][]byte{nil}, written: map[int64]*bytes.Buffer{}}
	vp := &pwr.ValidatingPool{Pool: inner, Container: c, Signature: &pwr.SignatureInfo{Container: c, Hashes: hashes}} // error mode: no Wounds channel
	w, err := vp.GetWriter(0)
	if err != nil {
		panic(err)
	}
	written := append(append([]byte{}, blkB...), blkB...) // B.B instead of A.B
	n, werr := w.Write(written)
	fmt.Printf("Write(%d bytes) = %d, %v\n", len(written), n, werr)
	fmt.Printf("inner pool after the failed Write: %d bytes\n", inner.written[0].Len())
	cerr := w.Close()
	fmt.Printf("Close() = %v\n", cerr)
	got := inner.written[0].Bytes()
	fmt.Printf("inner pool after Close: %d bytes; equal to block B: %v\n", len(got), bytes.Equal(got, blkB))
	if werr != nil && len(got) > 0 {
		fmt.Println("=> the block that was rejected (it is not the signed block 0) reached the underlying pool at offset 0, and Close reported success")
	}
}
