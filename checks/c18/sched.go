//go:build vsched

package main

// Scheduler-controlled part of C18 (wound mode): writer, per-file relay,
// aggregator and a draining consumer under the controlled scheduler. After
// Close returns the harness closes the pool's Wounds channel, exactly as the
// validator does after its workers finish: every wound must have been relayed
// by then (otherwise the relay sends on a closed channel or wounds are lost),
// and the consumer must see the tiling the sequential part specifies.

import (
	"fmt"
	"os"

	"github.com/itchio/lake/tlc"
	"github.com/itchio/wharf/pwr"
	"github.com/itchio/wharf/wsync"
	"github.com/itchio/wharf/zzverif/vsched"

	"verif/lib/mempool"
	"verif/lib/runner"
	"verif/lib/wh"
)

func init() { schedSubs = schedBody }

type SchedCase struct {
	Blocks   int   `json:"blocks"` // signed size in blocks (plus 100 bytes tail)
	Bad      []int `json:"bad"`    // altered blocks
	Agg      bool  `json:"agg"`    // through AggregateWounds
	Cap      int   `json:"cap"`    // capacity of the pool's Wounds channel
	Chunk    int   `json:"chunk"`  // write size
	Bound    int   `json:"bound"`
	Schedule []int `json:"schedule,omitempty"`
}

func schedBody(w *runner.W) {
	var sub *runner.Sub[SchedCase]
	sub = runner.NewSub(w, "wound-interleavings", func(sc SchedCase, r *runner.Rec) {
		size := sc.Blocks*wh.B + 100
		signed := wh.Content(fmt.Sprintf("r3/%d", size), w.Seed)
		written := append([]byte{}, signed...)
		bad := map[int]bool{}
		for _, b := range sc.Bad {
			written[b*wh.B] ^= 0xff
			bad[b] = true
		}
		container := &tlc.Container{Files: []*tlc.File{{Path: "f", Size: int64(size), Mode: 0o644}}, Size: int64(size)}
		// signature of the signed content
		var hashes []wsync.BlockHash
		sctx := wsync.NewContext(wh.B)
		for i := 0; i*wh.B < size; i++ {
			end := (i + 1) * wh.B
			if end > size {
				end = size
			}
			weak, strong := sctx.HashBlock(signed[i*wh.B : end])
			hashes = append(hashes, wsync.BlockHash{FileIndex: 0, BlockIndex: int64(i), WeakHash: weak, StrongHash: strong})
		}
		sig := &pwr.SignatureInfo{Container: container, Hashes: hashes}
		nblocks := len(hashes)

		var got []*pwr.Wound
		var closeErr, writeErr error
		var returned bool
		bodyFn := func() {
			got, closeErr, writeErr, returned = nil, nil, nil, false
			wounds := vsched.Make[*pwr.Wound](sc.Cap)
			consumerDone := vsched.Make[bool](0)
			vp := &pwr.ValidatingPool{Pool: mempool.New([][]byte{nil}), Container: container, Signature: sig, Wounds: wounds}
			if sc.Agg {
				vp.WoundsFilter = func(ws chan *pwr.Wound) chan *pwr.Wound { return pwr.AggregateWounds(ws, pwr.MaxWoundSize) }
			}
			vsched.Go0(func() {
				for {
					wd, ok := vsched.Recv2(wounds)
					if !ok {
						break
					}
					got = append(got, wd)
				}
				vsched.Send(consumerDone, true)
			})
			wr, err := vp.GetWriter(0)
			if err != nil {
				panic(err)
			}
			for off := 0; off < len(written); off += sc.Chunk {
				end := off + sc.Chunk
				if end > len(written) {
					end = len(written)
				}
				if _, err := wr.Write(written[off:end]); err != nil {
					writeErr = err
					break
				}
			}
			closeErr = wr.Close()
			// the validator closes the wounds channel once its workers are done
			vsched.Close(wounds)
			vsched.Recv(consumerDone)
			returned = true
		}
		judge := func(out vsched.Result) (string, string) {
			switch out.Kind {
			case "done":
			case "deadlock":
				return "deadlock:wound-mode", "writer/relay/aggregator/consumer deadlock: [" + out.Detail + "]"
			case "step-budget":
				return "livelock", out.Detail
			case "panic":
				return "panic:" + runner.PanicSite(out.Detail), out.Detail
			default:
				return "harness:" + out.Kind, out.Detail
			}
			if !returned {
				return "harness:no-return", ""
			}
			if writeErr != nil || closeErr != nil {
				return "wound-mode-error", fmt.Sprintf("write error %v close error %v", writeErr, closeErr)
			}
			// tiling oracle
			pos := int64(0)
			covered := map[int]string{}
			for _, wd := range got {
				if wd.Start != pos {
					return "wounds-not-tiling", fmt.Sprintf("record [%d,%d) kind %v after position %d (gap, overlap or wrong order)", wd.Start, wd.End, wd.Kind, pos)
				}
				if wd.End < wd.Start {
					return "wounds-malformed", fmt.Sprintf("record [%d,%d)", wd.Start, wd.End)
				}
				pos = wd.End
				for b := int(wd.Start) / wh.B; b*wh.B < int(wd.End); b++ {
					k := "healthy"
					if wd.Kind == pwr.WoundKind_FILE {
						k = "wound"
					}
					covered[b] = k
				}
			}
			if pos != int64(size) {
				return "wounds-lost", fmt.Sprintf("records delivered before the channel was closed cover [0,%d) of %d bytes (%d records)", pos, size, len(got))
			}
			for b := 0; b < nblocks; b++ {
				want := "healthy"
				if bad[b] {
					want = "wound"
				}
				if sc.Agg && covered[b] == "wound" && !bad[b] {
					// aggregation merges adjacent wounds only; a healthy block inside a wound record is wrong
					return "wound-kind-mismatch", fmt.Sprintf("block %d reported as wound but is healthy", b)
				}
				if covered[b] != want {
					return "wound-kind-mismatch", fmt.Sprintf("block %d reported as %s, expected %s", b, covered[b], want)
				}
			}
			return "", ""
		}
		opts := vsched.Options{PreemptionBound: sc.Bound, StepBudget: 50000}
		if sc.Schedule != nil {
			out := vsched.RunOnce(opts, sc.Schedule, bodyFn)
			if fp, msg := judge(out); fp != "" {
				r.Failf(fp, "%s", msg)
			}
			return
		}
		opts.Deadline = w.Deadline()
		split := sc.Bound >= 3
		if split {
			opts.ShardIdx, opts.ShardN = w.Index(), w.N()
		}
		reported := map[string]bool{}
		st := vsched.Explore(opts, bodyFn, func(out vsched.Result) bool {
			fp, msg := judge(out)
			if fp != "" && !reported[fp] {
				reported[fp] = true
				again := vsched.RunOnce(vsched.Options{PreemptionBound: sc.Bound, StepBudget: 50000}, out.Choices, bodyFn)
				if fp2, _ := judge(again); fp2 != fp {
					r.Failf("harness:nondeterministic-replay", "schedule %v gave %q then %q", out.Choices, fp, fp2)
					return false
				}
				cc := sc
				cc.Schedule = append([]int{}, out.Choices...)
				sub.Report(cc, fp, "%s; schedule=%v", msg, out.Choices)
			}
			return true
		})
		if os.Getenv("VERIF_DEBUG") != "" {
			fmt.Fprintf(os.Stderr, "scenario %+v: %+v\n", sc, st)
		}
		if st.HarnessError != "" {
			r.Failf("harness:explore", "%s", st.HarnessError)
		}
		sub.Count(int64(st.Executions), int64(st.States), int64(st.Transitions))
		first := !split || w.Index() == 0
		if first && len(sc.Bad) > 0 {
			r.Nontrivial()
		}
		r.Outcome(fmt.Sprintf("agg=%v cap=%d", sc.Agg, sc.Cap))
		sub.AddNote("executions", st.Executions)
		sub.AddNote("pruned_by_hb_cache", st.Pruned)
		sub.MaxNote("max_goroutines", st.MaxGoroutines)
		sub.MaxNote("max_preemptions_used", st.MaxPreempts)
		if first {
			if st.Complete {
				sub.AddNote(fmt.Sprintf("scenarios_complete_bound_%d", sc.Bound), 1)
			} else {
				sub.AddNote("scenarios_cut_by_deadline", 1)
			}
		}
		if st.MaxGoroutines < 3 {
			// not an error of anybody: the code may have been restructured so that this scenario
			// has nothing to interleave any more; the evidence says so
			sub.AddNote("scenarios_without_concurrency", 1)
			sub.Incomplete("a scenario never had three goroutines alive at once: nothing to interleave there")
		}
	}, runner.Variant("sched"))
	if sub.Active() {
		bq := func(q, t int) int {
			if w.Quick() {
				return q
			}
			return t
		}
		var scs []SchedCase
		for _, agg := range []bool{false, true} {
			for _, capacity := range []int{0, 1} {
				scs = append(scs,
					SchedCase{Blocks: 1, Bad: []int{0}, Agg: agg, Cap: capacity, Chunk: wh.B + 50, Bound: bq(-1, -1)},
					SchedCase{Blocks: 1, Bad: []int{1}, Agg: agg, Cap: capacity, Chunk: 70000, Bound: bq(-1, -1)},
					SchedCase{Blocks: 2, Bad: []int{0, 1}, Agg: agg, Cap: capacity, Chunk: 3 * wh.B, Bound: bq(3, -1)},
					SchedCase{Blocks: 2, Bad: []int{1}, Agg: agg, Cap: capacity, Chunk: wh.B, Bound: bq(3, -1)},
					SchedCase{Blocks: 2, Bad: nil, Agg: agg, Cap: capacity, Chunk: 3 * wh.B, Bound: bq(3, -1)},
				)
			}
		}
		for _, sc := range scs {
			if sc.Bound >= 3 {
				sub.DoOwned(sc)
			}
		}
		for _, sc := range scs {
			if sc.Bound < 3 && sc.Bound >= 0 {
				sub.Do(sc)
			} else if sc.Bound < 0 {
				sub.Do(sc)
			}
		}
		sub.Done()
	}
}
