// C18 — writing through a validating pool checks every block regardless of
// write sizes (sequential part, engine E1).
//
// Enumerated: signed file sizes around block multiples x written contents
// (signed content with any subset of blocks altered, truncated to / extended by
// boundary lengths) x write slicings (all cut sets of <=3 cuts at boundary
// positions, uniform 1 B / 4 KiB / 32 KiB / B+1 writes) x mode (error mode,
// wound mode without filter, wound mode through pwr.AggregateWounds like the
// validator). The inner pool is an in-memory pool; the signature comes from the
// real pwr.ComputeSignature over a container whose file under test is preceded
// by an empty file and a short-tailed file (so hash offsets are non-trivial).
//
// Oracle: direct block-by-block comparison of the written bytes with the signed
// bytes (no hashes), see expectations() below.
//
// Fingerprints: <mode>:<what went wrong>[:<class of the first bad block>], mode =
// err | wound | wound-agg; bad block class = altered | equals-next-signed-block
// | truncated | overlong-tail | surplus | none.
//
// The interleaving part (E2: writer / aggregator / relay goroutines under a
// controlled scheduler) is not in this file.
package main

import (
	"bytes"
	"context"
	"fmt"
	"github.com/itchio/wharf/pwr/bowl"
	"io"
	"runtime/debug"
	"sort"
	"strings"
	"time"

	"github.com/itchio/lake/tlc"
	"github.com/itchio/wharf/pwr"

	"verif/lib/mempool"
	"verif/lib/runner"
	"verif/lib/wh"
)

const B = wh.B

const hangTimeout = 120 * time.Second

// Case is the replay artefact.
type Case struct {
	// Signed: content spec of the signed file ("" = Size pseudo-random bytes); used
	// by the structured family (zero blocks, repeated blocks).
	Signed string `json:"signed,omitempty"`
	Size   int    `json:"signed_size"`
	// Alt: one letter per signed block: '-' unchanged, 'f' first byte of the block
	// inverted, 'l' last byte inverted, 'n' replaced by the next signed block
	// (only where both are full blocks). Applied before the length change.
	Alt string `json:"alt"`
	// Len: number of bytes written; < Size truncates, > Size appends seeded bytes.
	Len int `json:"written_len"`
	// Slicing: explicit cut positions (sorted, inside (0,Len)) or, if Uniform > 0,
	// writes of Uniform bytes.
	Cuts    []int  `json:"cuts,omitempty"`
	Uniform int    `json:"uniform,omitempty"`
	Mode    string `json:"mode"` // error | wound | wound-aggregate
}

func main() {
	runner.Main(runner.Config{
		ID:    "C18",
		Level: "model_checking",
		Rule:  "bounded exhaustive enumeration: signed size in {0,1,B-1,B,B+1,2B,2B+1 (thorough: +3B)} x written content = signed content with every assignment of {unchanged, first byte inverted, last byte inverted, replaced by the next signed block (full blocks only), replaced by its weak twin (same rolling checksum, other bytes)} to its blocks | truncated to every length of {0,1,B-1,B,B+1,2B,size-1} below the size | extended by {1,B-1,B,B+1} (thorough: every single-block alteration combined with every length change) ; plus a structured family (signed contents made of zero blocks and repeated blocks: Z.Z, A.A, A.A.A, Z.A, A.Z, with tails; every assignment of {unchanged, fresh random block, zero block, previous signed block, weak twin} to the blocks) x slicing = every set of <=3 cuts at positions {1,B-1,B,B+1,2B-1,2B,len-1} inside the written range, plus uniform writes of 1, 4096, 32768 and B+1 bytes x mode {error, wound, wound through AggregateWounds}. Sub-check two-writers: two files of one pool open at once and written in turns, or one after the other, with pieces of 1..B+1 bytes and an empty Write in front of every piece (signed content must pass through both, error and wound mode). Sub-check pool-bowl: the real pool bowl (Transpose, and its entry writer fed in 32KiB pieces) writing the same contents into a validating pool in error mode: refused iff some written block differs from or lies beyond the signed blocks. Each case drives the real ValidatingPool writer over verif/lib/mempool; after a failed Write no further Write is issued and the writer is closed, as a caller with a deferred Close does. Oracle by direct byte comparison per block. Non-trivial = the written content has at least one differing or surplus block and at least one boundary between two Write calls lies inside a block.",
		Assumptions: []string{
			"block contents are seeded pseudo-random (VERIF_SEED); altered bytes are bit inversions of single bytes, or whole signed blocks moved by one position",
			"sequential part only: the goroutines of wound mode (relay, aggregator, a draining consumer) run under the Go scheduler; their interleavings are enumerated by the scheduler-controlled sub-check wound-interleavings (variant sched)",
			"wound-mode records beyond the signed length are only required to be wounds in offset order (their extents are not constrained by the statement)",
			"zero-length Write calls are not enumerated",
		},
		Variants:       []string{"sched"},
		QuickBudget:    80 * time.Second,
		ThoroughBudget: 12 * time.Minute,
	}, body)
}

// ---------------------------------------------------------------------------
// contents

func signedContent(size int, seed int64) []byte {
	return wh.Content(fmt.Sprintf("r18/%d", size), seed)
}

func numBlocks(n int) int { return (n + B - 1) / B }

func blockOf(b []byte, j int) []byte {
	s, e := j*B, (j+1)*B
	if s > len(b) {
		return nil
	}
	if e > len(b) {
		e = len(b)
	}
	return b[s:e]
}

// written builds the written content of a case.
func written(c Case, signed []byte, seed int64) []byte {
	w := append([]byte{}, signed...)
	for j := 0; j < len(c.Alt); j++ {
		blk := blockOf(w, j)
		switch c.Alt[j] {
		case '-':
		case 'f':
			blk[0] ^= 0xff
		case 'l':
			blk[len(blk)-1] ^= 0xff
		case 'w':
			// weak twin: same rolling checksum, other bytes (only the strong hash tells)
			if len(blk) < 64 {
				panic("alteration w needs a block of at least 64 bytes")
			}
			copy(blk, wh.WeakTwin(blk))
		case 'z':
			for i := range blk {
				blk[i] = 0
			}
		case 'x':
			copy(blk, wh.Content(fmt.Sprintf("r82/%d", len(blk)), seed+int64(j)))
		case 'p':
			prv := blockOf(signed, j-1)
			if j == 0 || len(prv) < len(blk) {
				panic("alteration p needs a previous block at least as long")
			}
			copy(blk, prv)
		case 'n':
			nxt := blockOf(signed, j+1)
			if len(nxt) != B || len(blk) != B {
				panic("alteration n needs two full blocks")
			}
			copy(blk, nxt)
		default:
			panic("bad alteration")
		}
	}
	if c.Len <= len(w) {
		return w[:c.Len]
	}
	return append(w, wh.Content(fmt.Sprintf("r81/%d", c.Len-len(w)), seed)...)
}

func slices(c Case, w []byte) [][]byte {
	var out [][]byte
	if c.Uniform > 0 {
		for off := 0; off < len(w); off += c.Uniform {
			e := off + c.Uniform
			if e > len(w) {
				e = len(w)
			}
			out = append(out, w[off:e])
		}
		return out
	}
	prev := 0
	for _, cut := range c.Cuts {
		if cut <= prev || cut >= len(w) {
			panic("bad cut")
		}
		out = append(out, w[prev:cut])
		prev = cut
	}
	if len(w) > prev {
		out = append(out, w[prev:])
	}
	return out
}

// ---------------------------------------------------------------------------
// the pool under test

const (
	padSize   = B + 7 // file 1: one full block and a short tail
	fileIndex = 2     // file under test
)

type fixture struct {
	container *tlc.Container
	sig       *pwr.SignatureInfo
}

func newFixture(signed []byte, seed int64) *fixture {
	pad := wh.Content(fmt.Sprintf("r19/%d", padSize), seed)
	files := [][]byte{nil, pad, signed}
	c := &tlc.Container{}
	var off int64
	for i, f := range files {
		c.Files = append(c.Files, &tlc.File{Path: fmt.Sprintf("file%d", i), Mode: 0o644, Size: int64(len(f)), Offset: off})
		off += int64(len(f))
	}
	c.Size = off
	hashes, err := pwr.ComputeSignature(context.Background(), c, mempool.New(files), wh.Quiet())
	if err != nil {
		panic(err)
	}
	return &fixture{container: c, sig: &pwr.SignatureInfo{Container: c, Hashes: hashes}}
}

type record struct {
	Index, Start, End int64
	Kind              pwr.WoundKind
}

func (r record) String() string {
	k := "WOUND"
	if r.Kind == pwr.WoundKind_CLOSED_FILE {
		k = "healthy"
	} else if r.Kind != pwr.WoundKind_FILE {
		k = r.Kind.String()
	}
	return fmt.Sprintf("%s[%d,%d)", k, r.Start, r.End)
}

type observation struct {
	failedOp       int // index of the first failing op; len(slices) = Close; -1 = none
	failErr        error
	shortWrite     string // a successful Write that did not report len(slice)
	innerAtFail    []byte // inner pool content right after the failing op
	closeErr       error
	inner          []byte // inner pool content after Close
	records        []record
	panicked, hung string
}

func drive(fx *fixture, c Case, sl [][]byte) (obs observation) {
	obs.failedOp = -1
	inner := mempool.New([][]byte{nil, nil, nil})
	vp := &pwr.ValidatingPool{Pool: inner, Container: fx.container, Signature: fx.sig}
	var stop, drained chan struct{}
	if c.Mode != "error" {
		vp.Wounds = make(chan *pwr.Wound)
		if c.Mode == "wound-aggregate" {
			vp.WoundsFilter = func(w chan *pwr.Wound) chan *pwr.Wound { return pwr.AggregateWounds(w, pwr.MaxWoundSize) }
		}
		stop, drained = make(chan struct{}), make(chan struct{})
		go func() { // the consumer that drains the Wounds channel
			defer close(drained)
			for {
				select {
				case w := <-vp.Wounds:
					obs.records = append(obs.records, record{w.Index, w.Start, w.End, w.Kind})
				case <-stop:
					return
				}
			}
		}()
	}
	content := func() []byte {
		if b := inner.Written[fileIndex]; b != nil {
			return append([]byte{}, b.Bytes()...)
		}
		return nil
	}
	w, err := vp.GetWriter(fileIndex)
	if err != nil {
		obs.failedOp, obs.failErr = -2, err
		return
	}
	for k, s := range sl {
		n, err := w.Write(s)
		if err != nil {
			obs.failedOp, obs.failErr = k, err
			obs.innerAtFail = content()
			break
		}
		if n != len(s) && obs.shortWrite == "" {
			obs.shortWrite = fmt.Sprintf("Write %d of %d bytes returned %d, nil", k, len(s), n)
		}
	}
	obs.closeErr = w.Close()
	if obs.failedOp == -1 && obs.closeErr != nil {
		obs.failedOp, obs.failErr = len(sl), obs.closeErr
	}
	obs.inner = content()
	if obs.failedOp == len(sl) {
		obs.innerAtFail = obs.inner
	}
	if stop != nil {
		// everything emitted for this file has been relayed once Close has returned
		close(stop)
		<-drained
	}
	return
}

func driveWatched(fx *fixture, c Case, sl [][]byte) observation {
	ch := make(chan observation, 1)
	go func() {
		var obs observation
		defer func() {
			if e := recover(); e != nil {
				obs.panicked = fmt.Sprintf("%v @ %s", e, runner.PanicSite(string(debug.Stack())))
			}
			ch <- obs
		}()
		obs = drive(fx, c, sl)
	}()
	watchdog := time.NewTimer(hangTimeout)
	defer watchdog.Stop()
	select {
	case o := <-ch:
		return o
	case <-watchdog.C:
		return observation{hung: fmt.Sprintf("no result within %v", hangTimeout)}
	}
}

// ---------------------------------------------------------------------------
// expectations (reference: direct comparison of bytes, block by block)

type expectation struct {
	nbw, nbs int
	bad      []bool // per written block: differs from the signed block at that position, or lies beyond
	firstBad int    // -1 none
	failOp   int    // op that completes the first bad block (len(slices) = Close); -1 none
	straddle bool   // some boundary between two writes is not block-aligned
}

func expectations(signed, w []byte, sl [][]byte) expectation {
	e := expectation{nbw: numBlocks(len(w)), nbs: numBlocks(len(signed)), firstBad: -1, failOp: -1}
	for j := 0; j < e.nbw; j++ {
		bad := j >= e.nbs || !bytes.Equal(blockOf(w, j), blockOf(signed, j))
		e.bad = append(e.bad, bad)
		if bad && e.firstBad < 0 {
			e.firstBad = j
		}
	}
	cum := 0
	for k, s := range sl {
		cum += len(s)
		if cum%B != 0 && k < len(sl)-1 {
			e.straddle = true // a write boundary inside a block
		}
		if e.firstBad >= 0 && e.failOp < 0 && cum >= (e.firstBad+1)*B {
			e.failOp = k
		}
	}
	if e.firstBad >= 0 && e.failOp < 0 {
		e.failOp = len(sl) // the short last block is completed by Close
	}
	return e
}

func opName(k, n int) string {
	switch {
	case k == -1:
		return "nothing"
	case k == -2:
		return "GetWriter"
	case k == n:
		return "Close"
	}
	return fmt.Sprintf("Write#%d", k)
}

// badKind names the class of the first bad block (for fingerprints / outcomes).
func badKind(c Case, e expectation) string {
	j := e.firstBad
	if j < 0 {
		return "none"
	}
	if j >= e.nbs {
		return "surplus"
	}
	lw, ls := c.Len-j*B, c.Size-j*B
	if lw > B {
		lw = B
	}
	if ls > B {
		ls = B
	}
	switch {
	case lw < ls:
		return "truncated"
	case lw > ls:
		return "overlong-tail"
	case j < len(c.Alt) && c.Alt[j] == 'n':
		return "equals-next-signed-block"
	}
	return "altered"
}

func recs(rs []record) string {
	var s []string
	for _, r := range rs {
		s = append(s, r.String())
	}
	return "[" + strings.Join(s, " ") + "]"
}

var schedSubs func(w *runner.W)

func body(w *runner.W) {
	if schedSubs != nil && w.Variant == "sched" {
		schedSubs(w)
		return
	}
	fixtures := map[string]*fixture{}
	signedOf := map[string][]byte{}
	run := func(c Case, r *runner.Rec) {
		key := fmt.Sprintf("%s/%d", c.Signed, c.Size)
		fx := fixtures[key]
		if fx == nil {
			if c.Signed != "" {
				signedOf[key] = wh.Content(c.Signed, w.Seed)
			} else {
				signedOf[key] = signedContent(c.Size, w.Seed)
			}
			fx = newFixture(signedOf[key], w.Seed)
			fixtures[key] = fx
		}
		signed := signedOf[key]
		wr := written(c, signed, w.Seed)
		sl := slices(c, wr)
		e := expectations(signed, wr, sl)
		if e.firstBad >= 0 && e.straddle {
			r.Nontrivial()
		}
		r.Trans(len(sl) + 1)
		obs := driveWatched(fx, c, sl)
		bk := badKind(c, e)
		if obs.hung != "" {
			r.Outcome("hang")
			r.Failf("hang", "%s", obs.hung)
			return
		}
		if obs.panicked != "" {
			r.Outcome("panic")
			r.Failf("panic:"+obs.panicked[strings.LastIndex(obs.panicked, "@ ")+2:], "%s", obs.panicked)
			return
		}
		if obs.failedOp == -2 {
			r.Failf("getwriter-error", "%v", obs.failErr)
			return
		}
		n := len(sl)
		if c.Mode == "error" {
			at := "nothing"
			if e.failOp == n {
				at = "close"
			} else if e.failOp >= 0 {
				at = "write"
			}
			r.Outcome(fmt.Sprintf("error-mode %s must-fail-at=%s", bk, at))
			checkErrorMode(c, r, e, obs, wr, n, bk)
			return
		}
		r.Outcome(fmt.Sprintf("%s %s records=%d", c.Mode, bk, len(obs.records)))
		checkWoundMode(c, r, e, obs, signed, wr, n, bk)
	}

	// the pool bowl writing into a validating pool (error mode): a whole-file copy
	// (Transpose) and an entry writer fed in 32 KiB pieces must be refused exactly when the
	// content is not the signed one — also when only the trailing partial block differs,
	// whose verdict comes with Close
	pb := runner.NewSub(w, "pool-bowl", func(c Case, r *runner.Rec) {
		key := fmt.Sprintf("%s/%d", c.Signed, c.Size)
		fx := fixtures[key]
		if fx == nil {
			signedOf[key] = signedContent(c.Size, w.Seed)
			fx = newFixture(signedOf[key], w.Seed)
			fixtures[key] = fx
		}
		signed := signedOf[key]
		wr := written(c, signed, w.Seed)
		// what the statement demands: a failure iff some written block differs from the signed
		// block at its position or lies beyond the signed blocks (a block-aligned prefix of the
		// signed content — including nothing at all — passes)
		e := expectations(signed, wr, [][]byte{wr})
		mustFail := e.firstBad >= 0
		same := bytes.Equal(wr, signed)
		if mustFail {
			r.Nontrivial()
		}
		r.Outcome(fmt.Sprintf("%s same=%v must-fail=%v", c.Mode, same, mustFail))
		target := &tlc.Container{}
		for i, f := range fx.container.Files {
			size := f.Size
			if i == fileIndex {
				size = int64(len(wr))
			}
			target.Files = append(target.Files, &tlc.File{Path: f.Path, Mode: f.Mode, Size: size})
		}
		inner := mempool.New([][]byte{nil, nil, nil})
		vp := &pwr.ValidatingPool{Pool: inner, Container: fx.container, Signature: fx.sig}
		bw, err := bowl.NewPoolBowl(bowl.PoolBowlParams{TargetContainer: target, SourceContainer: fx.container,
			TargetPool: mempool.New([][]byte{nil, nil, wr}), OutputPool: vp})
		if err != nil {
			panic(err)
		}
		var opErr error
		switch c.Mode {
		case "transpose":
			opErr = bw.Transpose(bowl.Transposition{TargetIndex: fileIndex, SourceIndex: fileIndex})
		case "entry-writer":
			ew, err := bw.GetWriter(fileIndex)
			if err != nil {
				r.Failf("pool-bowl:getwriter-error", "%v", err)
				return
			}
			if _, err := ew.Resume(nil); err != nil {
				r.Failf("pool-bowl:resume-error", "%v", err)
				return
			}
			for off := 0; off < len(wr) && opErr == nil; off += 32 * 1024 {
				end := off + 32*1024
				if end > len(wr) {
					end = len(wr)
				}
				_, opErr = ew.Write(wr[off:end])
			}
			if opErr == nil {
				opErr = ew.Finalize()
			}
			if cErr := ew.Close(); opErr == nil {
				opErr = cErr
			}
		}
		var got []byte
		if b := inner.Written[fileIndex]; b != nil {
			got = b.Bytes()
		}
		switch {
		case same && opErr != nil:
			r.Failf("pool-bowl:signed-content-refused:"+c.Mode, "%v", opErr)
		case same && !bytes.Equal(got, signed):
			r.Failf("pool-bowl:inner-differs:"+c.Mode, "the inner pool holds %d bytes, signed %d", len(got), len(signed))
		case mustFail && opErr == nil:
			r.Failf("pool-bowl:bad-content-accepted:"+c.Mode, "block %d of the written content differs from the signed block (alterations %q, %d of %d bytes) but the copy went through without an error", e.firstBad, c.Alt, len(wr), len(signed))
		case !mustFail && opErr != nil:
			r.Failf("pool-bowl:prefix-refused:"+c.Mode, "a block-aligned prefix of the signed content (%d of %d bytes) was refused: %v", len(wr), len(signed), opErr)
		case !mustFail && !bytes.Equal(got, wr):
			r.Failf("pool-bowl:inner-differs:"+c.Mode, "the inner pool holds %d bytes, written %d", len(got), len(wr))
		case !mustFail && (inner.Written[fileIndex] == nil || !inner.Closed[fileIndex]):
			// also an empty file has to reach the underlying pool: created (or truncated) and closed
			r.Failf("pool-bowl:file-never-reached-the-pool:"+c.Mode, "%d bytes accepted, but the underlying pool was never asked for a writer for the file (or it was not closed)", len(wr))
		}
	})
	if pb.Active() {
		for _, size := range []int{0, 1, 700, B - 1, B, B + 1, 2 * B, 2*B + 5000} {
			for _, cw := range contents(size, true) {
				for _, mode := range []string{"transpose", "entry-writer"} {
					c := cw
					c.Mode = mode
					pb.Do(c)
				}
			}
		}
		pb.Done()
	}

	// two writers of one validating pool open at the same time, fed in turns with pieces
	// smaller than a block (a writable pool allows several writers at once): signed content
	// must pass unchanged through both, in error mode and in wound mode
	tw := runner.NewSub(w, "two-writers", func(c Case, r *runner.Rec) {
		key := fmt.Sprintf("/%d", c.Size)
		fx := fixtures[key]
		if fx == nil {
			signedOf[key] = signedContent(c.Size, w.Seed)
			fx = newFixture(signedOf[key], w.Seed)
			fixtures[key] = fx
		}
		contents := [2][]byte{wh.Content(fmt.Sprintf("r19/%d", padSize), w.Seed), signedOf[key]}
		steps := [2]int{c.Cuts[0], c.Cuts[1]}
		inner := mempool.New([][]byte{nil, nil, nil})
		vp := &pwr.ValidatingPool{Pool: inner, Container: fx.container, Signature: fx.sig}
		wounds := 0
		var drained chan struct{}
		if c.Mode == "wound" {
			vp.Wounds = make(chan *pwr.Wound)
			drained = make(chan struct{})
			go func() {
				defer close(drained)
				for wd := range vp.Wounds {
					if wd.Kind == pwr.WoundKind_FILE {
						wounds++
					}
				}
			}()
		}
		r.Nontrivial()
		r.Outcome(c.Mode)
		var ws [2]io.WriteCloser
		for i := range ws {
			var err error
			if ws[i], err = vp.GetWriter(int64(1 + i)); err != nil {
				r.Failf("two-writers:getwriter-error", "%v", err)
				return
			}
		}
		seq := strings.HasSuffix(c.Signed, "seq") // one file after the other instead of in turns
		var off [2]int
		for off[0] < len(contents[0]) || off[1] < len(contents[1]) {
			for i := range ws {
				if off[i] >= len(contents[i]) {
					continue
				}
				if seq && i == 1 && off[0] < len(contents[0]) {
					continue
				}
				// an empty write in front of every real one (legal, must change nothing)
				if n, err := ws[i].Write(nil); err != nil || n != 0 {
					r.Failf("two-writers:empty-write:"+c.Mode, "file %d: Write(nil) = %d, %v", 1+i, n, err)
					return
				}
				end := off[i] + steps[i]
				if end > len(contents[i]) {
					end = len(contents[i])
				}
				if _, err := ws[i].Write(contents[i][off[i]:end]); err != nil {
					r.Failf("two-writers:signed-content-refused:"+c.Mode, "file %d, bytes [%d,%d) written in turns of %d/%d bytes: %v", 1+i, off[i], end, steps[0], steps[1], err)
					return
				}
				off[i] = end
			}
		}
		for i := range ws {
			if err := ws[i].Close(); err != nil {
				r.Failf("two-writers:signed-content-refused:"+c.Mode, "Close of file %d: %v", 1+i, err)
				return
			}
		}
		if drained != nil {
			close(vp.Wounds)
			<-drained
			if wounds > 0 {
				r.Failf("two-writers:wounds-for-signed-content", "%d wounds for two files that hold exactly the signed content (turns of %d/%d bytes)", wounds, steps[0], steps[1])
			}
		}
		for i := range ws {
			var got []byte
			if b := inner.Written[int64(1+i)]; b != nil {
				got = b.Bytes()
			}
			if !bytes.Equal(got, contents[i]) {
				r.Failf("two-writers:inner-differs:"+c.Mode, "file %d: the inner pool holds %d bytes that differ from the %d written", 1+i, len(got), len(contents[i]))
			}
		}
	})
	if tw.Active() {
		for _, size := range []int{1, 700, B - 1, B, B + 1, 2*B + 5000} {
			for _, st := range [][]int{{1000, 777}, {1, 1}, {32768, 32768}, {B, 1}, {777, B + 1}} {
				if st[0] == 1 && size > B+1 {
					continue // byte-by-byte only for the smaller sizes
				}
				for _, mode := range []string{"error", "wound"} {
					tw.Do(Case{Size: size, Len: size, Cuts: st, Mode: mode})
					tw.Do(Case{Signed: "seq", Size: size, Len: size, Cuts: st, Mode: mode})
				}
			}
		}
		tw.Done()
	}

	for _, mode := range []string{"error", "wound", "wound-aggregate"} {
		opts := []runner.Opt{}
		if mode != "error" {
			opts = append(opts, runner.Journal()) // wharf starts goroutines here
		}
		sub := runner.NewSub(w, map[string]string{"error": "error", "wound": "wound", "wound-aggregate": "wound-agg"}[mode], run, opts...)
		if !sub.Active() {
			continue
		}
		sizes := []int{0, 1, B - 1, B, B + 1, 2 * B, 2*B + 1}
		if !w.Quick() {
			sizes = append(sizes, 3*B)
		}
		nContents := 0
		for _, size := range sizes {
			for _, cw := range contents(size, !w.Quick()) {
				nContents++
				for _, sc := range slicings(cw.Len, w.Quick()) {
					c := cw
					c.Cuts, c.Uniform, c.Mode = sc.Cuts, sc.Uniform, mode
					sub.Do(c)
				}
			}
		}
		// structured signed contents: zero blocks and repeated blocks, so that stale or
		// neighbouring buffer content can equal a signed block
		for _, spec := range []string{"Z.Z", "A.A", "A.A.A", "Z.A", "A.Z", "A.A.A/100", "Z.Z.z/100"} {
			size := len(wh.Content(spec, w.Seed))
			nb := numBlocks(size)
			var gen func(j int, cur string)
			gen = func(j int, cur string) {
				if j == nb {
					if strings.Trim(cur, "-") == "" {
						return
					}
					nContents++
					cw := Case{Signed: spec, Size: size, Alt: cur, Len: size}
					for _, sc := range slicings(cw.Len, true) {
						c := cw
						c.Cuts, c.Uniform, c.Mode = sc.Cuts, sc.Uniform, mode
						sub.Do(c)
					}
					return
				}
				letters := "-xz"
				if j > 0 {
					letters += "p"
				}
				if toks := strings.Split(spec, "."); j < len(toks) && toks[j][0] >= 'A' && toks[j][0] <= 'Y' && size-j*B >= 64 {
					// weak twin of a block that the signed content repeats: same rolling
					// checksum and length as its neighbour, other bytes
					letters += "w"
				}
				for _, l := range letters {
					gen(j+1, cur+string(l))
				}
			}
			gen(0, "")
		}
		sub.Note("contents", nContents)
		sub.Done()
	}
}

// contents enumerates (Alt, Len) for a signed size.
func contents(size int, thorough bool) []Case {
	nb := numBlocks(size)
	var out []Case
	// every assignment of alterations to the blocks, same length
	var alts []string
	var gen func(j int, cur string)
	gen = func(j int, cur string) {
		if j == nb {
			alts = append(alts, cur)
			return
		}
		letters := "-fl"
		if (j+2)*B <= size {
			letters += "n"
		}
		if size-j*B >= 64 {
			letters += "w"
		}
		for _, l := range letters {
			gen(j+1, cur+string(l))
		}
	}
	gen(0, "")
	for _, a := range alts {
		out = append(out, Case{Size: size, Alt: a, Len: size})
	}
	clean := strings.Repeat("-", nb)
	var lens []int
	for _, l := range []int{0, 1, B - 1, B, B + 1, 2 * B, size - 1} {
		if l >= 0 && l < size {
			lens = append(lens, l)
		}
	}
	for _, x := range []int{1, B - 1, B, B + 1} {
		lens = append(lens, size+x)
	}
	sort.Ints(lens)
	for i, l := range lens {
		if i > 0 && l == lens[i-1] {
			continue
		}
		out = append(out, Case{Size: size, Alt: clean, Len: l})
		if thorough {
			// one altered block combined with the length change
			for j := 0; j < nb; j++ {
				for _, k := range "fl" {
					if k == 'l' && (j+1)*B > l && l < size {
						// the last byte of the block is cut off: inverting it changes nothing
						continue
					}
					if j*B >= l {
						continue
					}
					a := []byte(clean)
					a[j] = byte(k)
					out = append(out, Case{Size: size, Alt: string(a), Len: l})
				}
			}
		}
	}
	return out
}

type slicing struct {
	Cuts    []int
	Uniform int
}

func slicings(n int, quick bool) []slicing {
	var pos []int
	for _, p := range []int{1, B - 1, B, B + 1, 2*B - 1, 2 * B, n - 1} {
		if p > 0 && p < n {
			pos = append(pos, p)
		}
	}
	sort.Ints(pos)
	var u []int
	for i, p := range pos {
		if i == 0 || p != pos[i-1] {
			u = append(u, p)
		}
	}
	pos = u
	out := []slicing{{}} // single write
	for i := range pos {
		out = append(out, slicing{Cuts: []int{pos[i]}})
		for j := i + 1; j < len(pos); j++ {
			out = append(out, slicing{Cuts: []int{pos[i], pos[j]}})
			for k := j + 1; k < len(pos); k++ {
				out = append(out, slicing{Cuts: []int{pos[i], pos[j], pos[k]}})
			}
		}
	}
	for _, us := range []int{1, 4096, 32768, B + 1} {
		if us < n {
			out = append(out, slicing{Uniform: us})
		}
	}
	return out
}

// ---------------------------------------------------------------------------
// oracles

func checkErrorMode(c Case, r *runner.Rec, e expectation, obs observation, wr []byte, n int, bk string) {
	if obs.shortWrite != "" {
		r.Failf("err:short-write-without-error", "%s", obs.shortWrite)
	}
	if e.firstBad < 0 {
		// equal to the signed content or to a block-aligned prefix of it: passes through unchanged
		if obs.failedOp != -1 {
			r.Failf("err:valid-data-rejected:"+bk, "%s failed although every written block equals the signed block: %v", opName(obs.failedOp, n), obs.failErr)
			return
		}
		if !bytes.Equal(obs.inner, wr) {
			r.Failf("err:passthrough-corrupted", "inner pool holds %d bytes (first difference at %d), %d were written", len(obs.inner), firstDiff(obs.inner, wr), len(wr))
		}
		return
	}
	want := wr[:e.firstBad*B]
	if obs.failedOp == -1 {
		r.Failf("err:bad-block-accepted:"+bk, "block %d differs from the signed block (or is surplus), but no Write and not Close failed; inner pool holds %d bytes", e.firstBad, len(obs.inner))
		return
	}
	if obs.failedOp != e.failOp {
		r.Failf("err:wrong-op-failed:"+bk, "block %d is the first bad block and is completed by %s, but %s failed (%v)", e.firstBad, opName(e.failOp, n), opName(obs.failedOp, n), obs.failErr)
		return
	}
	if !bytes.Equal(obs.innerAtFail, want) {
		r.Failf("err:leak-at-failure:"+bk, "after the failing %s the inner pool holds %d bytes, expected exactly the %d bytes before block %d (first difference at %d)", opName(obs.failedOp, n), len(obs.innerAtFail), len(want), e.firstBad, firstDiff(obs.innerAtFail, want))
		return
	}
	if !bytes.Equal(obs.inner, want) {
		r.Failf("err:leak-on-close-after-failed-write:"+bk, "%s failed correctly (block %d), but the following Close (returned %v) let the inner pool grow from %d to %d bytes", opName(obs.failedOp, n), e.firstBad, obs.closeErr, len(want), len(obs.inner))
	}
}

func checkWoundMode(c Case, r *runner.Rec, e expectation, obs observation, signed, wr []byte, n int, bk string) {
	mode := "wound"
	if c.Mode == "wound-aggregate" {
		mode = "wound-agg"
	}
	if obs.failedOp != -1 {
		r.Failf(mode+":unexpected-error", "%s failed in wound mode: %v", opName(obs.failedOp, n), obs.failErr)
		return
	}
	rs := obs.records
	L := len(wr)
	if len(signed) < L {
		L = len(signed)
	}
	signedEnd := func(j int) int64 {
		end := (j + 1) * B
		if end > len(signed) {
			end = len(signed)
		}
		return int64(end)
	}
	for i, x := range rs {
		if x.Index != fileIndex {
			r.Failf(mode+":wrong-file-index", "record %d %v names file %d, the file written is %d", i, x, x.Index, fileIndex)
			return
		}
		if x.Kind != pwr.WoundKind_FILE && x.Kind != pwr.WoundKind_CLOSED_FILE {
			r.Failf(mode+":wrong-record-kind", "record %d has kind %v", i, x.Kind)
			return
		}
		if i > 0 && x.Start < rs[i-1].Start {
			r.Failf(mode+":out-of-order", "record %d %v comes after %v; all: %s", i, x, rs[i-1], recs(rs))
			return
		}
	}
	// tiling of [0, L)
	var in []record
	for _, x := range rs {
		if x.Start < int64(L) {
			in = append(in, x)
		}
	}
	if L > 0 {
		if len(in) == 0 || in[0].Start != 0 {
			r.Failf(mode+":gap:"+bk, "records do not start at offset 0 although %d bytes were written: %s", len(wr), recs(rs))
			return
		}
		for i := 1; i < len(in); i++ {
			if in[i].Start != in[i-1].End {
				what := "gap"
				if in[i].Start < in[i-1].End {
					what = "overlap"
				}
				r.Failf(mode+":"+what+":"+bk, "%v is followed by %v; all: %s", in[i-1], in[i], recs(rs))
				return
			}
		}
		if in[len(in)-1].End < int64(L) {
			r.Failf(mode+":gap:"+bk, "records end at %d, written range up to the signed length is [0,%d): %s", in[len(in)-1].End, L, recs(rs))
			return
		}
	}
	// marking: every written block inside the signed length lies in a record of the right kind
	for j := 0; j < e.nbw && j*B < L; j++ {
		var hit *record
		for i := range in {
			if in[i].Start <= int64(j*B) && int64(j*B) < in[i].End {
				hit = &in[i]
			}
		}
		if hit == nil {
			r.Failf(mode+":gap:"+bk, "no record covers block %d: %s", j, recs(rs))
			return
		}
		if e.bad[j] && hit.Kind != pwr.WoundKind_FILE {
			r.Failf(mode+":differing-block-marked-healthy:"+bk, "block %d differs from the signed block but lies in %v; all: %s", j, *hit, recs(rs))
			return
		}
		if !e.bad[j] && hit.Kind != pwr.WoundKind_CLOSED_FILE {
			r.Failf(mode+":equal-block-marked-as-wound:"+bk, "block %d equals the signed block but lies in %v; all: %s", j, *hit, recs(rs))
			return
		}
		if hit.Kind == pwr.WoundKind_CLOSED_FILE && (hit.Start != int64(j*B) || hit.End != signedEnd(j)) {
			r.Failf(mode+":healthy-marker-extent:"+bk, "healthy marker %v does not coincide with block %d = [%d,%d)", *hit, j, j*B, signedEnd(j))
			return
		}
	}
	if c.Mode == "wound" {
		// without a filter there is exactly one record per written block, surplus blocks included
		if len(rs) != e.nbw {
			r.Failf(mode+":record-count:"+bk, "%d blocks were written, %d records emitted: %s", e.nbw, len(rs), recs(rs))
			return
		}
		for j, x := range rs {
			if x.Start != int64(j*B) {
				r.Failf(mode+":record-position:"+bk, "record %d %v does not start at block %d", j, x, j)
				return
			}
			if e.bad[j] != (x.Kind == pwr.WoundKind_FILE) {
				r.Failf(mode+":wrong-marking:"+bk, "block %d: differs=%v but record is %v", j, e.bad[j], x)
				return
			}
		}
	}
}

func firstDiff(a, b []byte) int {
	for i := 0; i < len(a) && i < len(b); i++ {
		if a[i] != b[i] {
			return i
		}
	}
	if len(a) < len(b) {
		return len(a)
	}
	if len(b) < len(a) {
		return len(b)
	}
	return -1
}
