// Stand-alone reproduction of the C02 findings against the real wharf packages
// (no verification-harness code, not part of the check binary): diff two tiny
// trees, apply the patch in place with the overlay bowl, print what Commit
// returned and what the directory holds afterwards.
//
//	cd /verif && GOFLAGS=-mod=mod GOPROXY=off go run ./checks/c02/repro
//
// One line per failure class of checks/c02/classify.go, plus controls that pass.
package main

import (
	"bytes"
	"context"
	"fmt"
	"os"
	"path/filepath"
	"sort"
	"strings"

	"github.com/itchio/headway/state"
	"github.com/itchio/lake/pools/fspool"
	"github.com/itchio/lake/tlc"
	"github.com/itchio/savior/seeksource"
	"github.com/itchio/wharf/pwr"
	"github.com/itchio/wharf/pwr/bowl"
	"github.com/itchio/wharf/pwr/patcher"
)

type ent struct{ path, kind, val string } // kind f (val=content) l (val=dest) d

func mk(dir string, es []ent) {
	must(os.MkdirAll(dir, 0o755))
	for _, e := range es {
		p := filepath.Join(dir, e.path)
		must(os.MkdirAll(filepath.Dir(p), 0o755))
		switch e.kind {
		case "f":
			must(os.WriteFile(p, []byte(e.val), 0o644))
		case "l":
			must(os.Symlink(e.val, p))
		case "d":
			must(os.MkdirAll(p, 0o755))
		}
	}
}

func show(dir string) string {
	var out []string
	filepath.Walk(dir, func(p string, info os.FileInfo, err error) error {
		if err != nil {
			out = append(out, fmt.Sprintf("walk error: %v", err))
			return nil
		}
		rel, _ := filepath.Rel(dir, p)
		if rel == "." {
			return nil
		}
		switch {
		case info.Mode()&os.ModeSymlink != 0:
			d, _ := os.Readlink(p)
			out = append(out, fmt.Sprintf("%s -> %s", rel, d))
		case info.IsDir():
			out = append(out, rel+"/")
		default:
			b, _ := os.ReadFile(p)
			out = append(out, fmt.Sprintf("%s = %q", rel, b))
		}
		return nil
	})
	sort.Strings(out)
	return "{" + strings.Join(out, ", ") + "}"
}

func must(err error) {
	if err != nil {
		panic(err)
	}
}

func run(name string, old, new []ent) {
	base, _ := os.MkdirTemp("", "c02repro-")
	defer os.RemoveAll(base)
	oldDir, newDir, stage := filepath.Join(base, "old"), filepath.Join(base, "new"), filepath.Join(base, "stage")
	mk(oldDir, old)
	mk(newDir, new)
	want := show(newDir)
	consumer := &state.Consumer{}
	oldC, err := tlc.WalkAny(oldDir, tlc.WalkOpts{})
	must(err)
	newC, err := tlc.WalkAny(newDir, tlc.WalkOpts{})
	must(err)
	sigs, err := pwr.ComputeSignature(context.Background(), oldC, fspool.New(oldC, oldDir), consumer)
	must(err)
	dctx := &pwr.DiffContext{Compression: &pwr.CompressionSettings{Algorithm: pwr.CompressionAlgorithm_NONE}, Consumer: consumer,
		SourceContainer: newC, Pool: fspool.New(newC, newDir), TargetContainer: oldC, TargetSignature: sigs}
	var patch, sig bytes.Buffer
	must(dctx.WritePatch(context.Background(), &patch, &sig))

	// in place, onto the directory that holds the old build
	p, err := patcher.New(seeksource.FromBytes(patch.Bytes()), consumer)
	must(err)
	b, err := bowl.NewOverlayBowl(bowl.OverlayBowlParams{SourceContainer: p.GetSourceContainer(), TargetContainer: p.GetTargetContainer(),
		StageFolder: stage, OutputFolder: oldDir, Consumer: consumer})
	must(err)
	must(p.Resume(nil, fspool.New(p.GetTargetContainer(), oldDir), b))
	cerr := b.Commit()
	got := show(oldDir)
	verdict := "OK"
	if cerr != nil || got != want {
		verdict = "FAIL"
	}
	es := "nil"
	if cerr != nil {
		es = strings.ReplaceAll(strings.SplitN(cerr.Error(), "\n", 2)[0], base, "")
	}
	fmt.Printf("%-4s %s\n     Commit error: %s\n     want %s\n     got  %s\n", verdict, name, es, want, got)
}

func main() {
	f := func(p, c string) ent { return ent{p, "f", c} }
	l := func(p, d string) ent { return ent{p, "l", d} }
	d := func(p string) ent { return ent{p, "d", ""} }
	P, Q := "PPPPP", "QQQ"

	run("13a symlink->file:copied-from-link-target  (old l->a, a=P; new l=P, a=P)",
		[]ent{f("a", P), l("l", "a")}, []ent{f("a", P), f("l", P)})
	run("    symlink->file:copied-from-other-file    (old l->b, a=P, b=Q; new l=P, a=P, b=Q)",
		[]ent{f("a", P), f("b", Q), l("l", "b")}, []ent{f("a", P), f("b", Q), f("l", P)})
	run("    symlink->file:copied-from-other-file    (old l->nowhere, a=P; new l=P, a=P): dangling link",
		[]ent{f("a", P), l("l", "nowhere")}, []ent{f("a", P), f("l", P)})
	run("    control: symlink->file by rename        (old l->a, a=P; new l=P)",
		[]ent{f("a", P), l("l", "a")}, []ent{f("l", P)})
	run("13b file->symlink:old-file-is-rename-source (old s=P; new s->t, t=P)",
		[]ent{f("s", P)}, []ent{l("s", "t"), f("t", P)})
	run("    file->symlink:old-file-is-rename-source (old s=P; new s->elsewhere, t=P)",
		[]ent{f("s", P)}, []ent{l("s", "elsewhere"), f("t", P)})
	run("    control: file->symlink, old file unused  (old s=P; new s->t, t=Q)",
		[]ent{f("s", P)}, []ent{l("s", "t"), f("t", Q)})
	run("13c dir->file:nonempty-dir                   (old a/c=P; new a=Q)",
		[]ent{f("a/c", P)}, []ent{f("a", Q)})
	run("    dir->file:nonempty-dir, renamed child    (old a/c=P, b=Q; new a=Q, b=P) [depends on map order]",
		[]ent{f("a/c", P), f("b", Q)}, []ent{f("a", Q), f("b", P)})
	run("    dir->file:empty-dir:copy-dest            (old a/, b=P; new a=P, b=P)",
		[]ent{d("a"), f("b", P)}, []ent{f("a", P), f("b", P)})
	run("    control: empty dir->fresh file           (old a/; new a=Q)",
		[]ent{d("a")}, []ent{f("a", Q)})
	run("13c file->dir:old-file-renamed-into-it       (old a=P; new a/c=P)",
		[]ent{f("a", P)}, []ent{f("a/c", P)})
	run("    file->dir:old-file-renamed-elsewhere     (old a=P; new a/, b=P)",
		[]ent{f("a", P)}, []ent{d("a"), f("b", P)})
	run("    control: file->dir, old file unused      (old a=P; new a/c=Q)",
		[]ent{f("a", P)}, []ent{f("a/c", Q)})
	run("    dir->symlink:old-child-is-rename-source  (old a/c=P; new a->b, b=P)",
		[]ent{f("a/c", P)}, []ent{l("a", "b"), f("b", P)})
	run("    dir->symlink:old-child-deleted-through-new-link (old a/c=P, b/c=Q; new a/c=P, b->a)",
		[]ent{f("a/c", P), f("b/c", Q)}, []ent{f("a/c", P), l("b", "a")})
	run("    control: dir->symlink, nothing behind     (old a/c=P, b/c=Q; new a/c=P, b->x)",
		[]ent{f("a/c", P), f("b/c", Q)}, []ent{f("a/c", P), l("b", "x")})
}
