//go:build vsched

package main

import (
	"github.com/itchio/wharf/zzverif/vsched"

	"verif/lib/runner"
)

// In the instrumented build every `for k, v := range someMap` of pwr/bowl asks
// vsched.MapKeys for the key order: sorted by default, every permutation under
// exploration (cost 0 = all of them). The commit phase is single-threaded, so
// the exploration tree is exactly the product of the orders of its map loops.
func init() {
	schedExplore = func(w *runner.W, c Case, runOne func() runResult, judge func(res runResult, orders []int) bool) (int, string) {
		var res runResult
		body := func() { res = runOne() }
		opts := vsched.Options{PreemptionBound: -1, StepBudget: 100000, NoCache: true, MapOrderCost: 0, MaxExecutions: 5000}
		if c.Orders != nil {
			vsched.RunOnce(opts, c.Orders, body)
			judge(res, c.Orders)
			return 1, ""
		}
		opts.Deadline = w.Deadline()
		st := vsched.Explore(opts, body, func(out vsched.Result) bool {
			if out.Kind != "done" {
				res.fails = append(res.fails, fail1{kind: "commit-error", msg: "execution ended with " + out.Kind + ": " + out.Detail})
			}
			return judge(res, out.Choices)
		})
		return st.Executions, st.HarnessError
	}
}
