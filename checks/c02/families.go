package main

import (
	"encoding/binary"
	"os"
	"path/filepath"

	"github.com/golang/protobuf/proto"
	"github.com/itchio/wharf/pwr/overlay"

	"verif/lib/wh"
)

// Unrelated small contents of three different sizes (so that an overlay onto a
// longer or shorter file needs the final truncation, and no block of one is a
// block of another).
const (
	contP = "=PPPPP"
	contQ = "=QQQ"
	contR = "=RRRRRRR"
)

// p1Trees: names {a,b,c}, per-name state in {absent, file P, file Q, file R}
// (both tiers: the family is cheap).
func p1Trees() []wh.Build {
	names := []string{"a", "b", "c"}
	states := []string{"", contP, contQ, contR}
	var out []wh.Build
	idx := make([]int, len(names))
	for {
		var b wh.Build
		for i, n := range names {
			if s := states[idx[i]]; s != "" {
				b = append(b, wh.F(n, s))
			}
		}
		out = append(out, b)
		i := 0
		for ; i < len(names); i++ {
			idx[i]++
			if idx[i] < len(states) {
				break
			}
			idx[i] = 0
		}
		if i == len(names) {
			break
		}
	}
	return out
}

// p2Trees: names {a,b}, per-name state in {absent, file P, file Q, symlink->a,
// symlink->b, dir{}, dir{c:P}, dir{c:Q}, dir{c/d:P}}.
func p2Trees() []wh.Build {
	names := []string{"a", "b"}
	const nStates = 9
	entry := func(name string, st int) []wh.Entry {
		switch st {
		case 1:
			return []wh.Entry{wh.F(name, contP)}
		case 2:
			return []wh.Entry{wh.F(name, contQ)}
		case 3:
			return []wh.Entry{wh.L(name, "a")}
		case 4:
			return []wh.Entry{wh.L(name, "b")}
		case 5:
			return []wh.Entry{wh.D(name)}
		case 6:
			return []wh.Entry{wh.F(name+"/c", contP)}
		case 7:
			return []wh.Entry{wh.F(name+"/c", contQ)}
		case 8:
			// two levels deep: what the directory holds is not its direct child
			return []wh.Entry{wh.F(name+"/c/d", contP)}
		}
		return nil
	}
	var out []wh.Build
	for sa := 0; sa < nStates; sa++ {
		for sb := 0; sb < nStates; sb++ {
			var b wh.Build
			b = append(b, entry(names[0], sa)...)
			b = append(b, entry(names[1], sb)...)
			out = append(out, b)
		}
	}
	return out
}

// p4Trees: three names {a,b,e}, per-name state in {absent, file P, symlink->a,
// dir{}, dir{c:P}, dir{c/d:P}} — one content only, so that every file of the new
// build whose content exists in the old build is a rename/duplicate of it, and
// kind changes, renames into/out of/through directories that change kind and
// chains over three names meet (216 trees).
func p4Trees() []wh.Build {
	names := []string{"a", "b", "e"}
	const nStates = 6
	entry := func(name string, st int) []wh.Entry {
		switch st {
		case 1:
			return []wh.Entry{wh.F(name, contP)}
		case 2:
			return []wh.Entry{wh.L(name, "a")}
		case 3:
			return []wh.Entry{wh.D(name)}
		case 4:
			return []wh.Entry{wh.F(name+"/c", contP)}
		case 5:
			return []wh.Entry{wh.F(name+"/c/d", contP)}
		}
		return nil
	}
	var out []wh.Build
	for sa := 0; sa < nStates; sa++ {
		for sb := 0; sb < nStates; sb++ {
			for se := 0; se < nStates; se++ {
				var b wh.Build
				b = append(b, entry(names[0], sa)...)
				b = append(b, entry(names[1], sb)...)
				b = append(b, entry(names[2], se)...)
				out = append(out, b)
			}
		}
	}
	return out
}

// f1Contents / f1Builds: the block-level family F1 of C01 (same definition).
func f1Contents() []string {
	syms := []string{"", "A", "B", "A.A", "A.B", "B.A", "B.B"}
	tails := []string{"", "C/1", "C/65535", "A/65535"}
	var out []string
	for _, s := range syms {
		for _, t := range tails {
			c := s
			if t != "" {
				if c != "" {
					c += "."
				}
				c += t
			}
			out = append(out, c)
		}
	}
	return out
}

func f1Builds(contents []string) []wh.Build {
	var out []wh.Build
	opts := append([]string{"<absent>"}, contents...)
	for _, a := range opts {
		for _, b := range opts {
			var bd wh.Build
			if a != "<absent>" {
				bd = append(bd, wh.F("a", a))
			}
			if b != "<absent>" {
				bd = append(bd, wh.F("d/b", b))
			}
			out = append(out, bd)
		}
	}
	return out
}

// stageHasSkip decodes the staged overlay streams with independent framing
// (int32 LE magic, uvarint length + protobuf body) and reports whether one of
// them contains a SKIP op followed or preceded by FRESH data, i.e. an overlay
// that really patches inside an existing file.
func stageHasSkip(stage string) bool {
	found := false
	filepath.Walk(stage, func(p string, info os.FileInfo, err error) error {
		if err != nil || info.IsDir() || found {
			return nil
		}
		b, err := os.ReadFile(p)
		if err != nil || len(b) < 4 {
			return nil
		}
		if int32(binary.LittleEndian.Uint32(b)) != overlay.OverlayMagic {
			return nil
		}
		off := 4
		first := true
		skip, fresh := false, false
		for off < len(b) {
			l, n := binary.Uvarint(b[off:])
			if n <= 0 || uint64(len(b)-off-n) < l {
				return nil
			}
			msg := b[off+n : off+n+int(l)]
			off += n + int(l)
			if first { // OverlayHeader
				first = false
				continue
			}
			op := &overlay.OverlayOp{}
			if proto.Unmarshal(msg, op) != nil {
				return nil
			}
			switch op.Type {
			case overlay.OverlayOp_SKIP:
				if op.Len > 0 {
					skip = true
				}
			case overlay.OverlayOp_FRESH:
				if len(op.Data) > 0 {
					fresh = true
				}
			}
		}
		if skip && fresh {
			found = true
		}
		return nil
	})
	return found
}
