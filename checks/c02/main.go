// C02 — applying a patch in place (overlay bowl: stage into a side folder, then
// commit onto the directory that holds the old build) leaves that directory
// identical to the new build, and does not touch it before Commit starts.
//
// Bounded exhaustive enumeration of ordered tree pairs (families P1, P2, P3 of
// DESIGN "### C02"), each pair run through the real DiffContext.WritePatch ->
// patcher -> overlay bowl, compared with the independent Lstat tree oracle.
package main

import (
	"encoding/json"
	"fmt"
	"os"
	"path/filepath"
	"strings"
	"time"

	"github.com/itchio/wharf/pwr"

	"verif/lib/runner"
	"verif/lib/wh"
)

// Case is one ordered pair of builds plus the way the patch is produced.
type Case struct {
	Fam   string   `json:"fam"`   // P1 | P2 | P3
	Old   wh.Build `json:"old"`   // the build the directory holds
	New   wh.Build `json:"new"`   // the build the patch leads to
	Patch string   `json:"patch"` // plain | rediff-0 | rediff-2 (optimized, partitions 0 / 2)
	// Orders (variant sched only): the map-iteration choices of one execution (replay)
	Orders []int `json:"orders,omitempty"`
}

// schedExplore (set by sched.go in the instrumented build) enumerates every
// iteration order of the maps the commit phase ranges over.
var schedExplore func(w *runner.W, c Case, runOne func() runResult, judge func(res runResult, orders []int) bool) (executions int, harnessErr string)

// extraRuns is how many additional times a case with >= 2 transpositions or
// >= 2 overlay files is re-run, so that different iteration orders of the maps
// in (*overlayBowl).applyTranspositions are likely to be hit. See mapOrders.
const extraRuns = 3

// mapOrder names one order in which the commit phase visits its internal maps.
// Today it is only a repetition counter (Go randomises the order by itself).
type mapOrder struct {
	Rep int
}

// mapOrders lists the commit-phase map-iteration orders to run for a case with
// the given number of transpositions and overlay files.
//
// TODO(map-order): the iteration order of the two `range transpositions` loops
// in /repo/pwr/bowl/bowl_overlay.go:applyTranspositions cannot be chosen from
// outside without the scheduler/map-order instrumentation (vinstr/vsched
// variant binary) that is being built separately. Once it exists this function
// must return every key permutation (<= 3 keys: all of them for both loops;
// beyond that deviation bound 2, see DESIGN "### C02") and runOnce must
// install the permutation before Commit. Until then the dimension is NOT
// enumerated: cases that can depend on it are simply repeated extraRuns more
// times under Go's own random map order.
func mapOrders(transpositions, overlays int) []mapOrder {
	orders := []mapOrder{{Rep: 0}}
	if transpositions >= 2 || overlays >= 2 {
		for i := 1; i <= extraRuns; i++ {
			orders = append(orders, mapOrder{Rep: i})
		}
	}
	return orders
}

func main() {
	runner.Main(runner.Config{
		ID:    "C02",
		Level: "model_checking",
		Rule: "bounded exhaustive enumeration of ordered tree pairs: P1 all pairs of trees over names {a,b,c} with per-name state in {absent, file P, file Q, file R} (64 trees, 4096 pairs; P,Q,R unrelated contents of 3 different sizes); " +
			"P2 all pairs of trees over names {a,b} with per-name state in {absent, file P, file Q, symlink->a, symlink->b, dir{}, dir{c:P}, dir{c:Q}, dir{c/d:P}} (81 trees, 6561 pairs); " +
			"P3 the stride slice of C01's block-level family F1 (<=2 files on {a,d/b}, contents = <=2 symbols over 64KiB blocks {A,B} + tail in {none,1,B-1,B-1-prefix-of-A}), each pair with the plain patch and with the optimized patch (rediff, partitions 0 and 2). " +
			"Each case: real WritePatch -> patcher + overlay bowl onto a copy of the old build with the stage folder outside it; snapshot right before Commit must equal the old build (and nothing may have been rewritten), Commit must return nil, snapshot after Commit must equal the new build (independent Lstat tree oracle, nothing extra). " +
			"Variant xdev (binary built with move()'s rename replaced by the error of a rename across file systems, so that every move falls back to copy + remove) repeats P1, P2 and P4. " +
			"Quick and thorough differ only in the stride of the P3 slice (3533 -> 201 pairs, 353 -> 2004 pairs). " +
			"Non-trivial = the commit has >= 2 transpositions, or a transposition that needs a clash rename (.butler-rename), or a transposition whose source also has a pending overlay, or an overlay with a SKIP run (P3), or a kind change of a path (P2).",
		Assumptions: []string{
			"the iteration orders of the Go maps ranged over by the commit phase are enumerated exhaustively by sub-check map-orders (variant sched: pwr/bowl rebuilt with range-over-map rewritten to an explored key order) for every P1 pair (thorough: P2 too) with >= 2 transposition groups or overlays; the plain sub-checks additionally re-run such cases 3 times under Go's random order",
			"block contents are seeded pseudo-random (VERIF_SEED); byte values outside the block alphabet are not enumerated",
			"file modes, inodes and timestamps of the final tree are not compared; the pre-commit comparison additionally requires that no entry was rewritten (inode/mtime unchanged)",
			"patches are written uncompressed (compression is C01/C13's dimension)",
			"a failure or panic of the optimizer itself (rediff/bsdiff) is not judged here (C07/C12): the case is recorded with outcome rediff-failed and skipped",
			"case-insensitive file systems (fixExistingCase) are not exercised",
		},
		Variants:       []string{"sched", "xdev"},
		QuickBudget:    120 * time.Second,
		ThoroughBudget: 12 * time.Minute,
	}, body)
}

// ---------------------------------------------------------------------------

type dirCache struct {
	root string
	seed int64
	m    map[string]string
	snap map[string]map[string]wh.Snap
	n    int
}

func key(b wh.Build) string {
	var sb strings.Builder
	for _, e := range b {
		fmt.Fprintf(&sb, "%s|%s|%s|%s;", e.Path, e.Kind, e.Content, e.Dest)
	}
	return sb.String()
}

func (c *dirCache) dir(b wh.Build) (string, map[string]wh.Snap) {
	k := key(b)
	if d, ok := c.m[k]; ok {
		return d, c.snap[k]
	}
	if len(c.m) >= 160 { // bound the tmpfs footprint (P3 builds are up to ~400KiB)
		for k2, d := range c.m {
			os.RemoveAll(d)
			delete(c.m, k2)
			delete(c.snap, k2)
		}
	}
	c.n++
	d := filepath.Join(c.root, fmt.Sprintf("b%d", c.n))
	if err := b.Materialize(d, c.seed); err != nil {
		panic(err)
	}
	s, err := wh.Snapshot(d)
	if err != nil {
		panic(err)
	}
	c.m[k] = d
	c.snap[k] = s
	return d, s
}

// patchFacts is what the independent decoder says the commit will have to do.
type patchFacts struct {
	transpositions int  // series that are one whole-file BLOCK_RANGE (incl. no-ops)
	renames        int  // transpositions whose old path differs from the new path
	overlays       int  // other series whose path is a file of the old build
	moves          int  // other series whose path is not a file of the old build
	clash          bool // a rename lands on a path that is itself the source of a transposition
	copyOverlay    bool // a rename whose source path has a pending overlay
	bsdiff         int  // bsdiff series
	ops            int
}

func numBlocks(size int64) int64 { return (size + wh.B - 1) / wh.B }

// wholeFile reports whether series i is what the patcher treats as a
// transposition (patcher_rsync.go:isFullFileOp applied to the first op): one
// BLOCK_RANGE from block 0 spanning a whole old file of the same size. It
// returns the path of that old file.
func wholeFile(dp *wh.Patch, i int, s *wh.Series) (string, bool) {
	if s.Bsdiff != nil || len(s.Ops) < 1 {
		return "", false
	}
	op := s.Ops[0]
	if op.Type != pwr.SyncOp_BLOCK_RANGE || op.BlockIndex != 0 || op.FileIndex < 0 || op.FileIndex >= int64(len(dp.Target.Files)) {
		return "", false
	}
	tf, sf := dp.Target.Files[op.FileIndex], dp.Source.Files[i]
	if tf.Size != sf.Size || op.BlockSpan != numBlocks(sf.Size) {
		return "", false
	}
	return tf.Path, true
}

func facts(dp *wh.Patch) patchFacts {
	var f patchFacts
	oldFile := map[string]bool{}
	for _, tf := range dp.Target.Files {
		oldFile[tf.Path] = true
	}
	srcOfTranspo := map[string]bool{}
	overlayPath := map[string]bool{}
	type ren struct{ from, to string }
	var rens []ren
	for i, s := range dp.Series {
		sf := dp.Source.Files[i]
		f.ops += len(s.Ops) + len(s.Ctrl)
		if s.Bsdiff != nil {
			f.bsdiff++
		}
		if from, ok := wholeFile(dp, i, s); ok {
			f.transpositions++
			srcOfTranspo[from] = true
			if from != sf.Path {
				f.renames++
				rens = append(rens, ren{from, sf.Path})
			}
			continue
		}
		if oldFile[sf.Path] {
			f.overlays++
			overlayPath[sf.Path] = true
		} else {
			f.moves++
		}
	}
	for _, r := range rens {
		if srcOfTranspo[r.to] {
			f.clash = true
		}
		if overlayPath[r.from] {
			f.copyOverlay = true
		}
	}
	return f
}

// VERIF_C02_DUMP=<file> is a debugging aid: every failure (and every optimizer
// failure, prefixed INFO:) is appended to the file as one JSON line, so that
// all failing cases of a run can be clustered (the runner keeps 3 per class).
var dumpPath = os.Getenv("VERIF_C02_DUMP")

func dump(c Case, fp, msg string) {
	if dumpPath == "" {
		return
	}
	f, err := os.OpenFile(dumpPath, os.O_APPEND|os.O_CREATE|os.O_WRONLY, 0o644)
	if err != nil {
		return
	}
	b, _ := json.Marshal(map[string]any{"case": c, "fp": fp, "msg": msg})
	f.Write(append(b, '\n'))
	f.Close()
}

var schedReport func(c Case, fp, msg string)

func body(w *runner.W) {
	cache := &dirCache{root: filepath.Join(w.Scratch(), "builds"), seed: w.Seed, m: map[string]string{}, snap: map[string]map[string]wh.Snap{}}
	workN := 0

	run := func(c Case, r *runner.Rec) {
		fail := func(fp, format string, args ...any) {
			msg := fmt.Sprintf(format, args...)
			dump(c, fp, msg)
			r.Failf(fp, "%s", msg)
		}
		oldDir, oldSnap := cache.dir(c.Old)
		newDir, newSnap := cache.dir(c.New)
		// the second lookup may have evicted the first
		if _, err := os.Stat(oldDir); err != nil {
			oldDir, oldSnap = cache.dir(c.Old)
		}

		dr, err := wh.Diff(oldDir, newDir, "none")
		if err != nil {
			fail("diff-error", "%v", err)
			return
		}
		patch := dr.Patch
		if c.Patch != "plain" {
			parts := 0
			if c.Patch == "rediff-2" {
				parts = 2
			}
			opt, rerr := safeRediff(patch, oldDir, newDir, wh.RediffParams{Partitions: parts, Comp: "none"})
			if rerr != nil {
				// not this property's business (C07/C12)
				dump(c, "INFO:rediff-failed", rerr.Error())
				r.Outcome("rediff-failed")
				return
			}
			patch = opt
		}
		dp, err := wh.DecodePatch(patch)
		if err != nil {
			fail("patch-undecodable", "independent decoder: %v", err)
			return
		}
		pf := facts(dp)
		cl := classify(c.Old, c.New, dp)

		outcome := ""
		failed := false
		if w.Variant == "sched" && schedExplore != nil {
			if pf.transpositions < 2 && pf.overlays < 2 {
				r.Outcome("single-order")
				return
			}
			n, herr := schedExplore(w, c, func() runResult {
				workN++
				return runOnce(w, workN, patch, oldDir, oldSnap, newSnap)
			}, func(res runResult, orders []int) bool {
				for _, f := range res.fails {
					cc := c
					cc.Orders = append([]int{}, orders...)
					msg := fmt.Sprintf("%s [map iteration choices %v]", f.msg, orders)
					if c.Orders != nil {
						r.Failf(cl.fingerprint(f), "%s", msg)
					} else {
						schedReport(cc, cl.fingerprint(f), msg)
					}
					failed = true
				}
				return !failed
			})
			if herr != "" {
				r.Failf("harness:explore", "%s", herr)
			}
			r.Trans(n)
			r.Nontrivial()
			r.Outcome(fmt.Sprintf("orders T%d O%d failed=%v", min(pf.transpositions, 3), min(pf.overlays, 3), failed))
			return
		}
		for _, mo := range mapOrders(pf.transpositions, pf.overlays) {
			workN++
			res := runOnce(w, workN, patch, oldDir, oldSnap, newSnap)
			r.Trans(pf.ops + pf.transpositions + pf.overlays + pf.moves)
			if mo.Rep == 0 {
				if pf.transpositions >= 2 || pf.clash || pf.copyOverlay || res.sawSkip || cl.kindChange {
					r.Nontrivial()
				}
				outcome = fmt.Sprintf("T%d R%d O%d M%d clash=%v copy=%v skip=%v bsdiff=%v kind=%v", min(pf.transpositions, 3), min(pf.renames, 3), min(pf.overlays, 3), min(pf.moves, 3), pf.clash, pf.copyOverlay, res.sawSkip, pf.bsdiff > 0, cl.kindChange)
			}
			for _, f := range res.fails {
				note := ""
				if len(cl.triggers) > 0 {
					note = " [kind changes of this case with a known-bad role: " + cl.all() + "]"
				}
				fail(cl.fingerprint(f), "%s%s%s", f.msg, note, repNote(mo))
			}
			if len(res.fails) > 0 {
				failed = true
				break
			}
		}
		if len(cl.triggers) > 0 {
			outcome += " trigger=" + cl.primary()
		}
		if failed {
			outcome += " FAILED"
		}
		r.Outcome(outcome)
	}

	if w.Variant == "sched" {
		mo := runner.NewSub(w, "map-orders", run, runner.Variant("sched"))
		schedReport = func(c Case, fp, msg string) { mo.Report(c, fp, "%s", msg) }
		if mo.Active() {
			for _, o := range p1Trees() {
				for _, n := range p1Trees() {
					mo.Do(Case{Fam: "P1", Old: o, New: n, Patch: "plain"})
				}
			}
			if !w.Quick() {
				for _, o := range p2Trees() {
					for _, n := range p2Trees() {
						mo.Do(Case{Fam: "P2", Old: o, New: n, Patch: "plain"})
					}
				}
				t4 := p4Trees()
				for k := 0; k < len(t4)*len(t4); k += 7 {
					mo.Do(Case{Fam: "P4", Old: t4[k/len(t4)], New: t4[k%len(t4)], Patch: "plain"})
				}
			}
			mo.Done()
		}
		return
	}

	// ---------------- variant xdev: every rename of the commit phase fails ----------------
	// (the stage folder on another file system: move() falls back to copy + remove; the
	// binary is built with the one screw.Rename call of move() replaced by the error a rename
	// across file systems gives; bowl's own debugBrokenRename switch is not used: it builds an
	// os.PathError without cause, whose Error() panics inside move's debug line)
	if w.Variant == "xdev" {
		x1 := runner.NewSub(w, "xdev-P1-renames", run, runner.Variant("xdev"))
		if x1.Active() {
			trees := p1Trees()
			for _, o := range trees {
				for _, n := range trees {
					x1.Do(Case{Fam: "P1", Old: o, New: n, Patch: "plain"})
				}
			}
			x1.Done()
		}
		x2 := runner.NewSub(w, "xdev-P2-kinds", run, runner.Variant("xdev"))
		if x2.Active() {
			trees := p2Trees()
			for _, o := range trees {
				for _, n := range trees {
					x2.Do(Case{Fam: "P2", Old: o, New: n, Patch: "plain"})
				}
			}
			x2.Done()
		}
		x4 := runner.NewSub(w, "xdev-P4-kinds-three-names", run, runner.Variant("xdev"))
		if x4.Active() {
			trees := p4Trees()
			step := 1
			if w.Quick() {
				step = 29
			}
			for k := 0; k < len(trees)*len(trees); k += step {
				x4.Do(Case{Fam: "P4", Old: trees[k/len(trees)], New: trees[k%len(trees)], Patch: "plain"})
			}
			x4.Note("stride", step)
			x4.Done()
		}
		return
	}

	// ---------------- P1: files over {a,b,c} x {absent,P,Q,R} ----------------
	p1 := runner.NewSub(w, "P1-renames", run)
	if p1.Active() {
		trees := p1Trees()
		for _, o := range trees {
			for _, n := range trees {
				p1.Do(Case{Fam: "P1", Old: o, New: n, Patch: "plain"})
			}
		}
		p1.Note("trees", len(trees))
		p1.Done()
	}

	// ---------------- P2: kinds over {a,b} ----------------
	p2 := runner.NewSub(w, "P2-kinds", run)
	if p2.Active() {
		trees := p2Trees()
		for _, o := range trees {
			for _, n := range trees {
				p2.Do(Case{Fam: "P2", Old: o, New: n, Patch: "plain"})
			}
		}
		p2.Note("trees", len(trees))
		p2.Done()
	}

	// ---------------- P4: kinds and renames over three names ----------------
	// (quick: every 13th pair; thorough: all 46 656)
	p4 := runner.NewSub(w, "P4-kinds-three-names", run)
	if p4.Active() {
		trees := p4Trees()
		step := 1
		if w.Quick() {
			step = 13
		}
		pairs := 0
		for k := 0; k < len(trees)*len(trees); k += step {
			p4.Do(Case{Fam: "P4", Old: trees[k/len(trees)], New: trees[k%len(trees)], Patch: "plain"})
			pairs++
		}
		p4.Note("trees", len(trees))
		p4.Note("pairs", pairs)
		p4.Note("stride", step)
		p4.Done()
	}

	// ---------------- P5: unusual but legal names ----------------
	// paths that differ only by case, prefixes of one another, spaces, non-ASCII; contents
	// swapped between look-alike paths, renamed by case only
	p5 := runner.NewSub(w, "P5-unusual-names", run)
	if p5.Active() {
		namesA := wh.Build{wh.F("include/xt_MARK.h", "A.=upper"), wh.F("include/xt_mark.h", "B/100"), wh.F("Include/xt_mark.h", "=third"),
			wh.F("a", "=1"), wh.F("a.b", "=2"), wh.F("a b", "=3"), wh.F("ab", "C/65535"), wh.F("\u00e9t\u00e9/na\u00efve", "D"), wh.F("d/.keep", ""), wh.F("saves../slot1", "=s1"), wh.F("..saves/x", "=s2"), wh.F("x..", "=s5"), wh.F("...", "=s6")}
		namesB := wh.Build{wh.F("include/xt_MARK.h", "B/100"), wh.F("include/xt_mark.h", "A.=upper"), wh.F("Include/xt_MARK.h", "=third"),
			wh.F("a", "=2"), wh.F("a.b", "=1"), wh.F("a b", "D"), wh.F("Ab", "C/65535"), wh.F("\u00e9t\u00e9/naive", "=3"), wh.F("d/.Keep", ""), wh.F("saves../slot2", "=s1"), wh.F("..saves/x", "=s2!"), wh.F("x..", ""), wh.F("..../y", "=s6")}
		for _, pr := range [][2]wh.Build{{namesA, namesB}, {namesB, namesA}, {namesA, namesA}} {
			for _, p := range []string{"plain", "rediff-0", "rediff-2"} {
				p5.Do(Case{Fam: "P5", Old: pr[0], New: pr[1], Patch: p})
			}
		}
		p5.Done()
	}

	// ---------------- P3: block level slice, plain + optimized ----------------
	p3 := runner.NewSub(w, "P3-blocks", run, runner.Journal())
	if p3.Active() {
		builds := f1Builds(f1Contents())
		step := 353
		if w.Quick() {
			step = 3533
		}
		pairs := 0
		for k := 0; k < len(builds)*len(builds); k += step {
			ob, nb := builds[k/len(builds)], builds[k%len(builds)]
			pairs++
			for _, p := range []string{"plain", "rediff-0", "rediff-2"} {
				p3.Do(Case{Fam: "P3", Old: ob, New: nb, Patch: p})
			}
		}
		p3.Note("builds", len(builds))
		p3.Note("pairs", pairs)
		p3.Note("stride", step)
		p3.Done()
	}
}

func repNote(mo mapOrder) string {
	if mo.Rep == 0 {
		return ""
	}
	return fmt.Sprintf(" [seen on repetition %d only: depends on map iteration order]", mo.Rep)
}

func safeRediff(patch []byte, oldDir, newDir string, rp wh.RediffParams) (out []byte, err error) {
	defer func() {
		if e := recover(); e != nil {
			err = fmt.Errorf("panic in optimizer: %v", e)
		}
	}()
	out, _, err = wh.Rediff(patch, oldDir, newDir, rp)
	return out, err
}

// fail1 is one oracle failure of one run, in structured form.
type fail1 struct {
	kind  string   // pre-commit-modified | pre-commit-rewritten | apply-error | commit-error | tree-mismatch
	paths []string // paths of the output directory that differ (sorted)
	msg   string
}

type runResult struct {
	fails   []fail1
	sawSkip bool
}

func diffPaths(d []string) []string {
	var ps []string
	for _, s := range d {
		// entries look like "missing a (f)", "extra a (f)", "kind of a: ...", "content of a: ...", "dest of a: ..."
		f := strings.Fields(s)
		p := ""
		switch f[0] {
		case "missing", "extra":
			p = f[1]
		default:
			p = strings.TrimSuffix(f[2], ":")
		}
		ps = append(ps, p)
	}
	return ps
}

func runOnce(w *runner.W, n int, patch []byte, oldDir string, oldSnap, newSnap map[string]wh.Snap) (res runResult) {
	base := filepath.Join(w.Scratch(), fmt.Sprintf("work%d", n))
	work := filepath.Join(base, "out")
	stage := filepath.Join(base, "stage") // lives outside the output directory
	defer os.RemoveAll(base)
	if err := os.MkdirAll(base, 0o755); err != nil {
		panic(err)
	}
	if err := wh.CopyTree(oldDir, work); err != nil {
		panic(fmt.Sprintf("harness: cannot copy old build: %v", err))
	}
	before, err := wh.Snapshot(work)
	if err != nil {
		panic(err)
	}
	if d := wh.DiffSnaps(before, oldSnap, false); len(d) > 0 {
		panic(fmt.Sprintf("harness: working copy differs from old build: %v", d))
	}

	checkedPre := false
	checkPre := func(when string) {
		checkedPre = true
		at, err := wh.Snapshot(work)
		if err != nil {
			res.fails = append(res.fails, fail1{kind: "pre-commit-modified", msg: fmt.Sprintf("%s: cannot snapshot the directory: %v", when, err)})
			return
		}
		if d := wh.DiffSnaps(at, oldSnap, false); len(d) > 0 {
			res.fails = append(res.fails, fail1{kind: "pre-commit-modified", paths: diffPaths(d), msg: fmt.Sprintf("%s the directory no longer equals the old build: %s", when, strings.Join(d, "; "))})
			return
		}
		if d := wh.DiffSnaps(at, before, true); len(d) > 0 {
			res.fails = append(res.fails, fail1{kind: "pre-commit-rewritten", paths: diffPaths(d), msg: fmt.Sprintf("%s entries of the old build were rewritten: %s", when, strings.Join(d, "; "))})
		}
		res.sawSkip = stageHasSkip(stage)
	}
	err = wh.ApplyInPlace(patch, work, stage, func() error {
		checkPre("right before Commit")
		return nil
	})
	if err != nil {
		if !checkedPre {
			// patching failed, Commit never started
			checkPre("after the failed patching phase (Commit never started)")
			res.fails = append(res.fails, fail1{kind: "apply-error", msg: fmt.Sprintf("patching phase failed: %v", err)})
			return res
		}
		res.fails = append(res.fails, fail1{kind: "commit-error", msg: firstLine(err.Error())})
	}
	got, serr := wh.Snapshot(work)
	if serr != nil {
		res.fails = append(res.fails, fail1{kind: "tree-mismatch", msg: fmt.Sprintf("cannot snapshot the directory after Commit: %v", serr)})
		return res
	}
	if d := wh.DiffSnaps(got, newSnap, false); len(d) > 0 {
		k := "tree-mismatch"
		m := "after Commit (nil error) the directory differs from the new build: "
		if err != nil {
			// one failure per run: the commit error, with the damage attached
			last := &res.fails[len(res.fails)-1]
			last.paths = diffPaths(d)
			last.msg += " — directory afterwards: " + strings.Join(d, "; ")
			return res
		}
		res.fails = append(res.fails, fail1{kind: k, paths: diffPaths(d), msg: m + strings.Join(d, "; ")})
	}
	return res
}

func firstLine(s string) string {
	if i := strings.IndexByte(s, '\n'); i >= 0 {
		return s[:i]
	}
	return s
}
