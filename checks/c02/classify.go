package main

import (
	"path"
	"sort"
	"strings"

	"verif/lib/wh"
)

// Classification of a case, used ONLY to name the class of a failure (the
// fingerprint); it never decides whether a case passes. It is computed from
// the case — the kinds of every path in the old and the new build, and the
// role of the path in the (independently decoded) patch — never from error
// text.
//
// A "trigger" is a path whose kind changes between the builds in a way that
// the commit phase of the overlay bowl was found (by this check, confirmed by
// reading /repo/pwr/bowl/bowl_overlay.go and by stand-alone reproductions) to
// handle wrongly. All of these classes have been repaired in /repo since (the
// last five by "fix: overlay bowl: stage files renamed away from paths that
// change kind ...", see known_findings.json: every entry is "fixed" and
// suppresses nothing). The classes remain as names only: a recurrence is a
// VIOLATION whose fingerprint says which of the old defects came back.
//
//	file->symlink:old-file-is-rename-source      ensureDirsAndSymlinks removes the old file before
//	file->dir:old-file-renamed-into-it            applyTranspositions needs it as the source of a
//	file->dir:old-file-renamed-elsewhere          rename/copy (three kind pairs, one root cause)
//	dir->symlink:old-child-is-rename-source
//	symlink->file:copied-from-link-target         copy() opens the destination with O_TRUNC through the
//	symlink->file:copied-from-other-file          old symlink that still sits there
//	dir->file:nonempty-dir                        move() uses Remove (not recursive) on the old directory
//	dir->file:empty-dir:copy-dest                 copy() opens the old directory for writing
//	dir->symlink:old-child-deleted-through-new-link  deleteGhosts removes an old child path that now
//	                                              resolves, through the new symlink, to a new-build entry
//
// A failure after Commit started, in a case with triggers, gets the class of
// its first trigger in classOrder (the order in which the commit phases act) as
// fingerprint; a tree mismatch without commit error is additionally required
// to touch only paths that the triggers explain. Otherwise — and for every
// case without trigger — the fingerprint is the generic "commit-error:other" /
// "tree-mismatch:other...", which is never listed as known.
type trigger struct {
	class string
	roots []string // paths (with everything below them) the defect can damage
}

// classOrder: phase 1 (ensureDirsAndSymlinks), phases 2-3 (applyTranspositions,
// applyMoves), phase 5 (deleteGhosts).
var classOrder = []string{
	"file->symlink:old-file-is-rename-source",
	"file->dir:old-file-renamed-into-it",
	"file->dir:old-file-renamed-elsewhere",
	"dir->symlink:old-child-is-rename-source",
	"symlink->file:copied-from-link-target",
	"symlink->file:copied-from-other-file",
	"dir->file:nonempty-dir",
	"dir->file:empty-dir:copy-dest",
	"dir->symlink:old-child-deleted-through-new-link",
}

type classification struct {
	kindChange bool
	triggers   []trigger
}

type kinds map[string]wh.Entry // path -> entry, implicit parent directories included

func kindsOf(b wh.Build) kinds {
	k := kinds{}
	for _, e := range b {
		k[e.Path] = e
		for d := path.Dir(e.Path); d != "." && d != "/"; d = path.Dir(d) {
			if _, ok := k[d]; !ok {
				k[d] = wh.D(d)
			}
		}
	}
	return k
}

func (k kinds) kind(p string) string {
	if e, ok := k[p]; ok {
		return e.Kind
	}
	return "-"
}

func (k kinds) hasChildren(p string) bool {
	for q := range k {
		if strings.HasPrefix(q, p+"/") {
			return true
		}
	}
	return false
}

func under(p, root string) bool { return p == root || strings.HasPrefix(p, root+"/") }

// transpo is one whole-file series of the patch and how applyTranspositions
// will carry it out.
type transpo struct {
	from, to string
	how      string // noop | move | copy
}

// plan mirrors the grouping rules of applyTranspositions: per old file, the
// transpositions in patch order; a group with a no-op copies all the others;
// otherwise the first is the rename (a copy if the old file has a pending
// overlay) and the others are copies.
func plan(dp *wh.Patch) (ts []transpo, overlay map[string]bool) {
	oldFile := map[string]bool{}
	for _, tf := range dp.Target.Files {
		oldFile[tf.Path] = true
	}
	overlay = map[string]bool{}
	groups := map[string][]int{}
	var order []string
	for i, s := range dp.Series {
		sf := dp.Source.Files[i]
		if from, ok := wholeFile(dp, i, s); ok {
			if _, seen := groups[from]; !seen {
				order = append(order, from)
			}
			groups[from] = append(groups[from], len(ts))
			ts = append(ts, transpo{from: from, to: sf.Path})
			continue
		}
		if oldFile[sf.Path] {
			overlay[sf.Path] = true
		}
	}
	for _, from := range order {
		g := groups[from]
		noop := -1
		for _, i := range g {
			if ts[i].to == from {
				noop = i
				break
			}
		}
		for n, i := range g {
			switch {
			case i == noop:
				ts[i].how = "noop"
			case noop < 0 && n == 0 && !overlay[from]:
				ts[i].how = "move"
			default:
				ts[i].how = "copy"
			}
		}
	}
	return ts, overlay
}

func classify(old, new wh.Build, dp *wh.Patch) classification {
	var cl classification
	ok, nk := kindsOf(old), kindsOf(new)
	ts, _ := plan(dp)
	producedBy := map[string]transpo{}
	for _, t := range ts {
		producedBy[t.to] = t
	}
	var paths []string
	for p := range ok {
		paths = append(paths, p)
	}
	sort.Strings(paths)
	for _, p := range paths {
		o, n := ok.kind(p), nk.kind(p)
		if n == "-" || n == o {
			continue
		}
		cl.kindChange = true
		switch o + n {
		case "fl", "fd":
			for _, t := range ts {
				if t.from != p {
					continue
				}
				role := "old-file-is-rename-source"
				if n == "d" {
					role = "old-file-renamed-elsewhere"
					if under(t.to, p) {
						role = "old-file-renamed-into-it"
					}
				}
				cl.add(kindName(o)+"->"+kindName(n)+":"+role, p, t.to)
			}
		case "dl":
			for _, t := range ts {
				if under(t.from, p) && t.from != p {
					cl.add("dir->symlink:old-child-is-rename-source", p, t.to)
				}
			}
			// old children that are gone in the new build ("ghosts") and whose path,
			// read through the new symlink, names an entry of the new build
			target := path.Join(path.Dir(p), nk[p].Dest)
			for _, q := range paths {
				if q == p || !under(q, p) || nk.kind(q) != "-" {
					continue
				}
				via := target + strings.TrimPrefix(q, p)
				// repaired in /repo (fix: overlay bowl: ghosts below a new symlink): no longer a known-bad role
				_ = via
			}
		case "lf":
			if t, isT := producedBy[p]; isT && t.how == "copy" {
				target := path.Join(path.Dir(p), ok[p].Dest)
				role := "copied-from-other-file"
				if target == t.from {
					role = "copied-from-link-target"
				}
				// repaired in /repo (fix: overlay bowl copy through a symlink): no longer a
				// known-bad role; a recurrence is reported under a generic fingerprint
				_ = role
				_ = target
			}
		case "df":
			if ok.hasChildren(p) {
				cl.add("dir->file:nonempty-dir", p)
			}
			// "dir->file:empty-dir:copy-dest" was repaired by the same fix
		}
	}
	// kind changes of paths that only exist in the new build as a different kind
	// than an old ancestor are covered above (the ancestor itself changes kind).
	return cl
}

func kindName(k string) string {
	switch k {
	case "f":
		return "file"
	case "d":
		return "dir"
	case "l":
		return "symlink"
	}
	return "absent"
}

func (cl *classification) add(class string, roots ...string) {
	for i := range cl.triggers {
		if cl.triggers[i].class == class {
			cl.triggers[i].roots = append(cl.triggers[i].roots, roots...)
			return
		}
	}
	cl.triggers = append(cl.triggers, trigger{class: class, roots: roots})
}

// primary returns the class of the first trigger in classOrder.
func (cl classification) primary() string {
	for _, c := range classOrder {
		for _, t := range cl.triggers {
			if t.class == c {
				return c
			}
		}
	}
	panic("harness: trigger class missing from classOrder")
}

// all lists every trigger class of the case (for messages).
func (cl classification) all() string {
	var cs []string
	for _, t := range cl.triggers {
		cs = append(cs, t.class)
	}
	sort.Strings(cs)
	return strings.Join(cs, " + ")
}

// fingerprint names the class of one failure.
func (cl classification) fingerprint(f fail1) string {
	switch f.kind {
	case "commit-error":
		if len(cl.triggers) == 0 {
			return "commit-error:other"
		}
		return cl.primary()
	case "tree-mismatch":
		if len(cl.triggers) == 0 {
			return "tree-mismatch:other"
		}
		for _, p := range f.paths {
			explained := false
			for _, t := range cl.triggers {
				for _, r := range t.roots {
					if under(p, r) {
						explained = true
					}
				}
			}
			if !explained {
				return "tree-mismatch:other:path-not-explained-by-kind-change"
			}
		}
		return cl.primary()
	}
	// pre-commit-modified, pre-commit-rewritten, apply-error: never explained by a kind change
	return f.kind
}
