#!/bin/bash
# usage: tools/confirm_mut.sh <mutant-dir> [--skip-suite]
# Confirms a seeded change independently of its author's scripts: applies patch.diff in a scratch
# worktree, builds, runs the repository's own suite, then runs the demonstration test(s)
# (zz_demo*_test.go, package and -run pattern taken from run_demo.sh) with and without the change.
set -u
export GOFLAGS=-mod=mod GOPROXY=off
mdir=$(cd "$1" && pwd); name=$(basename "$mdir"); skip=${2:-}
wt=/tmp/confirm-$name-$$
git -C /repo worktree add --detach "$wt" >/dev/null 2>&1 || { echo "cannot create worktree"; exit 2; }
trap 'git -C /repo worktree remove --force "$wt" >/dev/null 2>&1; rm -rf "$wt"' EXIT
cd "$wt"
git apply "$mdir/patch.diff" || { echo "$name: PATCH DOES NOT APPLY"; exit 2; }
if go build ./... 2>&1 | tail -3 | grep -q .; then echo "$name: BUILD FAILS"; exit 2; fi
suite_ok=skipped; suite=""
if [ "$skip" != "--skip-suite" ]; then
  suite=$(go test -vet=off -count=1 -timeout 25m ./... 2>&1)
  if echo "$suite" | grep -q "^FAIL\|^--- FAIL\|panic:"; then suite_ok=false; else suite_ok=true; fi
fi
# where does the demo test go, and which tests does it run?
pkg=$(grep -o '\(\$WT\|\$D\|\$WORKTREE\|<worktree>\|"\$WT"\|"\$D"\)/[a-z][a-zA-Z0-9_/]*/' "$mdir/run_demo.sh" | head -1 | sed 's/^[^/]*\///; s/\/$//')
[ -z "$pkg" ] && pkg=$(grep -o ' \./[a-z][a-zA-Z0-9_/]*/\? *' "$mdir/run_demo.sh" | grep -v run_demo | tail -1 | tr -d ' ' | sed 's/^\.\///; s/\/$//')
pat=$(grep -o "\-run[ =]*['\"]\?[A-Za-z_|^$.*]*" "$mdir/run_demo.sh" | head -1 | sed "s/-run[ =]*//; s/['\"]//g")
[ -z "$pat" ] && pat="Demo"
cp "$mdir"/zz_demo*_test.go "$wt/$pkg/" 2>/dev/null || { echo "$name: cannot place demo test into '$pkg'"; exit 2; }
with=$(go test -vet=off -count=1 -run "$pat" "./$pkg/" 2>&1); with_code=$?
git apply -R "$mdir/patch.diff"
without=$(go test -vet=off -count=1 -run "$pat" "./$pkg/" 2>&1); without_code=$?
wf=false; [ $with_code -ne 0 ] && wf=true
wo=false; [ $without_code -eq 0 ] && echo "$without" | grep -q "^ok" && wo=true
echo "$name: suite_passes_with_change=$suite_ok demo_fails_with_change=$wf demo_passes_without_change=$wo (pkg=$pkg run=$pat)"
{ echo "== suite with the change (tail)"; echo "$suite" | tail -30; echo "== demo with the change: go test -run $pat ./$pkg/ (exit $with_code)"; echo "$with" | tail -25; echo "== demo without the change (exit $without_code)"; echo "$without" | tail -10; } > "$mdir/confirm.log"
