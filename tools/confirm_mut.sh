#!/bin/bash
# usage: tools/confirm_mut.sh <mutant-dir>
# Confirms a seeded change independently: applies in a scratch worktree, builds, runs the
# repository's own suite, then the demonstration with and without the change.
set -u
export GOFLAGS=-mod=mod GOPROXY=off
mdir=$(cd "$1" && pwd); name=$(basename "$mdir")
wt=/tmp/confirm-$name-$$
git -C /repo worktree add --detach "$wt" >/dev/null 2>&1 || { echo "cannot create worktree"; exit 2; }
trap 'git -C /repo worktree remove --force "$wt" >/dev/null 2>&1; rm -rf "$wt"' EXIT
cd "$wt"
git apply "$mdir/patch.diff" || { echo "$name: PATCH DOES NOT APPLY"; exit 2; }
if go build ./... 2>&1 | tail -3 | grep -q .; then echo "$name: BUILD FAILS"; exit 2; fi
suite=$(go test -vet=off -count=1 -timeout 25m ./... 2>&1)
if echo "$suite" | grep -q "^FAIL\|^--- FAIL\|panic:"; then suite_ok=false; else suite_ok=true; fi
cd "$mdir"
if grep -q "worktree add" run_demo.sh; then
  # self-contained demo script: creates its own worktree, argument with|without
  with=$(sh ./run_demo.sh with 2>&1); with_code=$?
  without=$(sh ./run_demo.sh without 2>&1); without_code=$?
else
  # demo script meant to be run inside a worktree that holds the demo test
  pkg=$(grep -o '\./[a-zA-Z0-9_/]*/*' run_demo.sh | grep -v '^\./run_demo' | tail -1); pkg=${pkg#./}; pkg=${pkg%/}
  [ -z "$pkg" ] && pkg=$(python3 -c "import json;print(json.load(open('meta.json')).get('demo_package','pwr'))")
  cp "$mdir"/zz_demo*_test.go "$wt/$pkg/" 2>/dev/null
  with=$(cd "$wt" && sh "$mdir/run_demo.sh" 2>&1); with_code=$?
  (cd "$wt" && git apply -R "$mdir/patch.diff")
  without=$(cd "$wt" && sh "$mdir/run_demo.sh" 2>&1); without_code=$?
fi
wf=false; echo "$with" | grep -q "FAIL\|panic:\|DATA RACE\|exit status" && wf=true; [ $with_code -ne 0 ] && wf=true
wo=true; echo "$without" | grep -q "FAIL\|panic:\|DATA RACE" && wo=false; [ $without_code -ne 0 ] && wo=false
echo "$name: suite_passes_with_change=$suite_ok demo_fails_with_change=$wf demo_passes_without_change=$wo"
{ echo "== suite (tail)"; echo "$suite" | tail -30; echo "== demo with change (exit $with_code)"; echo "$with" | tail -25; echo "== demo without change (exit $without_code)"; echo "$without" | tail -15; } > "$mdir/confirm.log"
