#!/usr/bin/env python3
"""Regenerates /verif/MANIFEST.json from the table below (kept next to the checks so
that the manifest never drifts from what is built)."""
import json, os, sys

ROOT = os.path.dirname(os.path.dirname(os.path.abspath(__file__)))

BASELINE_OFF = "cd /repo && GOFLAGS=-mod=mod GOPROXY=off go test -vet=off -count=1 -timeout 25m ./..."

# id -> (category, technique, text, note, design_ref)
CHECKS = {
 "C11": ("model_checking",
  "bounded exhaustive enumeration of inputs against a reference applier (explicit small-scope model checking of the real ComputeDiff), plus constant-scaled overlay builds",
  "Every (block size 1..4, 1-3 old files, new content, preferred index) over 2-3 symbol alphabets up to the stated lengths is run through the real CreateSignature/ComputeDiff and the ops are replayed by an independent applier and by ApplySingle; MaxDataOp scaled to 4/5/8 by a build overlay so that every wrap/flush phase is enumerated; real-scale family around MaxDataOp multiples. Exhaustive within those bounds.",
  "Bounds: alphabets {0,1},{0,1,2}; lengths as in DESIGN C11. Scaled builds change only the MaxDataOp constant. Larger block sizes only via the enumerated real-scale family.",
  "DESIGN.md#c11"),
}

NOT_YET = {}

def main():
    props = [json.loads(l) for l in open(os.path.join(ROOT, "properties.jsonl"))]
    checks = []
    na = []
    for p in props:
        pid = p["id"]
        if pid in CHECKS:
            cat, tech, text, note, ref = CHECKS[pid]
            checks.append({
                "property_id": pid,
                "quick_cmd": f"./bin/vcheck {pid} --tier quick",
                "thorough_cmd": f"./bin/vcheck {pid} --tier thorough",
                "evidence_file": f"/verif/evidence/{pid}.json",
                "replay_cmd_template": "./bin/vcheck %s --replay {path}" % pid,
                "engine": "E1" if pid not in ("C15", "C16") else "E2",
                "level_claimed": {"category": cat, "text": text, "design_ref": ref},
                "level_note": note,
                "technique": tech,
            })
        else:
            na.append({"property_id": pid, "reason": NOT_YET.get(pid, "check not built yet in this round (planned, see DESIGN.md section 5); not claimed until it runs clean on the unchanged tree")})
    m = {
        "version": 1,
        "setup_cmd": "./setup.sh",
        "hooks": {
            "guard": "none (no source hooks: instrumentation and scaled constants are applied with `go build -overlay`, generated from /repo's working tree at check time; build tag `vsched` only selects harness-side files under /verif)",
            "enable": "./bin/vcheck <ID> generates the overlay under /verif/build/<id>/<variant>/overlay.json and builds with `go build -overlay`",
            "baseline_off_cmd": BASELINE_OFF,
            "source_commits": [],
            "add_only": True,
        },
        "engines": [
            {"name": "E1", "path": "/verif/lib/explore + /verif/lib/runner", "serves_properties": sorted(CHECKS.keys()), "kind_free_text": "choice-tape / odometer explorer: bounded exhaustive enumeration of inputs, environment answers, fault sequences and crash points of the real implementation, sharded over worker processes"},
            {"name": "E2", "path": "/verif/lib/instr + /verif/engine/vsched", "serves_properties": [p for p in ("C06", "C12", "C15", "C16", "C18", "C19") if p in CHECKS], "kind_free_text": "controlled cooperative scheduler for the real goroutines (source-level instrumentation through a build overlay), preemption-bounded DFS over interleavings"},
        ],
        "checks": checks,
        "not_applicable": na,
        "notes": "Exit codes: 0 held (possibly with KNOWN-FINDING lines), 1 VIOLATION, 2 harness error. known_findings.json lists fixed and known genuine defects. Mutants used to demonstrate detection are under /verif/seeded.",
    }
    json.dump(m, open(os.path.join(ROOT, "MANIFEST.json"), "w"), indent=1)
    print("wrote MANIFEST.json with", len(checks), "checks,", len(na), "not claimed")

if __name__ == "__main__":
    main()
