#!/usr/bin/env python3
"""Regenerates /verif/MANIFEST.json from the table below (kept next to the checks so
that the manifest never drifts from what is built)."""
import json, os, sys

ROOT = os.path.dirname(os.path.dirname(os.path.abspath(__file__)))

BASELINE_OFF = "cd /repo && GOFLAGS=-mod=mod GOPROXY=off go test -vet=off -count=1 -timeout 25m ./..."

# id -> (category, technique, text, note, design_ref)
E1 = "bounded exhaustive enumeration (explicit small-scope model checking of the real implementation against a reference oracle)"
CHECKS = {
 "C01": ("model_checking", E1 + " over build pairs from a block alphabet x every registered compression setting; independent Lstat tree oracle and independent patch decoder",
  "Every ordered pair of builds of the stated families (block-level F1, shape-level F2 x all 20 compression settings, limit family F3 around 4MiB/8MiB runs, file-sequence family F4: every ordered triple of new files from a menu of ways to reuse two old files, weak-twin family F5: blocks that share the rolling checksum of another block but not its bytes) goes through the real WritePatch -> patcher -> fresh bowl; the output tree is compared entry by entry with the new build. Exhaustive within the families.",
  "Byte values outside the seeded block alphabet are not enumerated; file modes are not compared.", "DESIGN.md#c01"),
 "C02": ("model_checking", E1 + " over tree pairs containing every rename/swap/chain/duplicate/kind change on 2-3 names; pre-commit and post-commit snapshots",
  "All 4096 pairs of P1 (rename relations), all 6561 pairs of P2 (kind changes, 9 per-name states incl. a directory with content two levels deep), P4 (three names x six kinds/shapes, one content: all 46656 pairs in thorough, every 13th in quick), block-level P3 with plain and optimized patches, applied in place through the real overlay bowl; old build must be untouched before Commit, directory must equal the new build after. Variant xdev repeats P1, P2, P4 with every rename of the commit phase failing as across file systems (copy + remove fallback). Sub-check map-orders enumerates every iteration order of the maps the commit phase ranges over (pwr/bowl rebuilt with range-over-map rewritten to an explored key order).",
  "Map orders are enumerated for P1 (thorough: P2 too). The kind-change defects this check found (RC1-RC4) are all repaired in /repo (known_findings.json: fixed).", "DESIGN.md#c02"),
 "C04": ("model_checking", E1 + " over size tuples x producers x compression; choice-tape DFS (deviation bound 2) over the source pool's read slicing",
  "All 1-3 file size tuples around block multiples x {stand-alone signing, diff-time signing vs empty / identical old build}; every signature stream read back and compared hash for hash with ComputeSignature and with an independent weak+MD5 reference; read slicings of the shared source reader enumerated by deviation-bounded DFS; pristine build validates clean, also when the ValidatorContext was used on a damaged copy before (context-reuse) and for symlink destinations that are not lexically clean.",
  "Deviations: short reads of 1 or 16383 bytes, io.EOF reported together with the last bytes; at most 2 per execution.", "DESIGN.md#c04"),
 "C05": ("fault_enumeration", "exhaustive enumeration of damage sequences (length 1, 2; 3 in thorough) from a boundary-offset damage catalogue, oracle by independent byte comparison",
  "Every single damage, every pair (thorough: triple) of damages on distinct entries and every (content damage, length change) pair on one file of 4 builds, plus 1..130 consecutive damaged blocks in 70/132-block files; wounds file decoded independently; every differing offset must lie in a FILE wound, shorter/longer files and wrong kinds must be wounded, wounds well-formed; fail-fast must return an error.",
  "Offsets/lengths from the boundary set around every block boundary; two-flip weak-hash collisions included.", "DESIGN.md#c05"),
 "C06": ("model_checking", "stateless model checking of the real Validate + archive healer under a controlled scheduler with file-system calls as visible operations (preemption-bounded DFS with happens-before caching), plus exhaustive fault enumeration of damage sequences (incl. kind swaps hiding subtrees) healed by the free-running code",
  "Builds x all damage sequences of length 1-2 (+ structural triples): Validate with an archive healer must return nil, every signed entry must be present with signed content, fail-fast validation must pass afterwards, a valid directory must not be touched (inode/mtime).",
  "Scheduler scenarios use small builds (files below one copy chunk) and bounds 0-1 (quick) / 1-2 (thorough); the large damage enumeration runs free (5 repetitions, schedule-dependent failures tagged).", "DESIGN.md#c06"),
 "C08": ("model_checking", E1 + " over renames, duplications and k<=2 localized edits at boundary offsets/lengths; fresh bytes counted from the independently decoded op stream",
  "Identical builds, every rename/duplication, every k=1 and k=2 edit (overwrite/insert/delete x boundary offsets x boundary lengths), full shift sweep 1..B-1 in thorough, weak twins (a block with the rolling checksum of an old block and other bytes before the real block), fresh runs around 4MiB and 8MiB followed by old data: copied files contribute no DATA bytes, counters add up, fresh <= introduced + (2k+2) blocks.",
  "High-entropy content from seeded pseudo-random blocks, plus weak twins derived from them.", "DESIGN.md#c08"),
 "C09": ("fault_enumeration", "exhaustive enumeration of damages to the old build x patch shapes (block ranges, whole-file copies, bsdiff series) applied through the real safekeeper pool",
  "10+ build pairs x every single damage (flip, weak twin of a block, truncate, extend, delete at boundary offsets) and pairs across two files / within one file: outcome must be an error from Resume/Commit or exactly the new build; the undamaged build must never be rejected.",
  "Kind damages of old files are not enumerated (not in the property's quantifier).", "DESIGN.md#c09"),
 "C10": ("fault_enumeration", "exhaustive enumeration of byte-level truncations and field-level message mutations (singles, pairs) of valid streams, fed to patcher/optimizer/signature reader/overlay applier; oracle: returns, no panic, no hang",
  "Every prefix of every seed stream and every single field mutation (indices/spans negative, zero, huge; unknown op types; swapped series kinds; missing/duplicated/moved end markers; bsdiff controls out of range; hash counts) in none/gzip/brotli framing, thorough adds pairs: each target must return an error or complete.",
  "Containers and declared message lengths stay well-formed as the property stipulates; hang = 60 s watchdog (normal cases take < 1 ms).", "DESIGN.md#c10"),
 "C11": ("model_checking",
  E1 + " of ComputeDiff against a reference applier, plus constant-scaled overlay builds (MaxDataOp 4/5/8)",
  "Every (block size 1..4, 1-3 old files, new content, preferred index) over 2-3 symbol alphabets up to the stated lengths is run through the real CreateSignature/ComputeDiff and the ops are replayed by an independent applier and by ApplySingle; MaxDataOp scaled to 4/5/8 by a build overlay so that every wrap/flush phase is enumerated; real-scale family around MaxDataOp multiples. Exhaustive within those bounds.",
  "Bounds: alphabets {0,1},{0,1,2}; lengths as in DESIGN C11. Scaled builds change only the MaxDataOp constant. Larger block sizes only via the enumerated real-scale family.",
  "DESIGN.md#c11"),
 "C16": ("model_checking", "stateless model checking of the real Validate under a controlled cooperative scheduler (source-instrumented build): preemption-bounded DFS over goroutine interleavings, select choices and the cancellation instant, with happens-before state caching",
  "For each scenario (build x damage incl. directory and symlink both gone and a missing target directory x consumer {fail-fast, wounds writer, writer with uncreatable path, printer, archive healer} x wound-channel capacity {1,2,1024} x canceller) every interleaving up to the stated preemption bound (unbounded for the 1-file build in thorough) is executed on the real code; every execution must end with Validate returned (deadlock = all goroutines parked) and a nil fail-fast verdict only on an undamaged directory. Violations carry the exact schedule and are replayed before being reported.",
  "Code between visible operations is atomic (data races are C15's race pass); custom consumers cannot be injected through Validate; capacity scaling by overlay.", "DESIGN.md#c16"),
 "C17": ("model_checking", E1 + " over builds x ALL subsets of file indices x plain/optimized patches x compression, with a recording bowl and recording pool",
  "720 orderings of 6 file kinds x all 64 whitelists, each described by a sparse map (members only) and a dense map (explicit false entries) (plain, optimized, all compression settings on a slice) plus the 2051-old-file family (targetIndex 2048/2049/2050): Resume returns nil, touched count = |subset|, bowl and pool see only whitelisted files, each whitelisted file equals the full application's.",
  "Pool accesses are attributed to the file announced by the patcher's progress label and cross-checked against the series' references.", "DESIGN.md#c17"),
 "C18": ("model_checking", E1 + " over signed sizes x altered-block subsets / length changes x write slicings x {error, wound, aggregated wound} mode, in-memory inner pool",
  "Every signed size around block multiples x every assignment of alterations (byte inversions, next signed block, weak twin) to the blocks, truncation and extension, and structured signed contents (zero blocks, repeated blocks) x all slicings with <=3 cuts at boundary positions plus uniform slicings: error mode must fail at the completing write/close and leak nothing from the bad block on; wound mode must tile the written range in order with exactly the differing blocks wounded.",
  "Sub-check wound-interleavings enumerates writer/relay/aggregator/consumer interleavings under the controlled scheduler (unbounded for 1-block files, bound 3 / unbounded for 2 blocks).", "DESIGN.md#c18"),
 "C19": ("model_checking", E1 + " over trees x {zip, tar} x worker counts, and every interruption point of a resumable extraction (deterministic seams), incl. forced out-of-order completion",
  "12 catalogue + 180 shape trees x formats x workers {1,2,3,4,8,16,-1}: extracted tree equals the source, counts equal entries, re-extraction idempotent; 1-worker crash after every entry and at every seam event, and forced out-of-order schedules for 2-3 workers, then restart with the same resume file must complete the tree.",
  "Sub-check interleavings runs ExtractZip under the controlled scheduler: bounded interleavings of dispatcher and 2-3 workers with file-system calls visible, a crash at every scheduling instant (snapshot + restart with the same resume file), entry counters split at a scheduling point (race-directed). DryRun not covered.", "DESIGN.md#c19"),
}

CHECKS.update({
 "C03": ("fault_enumeration", "exhaustive enumeration of (checkpoint k, crash snapshot t, torn on-disk state per file, save schedule, chain of interruptions) over recorded runs of the real patcher; every resumption uses a gob round-tripped checkpoint in a brand-new patcher/pool/bowl",
  "Per configuration ({fresh, overlay} x {rsync, optimized} x {none, gzip-6, brotli-1} x 3 build pairs): every checkpoint offered x crash points x torn states (as at t / as at k / truncated at boundary lengths / zero-filled / missing) x chains (depth 3) x save schedules; the resumed run must finish and produce exactly the uninterrupted run's tree; always-saving consumers must be offered checkpoints.",
  "Crash model: file-granular prefix/torn states of writes after the checkpoint; no reordering inside a write; fsync omissions are not observable in-process. Two-file torn products use a reduced state set.", "DESIGN.md#c03"),
 "C07": ("model_checking", E1 + " over patches x optimizer parameters (partitions 0..16, concurrency, ForceMapAll, size limits, output compression); optimized patch applied fresh AND in place and compared with the new build",
  "1374 byte-level pairs and 53 block-level pairs x partitions 0..16 x ForceMapAll x size limits (full product), concurrency x compression cycled, file-sequence pairs through one optimizer context, and suffix-sort concurrency -1..17 x partitions 0..16 in full product on four pairs: NewContext/Optimize must return (120 s watchdog), must not crash (journaled workers attribute process crashes) and the optimized patch must apply fresh and in place to exactly the new build.",
  "Optimized patches byte-identical to one already verified for the same pair are not re-applied.", "DESIGN.md#c07"),
 "C12": ("model_checking", E1 + " of bsdiff.Do + Patch against a reference applier and the mid-series restart oracle; explicit-state BFS to fixpoint over the real lrufile against a shadow model; constant-scaled cache geometries by overlay",
  "All (old,new) over {0,1} up to 8x8 and {0,1,2} up to 5x5 x partitions, medium family (Thue-Morse, Fibonacci and LFSR words of 32-96 symbols under every rotation, segment deletion/duplication, flips, self-concatenation: overlapping matches), structured large family, all hand-made valid series of <=5 messages under scaled cache geometries; lrufile: every reachable state (shadow state = offset + LRU residency, plus the observed position of the shared underlying readers, which a later Reset meets again) for chunk 1..4 x entries 1..3 x sizes 0..9 explored by BFS with every seek/read/reset operation, implementation stats and data compared with the shadow model at every step.",
  "Sub-check scanner-interleavings runs bsdiff.Do under the controlled scheduler (bounded interleavings of suffix-sort goroutines, workers, dispatcher, collector; match channels also scaled to 1-2 slots): every schedule must produce a series that applies to new and equals the default schedule's. Underlying readers fill the buffer except at EOF.", "DESIGN.md#c12"),
 "C13": ("model_checking", E1 + " over message-size sequences x every compressor/quality x save-request positions; every popped checkpoint gob round-tripped and resumed in a brand-new source+reader stack (also second generation)",
  "All sequences of length <=2 over sizes straddling the 32KiB buffer and its power-of-two growth steps (0..4MiB+1), monotone/big-then-small sequences of length 3-4, x {none, gzip 1-9, brotli 0-9} x save before message i / every message: uninterrupted read equals the written sequence then EOF; every resumed reader yields exactly the unread suffix; checkpoint offsets are message boundaries of the independently framed stream.",
  "No checkpoint count is asserted (brotli offers few). Brotli has no second independent decoder offline.", "DESIGN.md#c13"),
 "C14": ("model_checking", E1 + " over (old,new) x all cuts into <=3 writes x flush/resume tags with window/threshold scaled to 8/2 and 4/1 by overlay; full-scale segment grammar",
  "Scaled: every binary (old,new) up to length 8, every equality pattern up to 12-13 and 40-byte two-run contents with a moved border x every cut and tag (plain, Flush, Flush+resume from reported offsets, resume after stale writes); full scale: run lengths around the 8KiB threshold and the 128KiB window x placements x write sizes. Real OverlayPatchContext.Patch + truncate must give new; reference applier agrees; reported offsets equal bytes consumed/produced.",
  "Scaling changes only the two constants; effective values are probed behaviourally and scaled sub-checks skip otherwise.", "DESIGN.md#c14"),
 "C15": ("model_checking", "stateless model checking of WritePatch, the bsdiff scanner and the optimizer under a controlled cooperative scheduler (preemption-bounded DFS with happens-before state caching over interleavings, select choices, map iteration orders and source-reader answers: short reads, EOF with data, injected read error); separate Go race detector pass on the free-running bodies",
  "Every interleaving (up to the stated preemption bound per scenario) of the differ's diff/sign/reader goroutines (incl. a 2100-block old signature with repeated block contents), of the bsdiff workers/dispatcher/collector/suffix-sort goroutines and every map iteration order of the optimizer's analysis must write byte-identical patch, signature, counters, control messages and mappings; with a failing source reader every schedule must make the diff fail; no deadlock. Large inputs (1.2-1.6MB) diffed under GOMAXPROCS 1,2,4,8,16 must give identical bytes. Race freedom: the same bodies under -race with GOMAXPROCS 1,2,4,16 (a detector pass, not an enumeration).",
  "Code between visible operations is atomic under the scheduler; io.Pipe modelled atomically; data races only through the race-detector pass.", "DESIGN.md#c15"),
})

NOT_YET = {}

def main():
    props = [json.loads(l) for l in open(os.path.join(ROOT, "properties.jsonl"))]
    checks = []
    na = []
    for p in props:
        pid = p["id"]
        if pid in CHECKS:
            cat, tech, text, note, ref = CHECKS[pid]
            checks.append({
                "property_id": pid,
                "quick_cmd": f"./bin/vcheck {pid} --tier quick",
                "thorough_cmd": f"./bin/vcheck {pid} --tier thorough",
                "evidence_file": f"/verif/evidence/{pid}.json",
                "replay_cmd_template": "./bin/vcheck %s --replay {path}" % pid,
                "engine": "E2" if pid in ("C15", "C16") else ("E1+E2" if pid in ("C02", "C06", "C12", "C18", "C19") else "E1"),
                "level_claimed": {"category": cat, "text": text, "design_ref": ref},
                "level_note": note,
                "technique": tech,
            })
        else:
            na.append({"property_id": pid, "reason": NOT_YET.get(pid, "check not built yet in this round (planned, see DESIGN.md section 5); not claimed until it runs clean on the unchanged tree")})
    m = {
        "version": 1,
        "setup_cmd": "./setup.sh",
        "hooks": {
            "guard": "none (no source hooks: instrumentation and scaled constants are applied with `go build -overlay`, generated from /repo's working tree at check time; build tag `vsched` only selects harness-side files under /verif)",
            "enable": "./bin/vcheck <ID> generates the overlay under /verif/_build/<id>/<variant>/overlay.json and builds with `go build -overlay`",
            "baseline_off_cmd": BASELINE_OFF,
            "source_commits": [],
            "add_only": True,
        },
        "engines": [
            {"name": "E1", "path": "/verif/lib/explore + /verif/lib/runner", "serves_properties": sorted(CHECKS.keys()), "kind_free_text": "choice-tape / odometer explorer: bounded exhaustive enumeration of inputs, environment answers, fault sequences and crash points of the real implementation, sharded over worker processes"},
            {"name": "E2", "path": "/verif/lib/instr + /verif/engine/vsched", "serves_properties": [p for p in ("C02", "C06", "C12", "C15", "C16", "C18", "C19") if p in CHECKS], "kind_free_text": "controlled cooperative scheduler for the real goroutines (source-level instrumentation through a build overlay), preemption-bounded DFS over interleavings"},
        ],
        "checks": checks,
        "not_applicable": na,
        "notes": "Exit codes: 0 held (possibly with KNOWN-FINDING lines), 1 VIOLATION, 2 harness error. known_findings.json lists fixed and known genuine defects. Mutants used to demonstrate detection are under /verif/seeded.",
    }
    json.dump(m, open(os.path.join(ROOT, "MANIFEST.json"), "w"), indent=1)
    print("wrote MANIFEST.json with", len(checks), "checks,", len(na), "not claimed")

if __name__ == "__main__":
    main()
