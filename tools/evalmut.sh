#!/bin/bash
# usage: tools/evalmut.sh <mutant-dir> <tier> <check-id>...
# Applies <mutant-dir>/patch.diff in a scratch worktree of /repo, maps the changed files
# through VERIF_MUTANT_OVERLAY (so /repo itself is untouched) and runs the named checks.
set -u
cd "$(dirname "$0")/.."
export GOFLAGS=-mod=mod GOPROXY=off
mdir=$(cd "$1" && pwd); tier=$2; shift 2
name=$(basename "$mdir")
wt=/tmp/evalmut-$name-$$
git -C /repo worktree add --detach "$wt" >/dev/null 2>&1 || { echo "cannot create worktree"; exit 2; }
trap 'git -C /repo worktree remove --force "$wt" >/dev/null 2>&1; rm -rf "$wt"' EXIT
if ! git -C "$wt" apply "$mdir/patch.diff"; then echo "PATCH DOES NOT APPLY: $name"; exit 2; fi
python3 - "$wt" <<'PY'
import json,subprocess,sys,os
wt=sys.argv[1]
files=subprocess.check_output(['git','-C',wt,'status','--porcelain'],text=True).splitlines()
rep={}
for l in files:
    st,f=l[:2],l[3:]
    if f.endswith('.go'):
        rep['/repo/'+f]= '' if st.strip()=='D' else os.path.join(wt,f)
json.dump({'Replace':rep},open(os.path.join(wt,'ov.json'),'w'))
print('overlay files:',list(rep))
PY
for id in "$@"; do
  out=$(VERIF_MUTANT_OVERLAY=$wt/ov.json timeout 3000 ./bin/vcheck "$id" --tier "$tier" 2>&1)
  code=$?
  nviol=$(echo "$out" | grep -c '^VIOLATION')
  echo "== $name $id tier=$tier exit=$code violations_lines=$nviol"
  echo "$out" | grep -A1 '^VIOLATION' | grep 'sub=' | sed 's/: .*//' | sort | uniq -c | sort -rn | head -6
  echo "$out" | grep "^$id tier" 
  rm -f replays/${id}-* 2>/dev/null
  # rebuild the clean binary afterwards
  ./bin/vcheck "$id" --build-only >/dev/null 2>&1
done
