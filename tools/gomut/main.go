// gomut lists (and applies) first-order mutations of a Go source file: relational and
// boolean operator swaps, +/- swaps, integer literals +1, negated if/for conditions and
// deleted simple statements. Used by tools/mutscan.py to look for blind spots of the checks
// (a mutant that no check reports is either equivalent or a gap).
//
//	gomut list <file.go>                 one JSON object per line: {"id","line","kind","old","new"}
//	gomut apply <file.go> <id> <out.go>  writes the mutant
package main

import (
	"encoding/json"
	"fmt"
	"go/ast"
	"go/parser"
	"go/token"
	"os"
	"strconv"
)

type site struct {
	ID    int    `json:"id"`
	Line  int    `json:"line"`
	Kind  string `json:"kind"`
	Old   string `json:"old"`
	New   string `json:"new"`
	Ctx   string `json:"ctx"` // source text of the enclosing expression or statement
	start int
	end   int
}

var swaps = map[token.Token]token.Token{
	token.LSS: token.LEQ, token.LEQ: token.LSS, token.GTR: token.GEQ, token.GEQ: token.GTR,
	token.EQL: token.NEQ, token.NEQ: token.EQL, token.LAND: token.LOR, token.LOR: token.LAND,
	token.ADD: token.SUB, token.SUB: token.ADD,
}

func sites(path string) ([]site, []byte) {
	src, err := os.ReadFile(path)
	if err != nil {
		panic(err)
	}
	fset := token.NewFileSet()
	f, err := parser.ParseFile(fset, path, src, 0)
	if err != nil {
		panic(err)
	}
	off := func(p token.Pos) int { return fset.Position(p).Offset }
	var out []site
	ctx := ""
	add := func(kind string, s, e int, nw string, pos token.Pos) {
		c := ctx
		if c == "" {
			c = string(src[s:e])
		}
		if len(c) > 200 {
			c = c[:200]
		}
		out = append(out, site{ID: len(out), Line: fset.Position(pos).Line, Kind: kind, Old: string(src[s:e]), New: nw, Ctx: c, start: s, end: e})
	}
	for _, d := range f.Decls {
		fd, ok := d.(*ast.FuncDecl)
		if !ok || fd.Body == nil {
			continue
		}
		ast.Inspect(fd.Body, func(n ast.Node) bool {
			switch v := n.(type) {
			case *ast.BinaryExpr:
				ctx = string(src[off(v.Pos()):off(v.End())])
				defer func() { ctx = "" }()
				if nw, ok := swaps[v.Op]; ok {
					// string concatenation: leave + alone when an operand is a string literal
					if v.Op == token.ADD {
						if bl, ok := v.X.(*ast.BasicLit); ok && bl.Kind == token.STRING {
							return true
						}
						if bl, ok := v.Y.(*ast.BasicLit); ok && bl.Kind == token.STRING {
							return true
						}
					}
					s := off(v.OpPos)
					add("op", s, s+len(v.Op.String()), nw.String(), v.OpPos)
				}
				for _, o := range []ast.Expr{v.X, v.Y} {
					if bl, ok := o.(*ast.BasicLit); ok && bl.Kind == token.INT {
						if n, err := strconv.ParseInt(bl.Value, 0, 64); err == nil && n < 1<<30 {
							add("lit", off(bl.Pos()), off(bl.End()), strconv.FormatInt(n+1, 10), bl.Pos())
						}
					}
				}
			case *ast.IfStmt:
				if v.Cond != nil {
					s, e := off(v.Cond.Pos()), off(v.Cond.End())
					add("negate-if", s, e, "!("+string(src[s:e])+")", v.Cond.Pos())
				}
			case *ast.ForStmt:
				if v.Cond != nil {
					if be, ok := v.Cond.(*ast.BinaryExpr); ok && (be.Op == token.LAND || be.Op == token.LOR) {
						_ = be
					}
				}
			case *ast.BlockStmt:
				for _, st := range v.List {
					switch x := st.(type) {
					case *ast.ExprStmt:
						if _, ok := x.X.(*ast.CallExpr); ok {
							add("del-call", off(x.Pos()), off(x.End()), "", x.Pos())
						}
					case *ast.IncDecStmt:
						add("del-incdec", off(x.Pos()), off(x.End()), "", x.Pos())
					case *ast.AssignStmt:
						if x.Tok != token.DEFINE {
							add("del-assign", off(x.Pos()), off(x.End()), "", x.Pos())
						}
					case *ast.BranchStmt:
						if x.Label == nil && (x.Tok == token.CONTINUE || x.Tok == token.BREAK) {
							add("del-branch", off(x.Pos()), off(x.End()), "", x.Pos())
						}
					}
				}
			}
			return true
		})
	}
	return out, src
}

func main() {
	if len(os.Args) < 3 {
		fmt.Fprintln(os.Stderr, "usage: gomut list <file> | gomut apply <file> <id> <out>")
		os.Exit(2)
	}
	ss, src := sites(os.Args[2])
	switch os.Args[1] {
	case "list":
		enc := json.NewEncoder(os.Stdout)
		for _, s := range ss {
			enc.Encode(s)
		}
	case "apply":
		id, _ := strconv.Atoi(os.Args[3])
		s := ss[id]
		out := append(append(append([]byte{}, src[:s.start]...), s.New...), src[s.end:]...)
		if err := os.WriteFile(os.Args[4], out, 0o644); err != nil {
			panic(err)
		}
	}
}
