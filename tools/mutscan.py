#!/usr/bin/env python3
"""usage: tools/mutscan.py [--per-file N] [--tier quick] [--files f1,f2,...] [--out results.jsonl]
First-order mutation scan of the anchored files of /repo against the checks that own them
(properties.jsonl: files -> property ids). For every sampled mutation site (tools/gomut):
build the repository with the mutant (overlay, /repo untouched), run the owning checks at the
given tier until one reports a VIOLATION; for mutants no check reports, run the repository's
own test suite too. Results: one JSON line per mutant; a summary at the end. Survivors are
either equivalent mutants or blind spots: read them.
Run it from a snapshot (vp run) or when nothing else uses bin/ and evidence/."""
import json, os, subprocess, sys, argparse, time, shutil
ROOT = os.path.dirname(os.path.dirname(os.path.abspath(__file__)))
ENV = dict(os.environ, GOFLAGS='-mod=mod', GOPROXY='off')
ap = argparse.ArgumentParser()
ap.add_argument('--per-file', type=int, default=10)
ap.add_argument('--tier', default='quick')
ap.add_argument('--files', default='')
ap.add_argument('--out', default=os.path.join(ROOT, '_build', 'mutscan.jsonl'))
ap.add_argument('--offset', type=int, default=0, help='shift of the sampling stride (to draw another sample)')
args = ap.parse_args()

owners = {}
for l in open(os.path.join(ROOT, 'properties.jsonl')):
    p = json.loads(l)
    for f in p['anchors']['files']:
        owners.setdefault(f, []).append(p['id'])
files = [f for f in args.files.split(',') if f] or sorted(owners)
gomut = os.path.join(ROOT, 'bin', 'gomut')
if not os.path.exists(gomut):
    subprocess.check_call(['go', 'build', '-o', gomut, './tools/gomut'], cwd=ROOT, env=ENV)
scratch = os.path.join(ROOT, '_build', 'mutscan')
shutil.rmtree(scratch, ignore_errors=True)
os.makedirs(scratch)
os.makedirs(os.path.dirname(args.out), exist_ok=True)
out = open(args.out, 'a')
summary = {}
t00 = time.time()
for f in files:
    src = os.path.join('/repo', f)
    if not os.path.exists(src) or f.endswith('.pb.go'):
        continue
    sites = [json.loads(l) for l in subprocess.check_output([gomut, 'list', src], text=True).splitlines()]
    # error plumbing is not what the properties are about
    sites = [s for s in sites if 'err' not in (s['old'] + ' ' + s.get('ctx', '')).lower() and 'debugf' not in s['old'] and 'Debugf' not in s['old'] and 'Progress' not in s['old']]
    if not sites:
        continue
    step = max(1, len(sites) // args.per_file)
    chosen = sites[args.offset % step::step][:args.per_file]
    for s in chosen:
        mfile = os.path.join(scratch, 'm.go')
        subprocess.check_call([gomut, 'apply', src, str(s['id']), mfile])
        ov = os.path.join(scratch, 'ov.json')
        json.dump({'Replace': {src: mfile}}, open(ov, 'w'))
        rec = {'file': f, 'line': s['line'], 'kind': s['kind'], 'old': s['old'][:80], 'new': s['new'][:80], 'id': s['id']}
        b = subprocess.run(['go', 'build', '-overlay', ov, './...'], cwd='/repo', env=ENV, capture_output=True, text=True)
        if b.returncode != 0:
            rec['status'] = 'does-not-build'
        else:
            rec['status'] = 'survived'
            rec['checks'] = {}
            for cid in owners.get(f, []):
                t0 = time.time()
                r = subprocess.run([os.path.join(ROOT, 'bin', 'vcheck'), cid, '--tier', args.tier], cwd=ROOT,
                                   env=dict(ENV, VERIF_MUTANT_OVERLAY=ov), capture_output=True, text=True)
                viol = [l for l in r.stdout.splitlines() if l.startswith('VIOLATION')]
                fps = sorted(set(l.split('fingerprint=')[1].split(':')[0] + ':' + l.split('fingerprint=')[1].split(':')[1].split(' ')[0]
                                 for l in r.stdout.splitlines() if 'fingerprint=' in l and ':' in l.split('fingerprint=')[1]))[:3]
                rec['checks'][cid] = {'exit': r.returncode, 'violations': len(viol), 'fps': fps, 'secs': round(time.time() - t0, 1)}
                for p in os.listdir(os.path.join(ROOT, 'replays')) if os.path.isdir(os.path.join(ROOT, 'replays')) else []:
                    if p.startswith(cid + '-'):
                        os.remove(os.path.join(ROOT, 'replays', p))
                if viol:
                    rec['status'] = 'killed'
                    rec['by'] = cid
                    break
                if r.returncode == 2:
                    rec['status'] = 'harness-error'
                    rec['by'] = cid
                    break
            if rec['status'] == 'survived':
                t = subprocess.run(['go', 'test', '-overlay', ov, '-vet=off', '-count=1', '-timeout', '10m', './...'], cwd='/repo', env=ENV, capture_output=True, text=True)
                rec['suite'] = 'pass' if t.returncode == 0 else 'fail'
                rec['status'] = 'survived-checks-and-suite' if t.returncode == 0 else 'survived-checks-only'
        summary[rec['status']] = summary.get(rec['status'], 0) + 1
        out.write(json.dumps(rec) + '\n')
        out.flush()
        print('%6.0fs %-28s %s:%d %s %r -> %r %s' % (time.time() - t00, rec['status'], f, s['line'], s['kind'], rec['old'][:30], rec['new'][:30], rec.get('by', '')), flush=True)
print('SUMMARY', json.dumps(summary))
