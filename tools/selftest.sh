#!/bin/bash
# Self-tests of the machinery (not of wharf): scheduler semantics and the instrumenter.
set -e
cd "$(dirname "$0")/.."
export GOFLAGS=-mod=mod GOPROXY=off
go test -count=1 -tags vsched ./engine/vsched/
go test -count=1 ./lib/instr/ ./lib/explore/ ./lib/runner/ 2>&1 | grep -v "no test files" || true
