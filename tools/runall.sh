#!/bin/bash
# usage: tools/runall.sh quick|thorough  — runs every check on the current tree, one after the other
cd "$(dirname "$0")/.."
tier=${1:-quick}
for id in C01 C02 C03 C04 C05 C06 C07 C08 C09 C10 C11 C12 C13 C14 C15 C16 C17 C18 C19; do
  start=$(date +%s)
  out=$(./bin/vcheck $id --tier $tier 2>&1); code=$?
  end=$(date +%s)
  echo "$id exit=$code wall=$((end-start))s $(echo "$out" | grep "^$id tier" | sed 's/^[^ ]* //')"
  echo "$out" | grep "^VIOLATION\|harness error" | head -5
done
