#!/usr/bin/env python3
"""usage: tools/adopt_mut.py <mutant-dir> [<check-id> [<tier>]]
Copies a confirmed seeded change (patch.diff, demonstration, run_demo.sh, confirm.log) into
/verif/seeded/<id>/ and writes its meta.json from the author's meta.json plus what
tools/confirm_mut.sh established (confirm.log must exist)."""
import json, os, re, shutil, sys, glob
src = os.path.abspath(sys.argv[1]); mid = os.path.basename(src)
check = sys.argv[2] if len(sys.argv) > 2 else mid.split('-')[0]
tier = sys.argv[3] if len(sys.argv) > 3 else 'quick'
root = os.path.join(os.path.dirname(os.path.abspath(__file__)), '..')
dst = os.path.join(root, 'seeded', mid)
os.makedirs(dst, exist_ok=True)
am = json.load(open(os.path.join(src, 'meta.json')))
log = open(os.path.join(src, 'confirm.log')).read()
shutil.copy(os.path.join(src, 'patch.diff'), dst)
shutil.copy(os.path.join(src, 'confirm.log'), dst)
if os.path.exists(os.path.join(src, 'run_demo.sh')):
    shutil.copy(os.path.join(src, 'run_demo.sh'), dst)
demos = glob.glob(os.path.join(src, 'zz_demo*_test.go'))
for d in demos:
    shutil.copy(d, os.path.join(dst, os.path.basename(d) + '.txt'))
m = re.search(r'== demo with the change: go test -run (\S+) \./(\S+)/ \(exit (\d+)\)', log)
pat, pkg, with_code = m.group(1), m.group(2), int(m.group(3))
m2 = re.search(r'== demo without the change \(exit (\d+)\)', log)
without_code = int(m2.group(1))
suite_tail = log.split('== demo with the change')[0]
suite_ok = not re.search(r'^(FAIL|--- FAIL|panic:)', suite_tail, re.M)
meta = {
    'property': am.get('property', mid.split('-')[0]),
    'summary': am.get('summary', ''),
    'needs_to_manifest': am.get('needs_to_manifest', ''),
    'files_changed': am.get('files_changed', []),
    'author': 'independent sub-agent given only the property text and a scratch worktree of /repo (nothing from /verif)',
    'confirmed_by_us': {
        'patch_applies_to_repo_head': True, 'builds': True,
        'suite_passes_with_change': suite_ok,
        'demo_fails_with_change': with_code != 0,
        'demo_passes_without_change': without_code == 0,
        'how': 'tools/confirm_mut.sh: scratch worktree of /repo, git apply patch.diff, go build ./..., go test -vet=off -count=1 ./... ; then go test -run %s ./%s/ with the demo test placed in the package, with the change and after git apply -R (see confirm.log)' % (pat, pkg),
    },
    'demo': 'zz_demo*_test.go.txt (copy into %s/ without the .txt suffix; go test -vet=off -count=1 -run %s ./%s/)' % (pkg, pat, pkg),
    'detection': {'command': 'tools/evalmut.sh seeded/%s %s %s' % (mid, tier, check)},
}
old = os.path.join(dst, 'meta.json')
if os.path.exists(old):
    try:
        meta['detection'].update({k: v for k, v in json.load(open(old)).get('detection', {}).items() if k != 'command'})
    except Exception:
        pass
json.dump(meta, open(old, 'w'), indent=1)
print(mid, 'adopted: suite', suite_ok, 'with', with_code, 'without', without_code)
