#!/bin/bash
# Builds the framework offline from files on disk only.
set -e
cd "$(dirname "$0")"
export GOFLAGS=-mod=mod GOPROXY=off
cp /repo/go.sum go.sum
mkdir -p bin evidence replays
go build -o bin/vcheck ./cmd/vcheck
# warm the build cache: build every check (and its variants) once
for d in checks/c*/; do
  id=$(basename "$d")
  ./bin/vcheck "$id" --build-only || true
done
echo "setup done"
