// vcheck builds a check (and its overlay variants) from /repo's current working
// tree and runs it: vcheck C11 --tier quick | --replay <file>
package main

import (
	"encoding/json"
	"fmt"
	"os"
	"os/exec"
	"path/filepath"
	"strings"
	"sync"
	"syscall"

	"verif/lib/instr"
)

type variantSpec struct {
	// Consts: "<pkg dir relative to /repo>:<Name>" -> Go expression
	Consts map[string]string `json:"consts"`
	// LocalConsts: "<pkg dir>:<Func>:<Name>" -> Go expression
	LocalConsts map[string]string `json:"local_consts"`
	// Sched: package dirs (relative to /repo) to instrument for the controlled scheduler
	Sched []string `json:"sched"`
	// VisibleCalls: callee prefixes that get a scheduling point (e.g. "os.", "screw.")
	VisibleCalls []string `json:"visible_calls"`
	// Race builds the variant with -race (free-running race pass)
	Race bool `json:"race"`
	// ScaleCaps: rewrite make(chan T, K) in the instrumented packages
	ScaleCaps bool `json:"scale_caps"`
	// SplitRMW: variables whose x++ / x-- is split at a scheduling point (race-directed)
	SplitRMW []string `json:"split_rmw"`
	// Replace: textual replacements [file relative to /repo, old, new]; old must occur
	// exactly once, otherwise the variant is skipped (never an alarm)
	Replace [][3]string `json:"replace"`
}

type spec struct {
	Variants map[string]variantSpec `json:"variants"`
}

func repoRoot() string {
	if r := os.Getenv("VERIF_REPO"); r != "" {
		return r
	}
	return "/repo"
}

func main() {
	if len(os.Args) < 2 {
		fmt.Fprintln(os.Stderr, "usage: vcheck <ID> [--tier quick|thorough] [--replay file] [--build-only]")
		os.Exit(2)
	}
	id := os.Args[1]
	rest := os.Args[2:]
	buildOnly := false
	var pass []string
	for _, a := range rest {
		if a == "--build-only" {
			buildOnly = true
		} else {
			pass = append(pass, a)
		}
	}
	root, _ := os.Getwd()
	if r := os.Getenv("VERIF_ROOT"); r != "" {
		root = r
	}
	os.Setenv("VERIF_ROOT", root)
	os.Setenv("GOFLAGS", "-mod=mod")
	os.Setenv("GOPROXY", "off")
	lid := strings.ToLower(id)
	pkg := "./checks/" + lid
	if _, err := os.Stat(filepath.Join(root, "checks", lid)); err != nil {
		fmt.Fprintf(os.Stderr, "no such check %s\n", id)
		os.Exit(2)
	}
	bin := filepath.Join(root, "bin", lid)
	os.MkdirAll(filepath.Join(root, "bin"), 0o755)

	var sp spec
	if b, err := os.ReadFile(filepath.Join(root, "checks", lid, "variants.json")); err == nil {
		if err := json.Unmarshal(b, &sp); err != nil {
			fmt.Fprintf(os.Stderr, "variants.json: %v\n", err)
			os.Exit(2)
		}
	}

	// VERIF_MUTANT_OVERLAY: an extra {"Replace":{...}} overlay applied to every
	// build (used to demonstrate that a check detects a deliberate change
	// without touching /repo).
	mutant := map[string]string{}
	if mp := os.Getenv("VERIF_MUTANT_OVERLAY"); mp != "" {
		b, err := os.ReadFile(mp)
		var mo struct{ Replace map[string]string }
		if err != nil || json.Unmarshal(b, &mo) != nil {
			fmt.Fprintf(os.Stderr, "cannot read mutant overlay %s\n", mp)
			os.Exit(2)
		}
		mutant = mo.Replace
		fmt.Fprintf(os.Stderr, "vcheck: building with mutant overlay %s (%d files)\n", mp, len(mutant))
	}

	var wg sync.WaitGroup
	var mu sync.Mutex
	failed := false
	build := func(name string, args ...string) {
		defer wg.Done()
		cmd := exec.Command("go", args...)
		cmd.Dir = root
		out, err := cmd.CombinedOutput()
		if err != nil {
			mu.Lock()
			fmt.Fprintf(os.Stderr, "build of %s failed: %v\n%s\n", name, err, out)
			if name == "" {
				failed = true
			} else {
				// a variant that cannot be built is reported as skipped by the runner
				os.Remove(bin + "." + name)
			}
			mu.Unlock()
		}
	}
	wg.Add(1)
	if len(mutant) > 0 {
		odir := filepath.Join(root, "_build", lid, "_plain")
		os.RemoveAll(odir)
		os.MkdirAll(odir, 0o755)
		ovPath := filepath.Join(odir, "overlay.json")
		b, _ := json.MarshalIndent(map[string]any{"Replace": mutant}, "", " ")
		os.WriteFile(ovPath, b, 0o644)
		go build("", "build", "-overlay", ovPath, "-o", bin, pkg)
	} else {
		go build("", "build", "-o", bin, pkg)
	}
	for name, vs := range sp.Variants {
		out := bin + "." + name
		os.Remove(out)
		odir := filepath.Join(root, "_build", lid, name)
		os.RemoveAll(odir)
		ov := instr.NewOverlay(odir)
		for k, v := range mutant {
			ov.Replace[k] = v
		}
		ok := true
		for k, v := range vs.Consts {
			p := strings.SplitN(k, ":", 2)
			if err := ov.SetConst(filepath.Join(repoRoot(), p[0]), p[1], v); err != nil {
				fmt.Fprintf(os.Stderr, "variant %s skipped: %v\n", name, err)
				ok = false
			}
		}
		for _, rp := range vs.Replace {
			path := filepath.Join(repoRoot(), rp[0])
			src, err := ov.Current(path)
			if err == nil && strings.Count(string(src), rp[1]) != 1 {
				err = fmt.Errorf("%q occurs %d times in %s", rp[1], strings.Count(string(src), rp[1]), rp[0])
			}
			if err == nil {
				err = ov.Put(path, []byte(strings.Replace(string(src), rp[1], rp[2], 1)))
			}
			if err != nil {
				fmt.Fprintf(os.Stderr, "variant %s skipped: %v\n", name, err)
				ok = false
			}
		}
		for k, v := range vs.LocalConsts {
			p := strings.SplitN(k, ":", 3)
			if err := ov.SetLocalConst(filepath.Join(repoRoot(), p[0]), p[1], p[2], v); err != nil {
				fmt.Fprintf(os.Stderr, "variant %s skipped: %v\n", name, err)
				ok = false
			}
		}
		if ok && len(vs.Sched) > 0 {
			if err := instr.Instrument(ov, repoRoot(), root, instr.Options{Packages: vs.Sched, VisibleCalls: vs.VisibleCalls, ScaleCaps: vs.ScaleCaps, SplitRMW: vs.SplitRMW}); err != nil {
				fmt.Fprintf(os.Stderr, "variant %s: instrumentation failed: %v\n", name, err)
				ok = false
			}
		}
		if !ok {
			continue
		}
		ovPath := filepath.Join(odir, "overlay.json")
		b, _ := json.MarshalIndent(map[string]any{"Replace": ov.Replace}, "", " ")
		os.WriteFile(ovPath, b, 0o644)
		args := []string{"build", "-overlay", ovPath, "-o", out}
		if vs.Race {
			args = append(args, "-race")
		}
		if len(vs.Sched) > 0 {
			args = append(args, "-tags", "vsched")
		}
		args = append(args, pkg)
		wg.Add(1)
		go build(name, args...)
	}
	wg.Wait()
	if failed {
		os.Exit(2)
	}
	if buildOnly {
		return
	}
	err := syscall.Exec(bin, append([]string{bin}, pass...), os.Environ())
	fmt.Fprintln(os.Stderr, err)
	os.Exit(2)
}
