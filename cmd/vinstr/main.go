// vinstr instruments packages of /repo for the controlled scheduler and prints
// the overlay file to use with `go build -overlay` (debugging / self-check tool;
// vcheck calls the same library).
package main

import (
	"encoding/json"
	"flag"
	"fmt"
	"os"
	"path/filepath"
	"strings"

	"verif/lib/instr"
)

func main() {
	out := flag.String("out", "", "output directory for the overlay")
	pk := flag.String("pkgs", "", "comma separated package dirs relative to the repo")
	vis := flag.String("visible", "", "comma separated visible call patterns")
	repo := flag.String("repo", "/repo", "repository root")
	scale := flag.Bool("scalecaps", false, "scale literal channel capacities")
	flag.Parse()
	root, _ := os.Getwd()
	ov := instr.NewOverlay(*out)
	opt := instr.Options{Packages: strings.Split(*pk, ","), ScaleCaps: *scale}
	if *vis != "" {
		opt.VisibleCalls = strings.Split(*vis, ",")
	}
	if err := instr.Instrument(ov, *repo, root, opt); err != nil {
		fmt.Fprintln(os.Stderr, err)
		os.Exit(2)
	}
	b, _ := json.MarshalIndent(map[string]any{"Replace": ov.Replace}, "", " ")
	p := filepath.Join(*out, "overlay.json")
	os.WriteFile(p, b, 0o644)
	fmt.Println(p)
}
