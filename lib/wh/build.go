// Package wh is the shared harness library around wharf: build generator over a
// block alphabet, independent tree oracle, diff/apply/optimize wrappers and an
// independent decoder of patch/signature/wounds streams.
package wh

import (
	"crypto/sha256"
	"encoding/binary"
	"encoding/hex"
	"fmt"
	"math/rand"
	"os"
	"path/filepath"
	"sort"
	"strconv"
	"strings"
	"sync"
)

const B = 64 * 1024 // pwr.BlockSize

// Entry is one entry of a build. Kind: "f" file (Content spec), "d" empty or
// explicit directory, "l" symlink (Dest).
type Entry struct {
	Path    string `json:"p"`
	Kind    string `json:"k"`
	Content string `json:"c,omitempty"`
	Dest    string `json:"d,omitempty"`
	Mode    uint32 `json:"m,omitempty"`
}

// Build is a directory tree description.
type Build []Entry

func F(path, content string) Entry { return Entry{Path: path, Kind: "f", Content: content} }
func D(path string) Entry          { return Entry{Path: path, Kind: "d"} }

// FM is F with explicit permission bits.
func FM(path, content string, mode uint32) Entry {
	return Entry{Path: path, Kind: "f", Content: content, Mode: mode}
}
func L(path, dest string) Entry { return Entry{Path: path, Kind: "l", Dest: dest} }

var (
	blockMu    sync.Mutex
	blockCache = map[string][]byte{}
)

func seededBytes(seed int64, tag string, n int) []byte {
	key := fmt.Sprintf("%d|%s|%d", seed, tag, n)
	blockMu.Lock()
	if b, ok := blockCache[key]; ok {
		blockMu.Unlock()
		return b
	}
	blockMu.Unlock()
	h := sha256.Sum256([]byte(fmt.Sprintf("%d|%s", seed, tag)))
	rng := rand.New(rand.NewSource(int64(binary.LittleEndian.Uint64(h[:8]))))
	b := make([]byte, n)
	rng.Read(b)
	blockMu.Lock()
	if len(blockCache) > 64 {
		for k := range blockCache {
			delete(blockCache, k)
			break
		}
	}
	blockCache[key] = b
	blockMu.Unlock()
	return b
}

// Content materialises a content spec: tokens joined by '.':
//
//	A..Y       one 64KiB pseudo-random block (derived from seed and the letter)
//	a..y       the "weak twin" of block A..Y: three neighbouring bytes changed by +1, -2, +1,
//	           which keeps both sums of the rolling checksum (same weak hash, other strong hash)
//	Z          one 64KiB block of zeros
//	A/123      the first 123 bytes of block A
//	r7/5000    5000 pseudo-random bytes of stream 7 (any length; same prefix for same stream)
//	z/100      100 zero bytes
//	=text      literal bytes
//
// The empty spec is the empty file.
func Content(spec string, seed int64) []byte {
	if spec == "" {
		return nil
	}
	var out []byte
	for _, tok := range strings.Split(spec, ".") {
		switch {
		case tok == "":
		case tok[0] == '=':
			out = append(out, tok[1:]...)
		case tok == "Z":
			out = append(out, make([]byte, B)...)
		case len(tok) == 1 && tok[0] >= 'A' && tok[0] <= 'Y':
			out = append(out, seededBytes(seed, tok, B)...)
		case len(tok) == 1 && tok[0] >= 'a' && tok[0] <= 'y':
			out = append(out, WeakTwin(seededBytes(seed, strings.ToUpper(tok), B))...)
		case len(tok) > 2 && tok[1] == '/' && tok[0] >= 'A' && tok[0] <= 'Y':
			n, err := strconv.Atoi(tok[2:])
			if err != nil || n > B {
				panic("bad content token " + tok)
			}
			out = append(out, seededBytes(seed, tok[:1], B)[:n]...)
		case strings.HasPrefix(tok, "z/"):
			n, _ := strconv.Atoi(tok[2:])
			out = append(out, make([]byte, n)...)
		case tok[0] == 'r':
			i := strings.IndexByte(tok, '/')
			if i < 0 {
				panic("bad content token " + tok)
			}
			n, err := strconv.Atoi(tok[i+1:])
			if err != nil {
				panic("bad content token " + tok)
			}
			// streams are generated in 1MiB chunks so prefixes agree
			const chunk = 1 << 20
			for off := 0; off < n; off += chunk {
				c := seededBytes(seed, fmt.Sprintf("%s#%d", tok[:i], off/chunk), chunk)
				m := n - off
				if m > chunk {
					m = chunk
				}
				out = append(out, c[:m]...)
			}
		default:
			panic("bad content token " + tok)
		}
	}
	return out
}

// WeakTwin returns a copy of b in which three neighbouring bytes are changed by
// +1, -2, +1 (no byte wraps): the byte sum and the position-weighted byte sum, and
// hence wsync's weak hash of any window containing all three, stay the same.
func WeakTwin(b []byte) []byte {
	out := append([]byte{}, b...)
	for i := len(b) / 3; i+2 < len(b); i++ {
		if out[i] < 255 && out[i+1] >= 2 && out[i+2] < 255 {
			out[i]++
			out[i+1] -= 2
			out[i+2]++
			return out
		}
	}
	panic("wh.WeakTwin: no suitable position")
}

// Materialize writes the build under dir (created).
func (b Build) Materialize(dir string, seed int64) error {
	if err := os.MkdirAll(dir, 0o755); err != nil {
		return err
	}
	for _, e := range b {
		p := filepath.Join(dir, filepath.FromSlash(e.Path))
		switch e.Kind {
		case "d":
			if err := os.MkdirAll(p, 0o755); err != nil {
				return err
			}
		case "f":
			if err := os.MkdirAll(filepath.Dir(p), 0o755); err != nil {
				return err
			}
			mode := os.FileMode(0o644)
			if e.Mode != 0 {
				mode = os.FileMode(e.Mode)
			}
			if err := os.WriteFile(p, Content(e.Content, seed), mode); err != nil {
				return err
			}
		case "l":
			if err := os.MkdirAll(filepath.Dir(p), 0o755); err != nil {
				return err
			}
			if err := os.Symlink(e.Dest, p); err != nil {
				return err
			}
		default:
			return fmt.Errorf("bad entry kind %q", e.Kind)
		}
	}
	return nil
}

// Snap is one entry of a directory snapshot.
type Snap struct {
	Kind string // f d l
	Size int64
	Sum  string
	Dest string
	Ino  uint64
	Mtim int64
	Mode uint32
}

// Snapshot walks dir with Lstat (independent of tlc).
func Snapshot(dir string) (map[string]Snap, error) {
	out := map[string]Snap{}
	err := filepath.Walk(dir, func(p string, info os.FileInfo, err error) error {
		if err != nil {
			return err
		}
		rel, _ := filepath.Rel(dir, p)
		if rel == "." {
			return nil
		}
		rel = filepath.ToSlash(rel)
		s := Snap{Mode: uint32(info.Mode().Perm()), Mtim: info.ModTime().UnixNano()}
		s.Ino = inode(info)
		switch {
		case info.Mode()&os.ModeSymlink != 0:
			s.Kind = "l"
			s.Dest, _ = os.Readlink(p)
		case info.IsDir():
			s.Kind = "d"
		default:
			s.Kind = "f"
			b, err := os.ReadFile(p)
			if err != nil {
				return err
			}
			s.Size = int64(len(b))
			h := sha256.Sum256(b)
			s.Sum = hex.EncodeToString(h[:8])
		}
		out[rel] = s
		return nil
	})
	if os.IsNotExist(err) {
		return out, nil
	}
	return out, err
}

// DiffSnaps lists the differences between two snapshots (kind, content, dest,
// presence). Inode, mtime and mode are ignored unless strict.
func DiffSnaps(got, want map[string]Snap, strict bool) []string {
	var d []string
	for p, w := range want {
		g, ok := got[p]
		if !ok {
			d = append(d, fmt.Sprintf("missing %s (%s)", p, w.Kind))
			continue
		}
		if g.Kind != w.Kind {
			d = append(d, fmt.Sprintf("kind of %s: got %s want %s", p, g.Kind, w.Kind))
			continue
		}
		if g.Kind == "f" && (g.Size != w.Size || g.Sum != w.Sum) {
			d = append(d, fmt.Sprintf("content of %s: got %d bytes (%s) want %d bytes (%s)", p, g.Size, g.Sum, w.Size, w.Sum))
		}
		if g.Kind == "l" && g.Dest != w.Dest {
			d = append(d, fmt.Sprintf("dest of %s: got %q want %q", p, g.Dest, w.Dest))
		}
		if strict && (g.Ino != w.Ino || g.Mtim != w.Mtim) {
			d = append(d, fmt.Sprintf("%s was rewritten (inode/mtime changed)", p))
		}
	}
	for p, g := range got {
		if _, ok := want[p]; !ok {
			d = append(d, fmt.Sprintf("extra %s (%s)", p, g.Kind))
		}
	}
	sort.Strings(d)
	return d
}

// MissingOrWrong is DiffSnaps without the "extra" entries (C06 allows extras).
func MissingOrWrong(got, want map[string]Snap) []string {
	var d []string
	for _, s := range DiffSnaps(got, want, false) {
		if !strings.HasPrefix(s, "extra ") {
			d = append(d, s)
		}
	}
	return d
}

// CopyTree copies src to dst (files, dirs, symlinks).
func CopyTree(src, dst string) error {
	return filepath.Walk(src, func(p string, info os.FileInfo, err error) error {
		if err != nil {
			return err
		}
		rel, _ := filepath.Rel(src, p)
		t := filepath.Join(dst, rel)
		switch {
		case info.Mode()&os.ModeSymlink != 0:
			dest, err := os.Readlink(p)
			if err != nil {
				return err
			}
			return os.Symlink(dest, t)
		case info.IsDir():
			return os.MkdirAll(t, 0o755)
		default:
			b, err := os.ReadFile(p)
			if err != nil {
				return err
			}
			return os.WriteFile(t, b, info.Mode().Perm())
		}
	})
}
