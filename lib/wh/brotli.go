package wh

import (
	"bytes"

	"github.com/itchio/go-brotli/enc"
)

func brotliCompress(body []byte, q int) ([]byte, error) {
	var out bytes.Buffer
	w := enc.NewBrotliWriter(&out, &enc.BrotliWriterOptions{Quality: q})
	if _, err := w.Write(body); err != nil {
		return nil, err
	}
	if err := w.Close(); err != nil {
		return nil, err
	}
	return out.Bytes(), nil
}
