package wh

import (
	"os"
	"syscall"
)

func inode(info os.FileInfo) uint64 {
	if st, ok := info.Sys().(*syscall.Stat_t); ok {
		return st.Ino
	}
	return 0
}
