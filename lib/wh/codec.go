package wh

import (
	"bytes"
	"compress/gzip"
	"encoding/binary"
	"fmt"
	"io"

	"github.com/golang/protobuf/proto"
	dsbrotli "github.com/itchio/dskompress/brotli"
	"github.com/itchio/lake/tlc"
	"github.com/itchio/wharf/bsdiff"
	"github.com/itchio/wharf/pwr"
)

// Independent framing: int32 LE magic, then messages = uvarint length + body.
// This decoder does not use wire.ReadContext, savior or kompress (gzip is
// decoded with the standard library).

type rawReader struct {
	b   []byte
	off int
}

func (r *rawReader) magic() (int32, error) {
	if len(r.b)-r.off < 4 {
		return 0, io.ErrUnexpectedEOF
	}
	m := int32(binary.LittleEndian.Uint32(r.b[r.off:]))
	r.off += 4
	return m, nil
}

func (r *rawReader) next() ([]byte, error) {
	if r.off >= len(r.b) {
		return nil, io.EOF
	}
	l, n := binary.Uvarint(r.b[r.off:])
	if n <= 0 {
		return nil, fmt.Errorf("bad uvarint at %d", r.off)
	}
	r.off += n
	if uint64(len(r.b)-r.off) < l {
		return nil, io.ErrUnexpectedEOF
	}
	body := r.b[r.off : r.off+int(l)]
	r.off += int(l)
	return body, nil
}

func (r *rawReader) msg(m proto.Message) error {
	b, err := r.next()
	if err != nil {
		return err
	}
	m.Reset()
	return proto.Unmarshal(b, m)
}

// Decompress inflates the body of a stream according to its settings.
func Decompress(cs *pwr.CompressionSettings, body []byte) ([]byte, error) {
	if cs == nil {
		return nil, fmt.Errorf("no compression settings")
	}
	switch cs.Algorithm {
	case pwr.CompressionAlgorithm_NONE:
		return body, nil
	case pwr.CompressionAlgorithm_GZIP:
		zr, err := gzip.NewReader(bytes.NewReader(body))
		if err != nil {
			return nil, err
		}
		return io.ReadAll(zr)
	case pwr.CompressionAlgorithm_BROTLI:
		br, err := dsbrotli.NewReader(bytes.NewReader(body), nil)
		if err != nil {
			return nil, err
		}
		return io.ReadAll(br)
	}
	return nil, fmt.Errorf("unknown algorithm %v", cs.Algorithm)
}

// Series is the decoded series of one new file.
type Series struct {
	Header *pwr.SyncHeader
	Ops    []*pwr.SyncOp     // rsync series, without the end marker
	Bsdiff *pwr.BsdiffHeader // bsdiff series
	Ctrl   []*bsdiff.Control // bsdiff controls including the Eof one
}

// Patch is a fully decoded patch.
type Patch struct {
	Header *pwr.PatchHeader
	Target *tlc.Container
	Source *tlc.Container
	Series []*Series
}

// DecodePatch decodes a patch stream completely.
func DecodePatch(b []byte) (*Patch, error) {
	r := &rawReader{b: b}
	m, err := r.magic()
	if err != nil {
		return nil, err
	}
	if m != pwr.PatchMagic {
		return nil, fmt.Errorf("bad magic %x", m)
	}
	p := &Patch{Header: &pwr.PatchHeader{}}
	if err := r.msg(p.Header); err != nil {
		return nil, err
	}
	body, err := Decompress(p.Header.Compression, b[r.off:])
	if err != nil {
		return nil, fmt.Errorf("decompress: %w", err)
	}
	r = &rawReader{b: body}
	p.Target, p.Source = &tlc.Container{}, &tlc.Container{}
	if err := r.msg(p.Target); err != nil {
		return nil, err
	}
	if err := r.msg(p.Source); err != nil {
		return nil, err
	}
	for i := range p.Source.Files {
		s := &Series{Header: &pwr.SyncHeader{}}
		if err := r.msg(s.Header); err != nil {
			return nil, fmt.Errorf("file %d header: %w", i, err)
		}
		if s.Header.Type == pwr.SyncHeader_BSDIFF {
			s.Bsdiff = &pwr.BsdiffHeader{}
			if err := r.msg(s.Bsdiff); err != nil {
				return nil, err
			}
			for {
				c := &bsdiff.Control{}
				if err := r.msg(c); err != nil {
					return nil, err
				}
				s.Ctrl = append(s.Ctrl, c)
				if c.Eof {
					break
				}
			}
			op := &pwr.SyncOp{}
			if err := r.msg(op); err != nil {
				return nil, err
			}
			if op.Type != pwr.SyncOp_HEY_YOU_DID_IT {
				return nil, fmt.Errorf("file %d: no end marker after bsdiff series", i)
			}
		} else {
			for {
				op := &pwr.SyncOp{}
				if err := r.msg(op); err != nil {
					return nil, fmt.Errorf("file %d op: %w", i, err)
				}
				if op.Type == pwr.SyncOp_HEY_YOU_DID_IT {
					break
				}
				s.Ops = append(s.Ops, op)
			}
		}
		p.Series = append(p.Series, s)
	}
	if r.off != len(r.b) {
		return nil, fmt.Errorf("%d trailing bytes after the last series", len(r.b)-r.off)
	}
	return p, nil
}

// frame appends one framed message.
func frame(buf *bytes.Buffer, m proto.Message) {
	b, err := proto.Marshal(m)
	if err != nil {
		panic(err)
	}
	var v [10]byte
	n := binary.PutUvarint(v[:], uint64(len(b)))
	buf.Write(v[:n])
	buf.Write(b)
}

// Compress deflates a body with the given settings (encoder side: stdlib gzip;
// brotli goes through wharf's registered compressor since no other encoder is
// available offline).
func Compress(c Comp, body []byte) ([]byte, error) {
	cs := c.Settings()
	switch cs.Algorithm {
	case pwr.CompressionAlgorithm_NONE:
		return body, nil
	case pwr.CompressionAlgorithm_GZIP:
		var out bytes.Buffer
		zw, err := gzip.NewWriterLevel(&out, int(cs.Quality))
		if err != nil {
			return nil, err
		}
		zw.Write(body)
		zw.Close()
		return out.Bytes(), nil
	case pwr.CompressionAlgorithm_BROTLI:
		return brotliCompress(body, int(cs.Quality))
	}
	return nil, fmt.Errorf("unknown algorithm")
}

// Encode re-encodes a (possibly mutated) patch with the given compression.
func (p *Patch) Encode(c Comp) ([]byte, error) {
	var body bytes.Buffer
	frame(&body, p.Target)
	frame(&body, p.Source)
	for _, s := range p.Series {
		s.encode(&body)
	}
	return EncodePatchRaw(c, body.Bytes())
}

func (s *Series) encode(body *bytes.Buffer) {
	frame(body, s.Header)
	if s.Bsdiff != nil {
		frame(body, s.Bsdiff)
		for _, c := range s.Ctrl {
			frame(body, c)
		}
	} else {
		for _, op := range s.Ops {
			frame(body, op)
		}
	}
	frame(body, &pwr.SyncOp{Type: pwr.SyncOp_HEY_YOU_DID_IT})
}

// EncodePatchRaw wraps an already framed body (containers + series) into a
// patch stream.
func EncodePatchRaw(c Comp, body []byte) ([]byte, error) {
	var out bytes.Buffer
	binary.Write(&out, binary.LittleEndian, pwr.PatchMagic)
	frame(&out, &pwr.PatchHeader{Compression: c.Settings()})
	z, err := Compress(c, body)
	if err != nil {
		return nil, err
	}
	out.Write(z)
	return out.Bytes(), nil
}

// Frame exposes the framing for checks that build streams message by message.
func Frame(buf *bytes.Buffer, m proto.Message) { frame(buf, m) }

// Sig is a decoded signature stream.
type Sig struct {
	Header    *pwr.SignatureHeader
	Container *tlc.Container
	Hashes    []*pwr.BlockHash
}

// DecodeSig decodes a signature stream.
func DecodeSig(b []byte) (*Sig, error) {
	r := &rawReader{b: b}
	m, err := r.magic()
	if err != nil {
		return nil, err
	}
	if m != pwr.SignatureMagic {
		return nil, fmt.Errorf("bad magic %x", m)
	}
	s := &Sig{Header: &pwr.SignatureHeader{}, Container: &tlc.Container{}}
	if err := r.msg(s.Header); err != nil {
		return nil, err
	}
	body, err := Decompress(s.Header.Compression, b[r.off:])
	if err != nil {
		return nil, err
	}
	r = &rawReader{b: body}
	if err := r.msg(s.Container); err != nil {
		return nil, err
	}
	for {
		h := &pwr.BlockHash{}
		err := r.msg(h)
		if err == io.EOF {
			break
		}
		if err != nil {
			return nil, err
		}
		s.Hashes = append(s.Hashes, h)
	}
	return s, nil
}

// EncodeSig re-encodes a signature.
func (s *Sig) Encode(c Comp) ([]byte, error) {
	var body bytes.Buffer
	frame(&body, s.Container)
	for _, h := range s.Hashes {
		frame(&body, h)
	}
	var out bytes.Buffer
	binary.Write(&out, binary.LittleEndian, pwr.SignatureMagic)
	frame(&out, &pwr.SignatureHeader{Compression: c.Settings()})
	z, err := Compress(c, body.Bytes())
	if err != nil {
		return nil, err
	}
	out.Write(z)
	return out.Bytes(), nil
}

// DecodeWounds decodes a .pww stream: magic, WoundsHeader, container, wounds.
func DecodeWounds(b []byte) (*tlc.Container, []*pwr.Wound, error) {
	r := &rawReader{b: b}
	m, err := r.magic()
	if err != nil {
		return nil, nil, err
	}
	if m != pwr.WoundsMagic {
		return nil, nil, fmt.Errorf("bad magic %x", m)
	}
	if err := r.msg(&pwr.WoundsHeader{}); err != nil {
		return nil, nil, err
	}
	c := &tlc.Container{}
	if err := r.msg(c); err != nil {
		return nil, nil, err
	}
	var ws []*pwr.Wound
	for {
		w := &pwr.Wound{}
		err := r.msg(w)
		if err == io.EOF {
			break
		}
		if err != nil {
			return nil, nil, err
		}
		ws = append(ws, w)
	}
	return c, ws, nil
}
