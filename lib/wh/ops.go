package wh

import (
	"bytes"
	"context"
	"fmt"
	"os"

	"github.com/itchio/headway/state"
	"github.com/itchio/lake"
	"github.com/itchio/lake/pools/fspool"
	"github.com/itchio/lake/tlc"
	"github.com/itchio/savior/seeksource"
	"github.com/itchio/wharf/pwr"
	"github.com/itchio/wharf/pwr/bowl"
	"github.com/itchio/wharf/pwr/patcher"
	"github.com/itchio/wharf/pwr/rediff"
	"github.com/itchio/wharf/wsync"

	_ "github.com/itchio/wharf/compressors/cbrotli"
	_ "github.com/itchio/wharf/compressors/gzip"
	_ "github.com/itchio/wharf/decompressors/cbrotli"
	_ "github.com/itchio/wharf/decompressors/gzip"
)

// Comp is a compression setting in compact form: "none", "gzip-6", "brotli-1".
type Comp string

func (c Comp) Settings() *pwr.CompressionSettings {
	var algo string
	var q int32
	s := string(c)
	if s == "" || s == "none" {
		return &pwr.CompressionSettings{Algorithm: pwr.CompressionAlgorithm_NONE}
	}
	for i := 0; i < len(s); i++ {
		if s[i] == '-' {
			algo = s[:i]
			fmt.Sscanf(s[i+1:], "%d", &q)
		}
	}
	switch algo {
	case "gzip":
		return &pwr.CompressionSettings{Algorithm: pwr.CompressionAlgorithm_GZIP, Quality: q}
	case "brotli":
		return &pwr.CompressionSettings{Algorithm: pwr.CompressionAlgorithm_BROTLI, Quality: q}
	}
	panic("bad compression " + s)
}

// AllComps lists every registered algorithm x quality.
func AllComps() []Comp {
	out := []Comp{"none"}
	for q := 1; q <= 9; q++ {
		out = append(out, Comp(fmt.Sprintf("gzip-%d", q)))
	}
	for q := 0; q <= 9; q++ {
		out = append(out, Comp(fmt.Sprintf("brotli-%d", q)))
	}
	return out
}

func Quiet() *state.Consumer { return &state.Consumer{} }

func Walk(dir string) (*tlc.Container, error) {
	return tlc.WalkAny(dir, tlc.WalkOpts{})
}

// DiffResult is what Diff returns.
type DiffResult struct {
	Patch, Sig  []byte
	Old, New    *tlc.Container
	OldHashes   []wsync.BlockHash
	Fresh, Reus int64
}

// Diff signs oldDir, then diffs newDir against it with the real DiffContext.
func Diff(oldDir, newDir string, comp Comp) (*DiffResult, error) {
	return DiffWithPool(oldDir, newDir, comp, nil)
}

// DiffWithPool lets the caller wrap the source pool.
func DiffWithPool(oldDir, newDir string, comp Comp, wrap func(lake.Pool) lake.Pool) (*DiffResult, error) {
	oldC, err := Walk(oldDir)
	if err != nil {
		return nil, fmt.Errorf("walk old: %w", err)
	}
	newC, err := Walk(newDir)
	if err != nil {
		return nil, fmt.Errorf("walk new: %w", err)
	}
	oldPool := fspool.New(oldC, oldDir)
	hashes, err := pwr.ComputeSignature(context.Background(), oldC, oldPool, Quiet())
	if err != nil {
		return nil, fmt.Errorf("sign old: %w", err)
	}
	var pool lake.Pool = fspool.New(newC, newDir)
	if wrap != nil {
		pool = wrap(pool)
	}
	dctx := &pwr.DiffContext{
		Compression:     comp.Settings(),
		Consumer:        Quiet(),
		SourceContainer: newC,
		Pool:            pool,
		TargetContainer: oldC,
		TargetSignature: hashes,
	}
	var patch, sig bytes.Buffer
	if err := dctx.WritePatch(context.Background(), &patch, &sig); err != nil {
		return nil, fmt.Errorf("WritePatch: %w", err)
	}
	return &DiffResult{Patch: patch.Bytes(), Sig: sig.Bytes(), Old: oldC, New: newC, OldHashes: hashes, Fresh: dctx.FreshBytes, Reus: dctx.ReusedBytes}, nil
}

// ApplyFresh applies patch to oldDir into outDir (must be empty or absent).
func ApplyFresh(patch []byte, oldDir, outDir string) error {
	src := seeksource.FromBytes(patch)
	p, err := patcher.New(src, Quiet())
	if err != nil {
		return fmt.Errorf("patcher.New: %w", err)
	}
	targetPool := fspool.New(p.GetTargetContainer(), oldDir)
	b, err := bowl.NewFreshBowl(bowl.FreshBowlParams{
		SourceContainer: p.GetSourceContainer(),
		TargetContainer: p.GetTargetContainer(),
		TargetPool:      targetPool,
		OutputFolder:    outDir,
	})
	if err != nil {
		return fmt.Errorf("NewFreshBowl: %w", err)
	}
	defer b.Close()
	if err := p.Resume(nil, targetPool, b); err != nil {
		return fmt.Errorf("Resume: %w", err)
	}
	if err := b.Commit(); err != nil {
		return fmt.Errorf("Commit: %w", err)
	}
	return nil
}

// ApplyInPlace applies patch onto dir through an overlay bowl staged in stageDir.
// beforeCommit (optional) runs after Resume and before Commit.
func ApplyInPlace(patch []byte, dir, stageDir string, beforeCommit func() error) error {
	src := seeksource.FromBytes(patch)
	p, err := patcher.New(src, Quiet())
	if err != nil {
		return fmt.Errorf("patcher.New: %w", err)
	}
	os.MkdirAll(stageDir, 0o755)
	targetPool := fspool.New(p.GetTargetContainer(), dir)
	b, err := bowl.NewOverlayBowl(bowl.OverlayBowlParams{
		SourceContainer: p.GetSourceContainer(),
		TargetContainer: p.GetTargetContainer(),
		StageFolder:     stageDir,
		OutputFolder:    dir,
		Consumer:        Quiet(),
	})
	if err != nil {
		return fmt.Errorf("NewOverlayBowl: %w", err)
	}
	defer b.Close()
	if err := p.Resume(nil, targetPool, b); err != nil {
		return fmt.Errorf("Resume: %w", err)
	}
	if beforeCommit != nil {
		if err := beforeCommit(); err != nil {
			return err
		}
	}
	if err := b.Commit(); err != nil {
		return fmt.Errorf("Commit: %w", err)
	}
	return nil
}

// RediffParams are the optimizer's tuning knobs.
type RediffParams struct {
	Partitions  int   `json:"partitions"`
	Concurrency int   `json:"concurrency"`
	ForceMapAll bool  `json:"force_map_all"`
	SizeLimit   int64 `json:"size_limit"`
	Comp        Comp  `json:"comp"` // "" = optimizer default
}

// Rediff optimizes patch. oldDir/newDir hold the builds.
func Rediff(patch []byte, oldDir, newDir string, rp RediffParams) ([]byte, rediff.DiffMappings, error) {
	var comp *pwr.CompressionSettings
	if rp.Comp != "" {
		comp = rp.Comp.Settings()
	}
	rc, err := rediff.NewContext(rediff.Params{
		PatchReader:           seeksource.FromBytes(patch),
		Consumer:              Quiet(),
		Compression:           comp,
		SuffixSortConcurrency: rp.Concurrency,
		Partitions:            rp.Partitions,
		ForceMapAll:           rp.ForceMapAll,
		RediffSizeLimit:       rp.SizeLimit,
	})
	if err != nil {
		return nil, nil, fmt.Errorf("rediff.NewContext: %w", err)
	}
	var out bytes.Buffer
	err = rc.Optimize(rediff.OptimizeParams{
		TargetPool:  fspool.New(rc.GetTargetContainer(), oldDir),
		SourcePool:  fspool.New(rc.GetSourceContainer(), newDir),
		PatchWriter: &out,
	})
	if err != nil {
		return nil, nil, fmt.Errorf("Optimize: %w", err)
	}
	return out.Bytes(), rc.GetDiffMappings(), nil
}

// ReadSig reads a signature stream with the real reader.
func ReadSig(sig []byte) (*pwr.SignatureInfo, error) {
	src := seeksource.FromBytes(sig)
	if _, err := src.Resume(nil); err != nil {
		return nil, err
	}
	return pwr.ReadSignature(context.Background(), src)
}

// SignDir computes a SignatureInfo for dir with the stand-alone signer.
func SignDir(dir string) (*pwr.SignatureInfo, error) {
	c, err := Walk(dir)
	if err != nil {
		return nil, err
	}
	h, err := pwr.ComputeSignature(context.Background(), c, fspool.New(c, dir), Quiet())
	if err != nil {
		return nil, err
	}
	return &pwr.SignatureInfo{Container: c, Hashes: h}, nil
}
