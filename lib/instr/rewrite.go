package instr

import "fmt"

// Options selects what the scheduler instrumentation rewrites.
type Options struct {
	Packages     []string
	VisibleCalls []string
	ScaleCaps    bool
}

// Instrument rewrites the named packages for the controlled scheduler.
func Instrument(ov *Overlay, repo, verifRoot string, opt Options) error {
	return fmt.Errorf("not implemented yet")
}
