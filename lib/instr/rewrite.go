package instr

import (
	"bytes"
	"fmt"
	"go/ast"
	"go/format"
	"go/importer"
	"go/parser"
	"go/token"
	"go/types"
	"io"
	"os"
	"os/exec"
	"path/filepath"
	"strconv"
	"strings"
)

const (
	wharfMod    = "github.com/itchio/wharf"
	vschedPath  = wharfMod + "/zzverif/vsched"
	vsyncPath   = wharfMod + "/zzverif/vsync"
	vschedIdent = "vsched"
)

// Options selects what the scheduler instrumentation rewrites.
type Options struct {
	// Packages: directories relative to the repository root.
	Packages []string
	// VisibleCalls: "os." (package-qualified prefix) or ".GetWriter" (method name).
	VisibleCalls []string
	// ScaleCaps rewrites make(chan T, K) with literal K > 16 to use vsched.ScaleCap.
	ScaleCaps bool
	// SplitRMW: names of variables whose x++ / x += e is split at a scheduling point.
	SplitRMW []string
	// NoMapOrder leaves range-over-map loops alone.
	NoMapOrder bool
}

// Instrument rewrites the named packages for the controlled scheduler and adds
// the scheduler runtime as virtual packages of the wharf module.
func Instrument(ov *Overlay, repo, verifRoot string, opt Options) error {
	// runtime packages
	for _, rt := range []struct{ src, dst string }{{"engine/vsched", "zzverif/vsched"}, {"engine/vsync", "zzverif/vsync"}} {
		ents, err := os.ReadDir(filepath.Join(verifRoot, rt.src))
		if err != nil {
			return err
		}
		for _, e := range ents {
			if !strings.HasSuffix(e.Name(), ".go") || strings.HasSuffix(e.Name(), "_test.go") {
				continue
			}
			b, err := os.ReadFile(filepath.Join(verifRoot, rt.src, e.Name()))
			if err != nil {
				return err
			}
			if err := ov.Put(filepath.Join(repo, rt.dst, e.Name()), b); err != nil {
				return err
			}
		}
	}
	exports, err := exportData(repo, opt.Packages)
	if err != nil {
		return err
	}
	for _, pkg := range opt.Packages {
		if err := instrumentPackage(ov, repo, pkg, exports, opt); err != nil {
			return fmt.Errorf("%s: %w", pkg, err)
		}
	}
	return nil
}

// exportData asks the go command for the export data files of all
// dependencies of the packages (built into the cache if needed).
func exportData(repo string, pkgs []string) (map[string]string, error) {
	args := []string{"list", "-export", "-deps", "-f", "{{.ImportPath}}={{.Export}}"}
	for _, p := range pkgs {
		args = append(args, "./"+p)
	}
	cmd := exec.Command("go", args...)
	cmd.Dir = repo
	var stderr bytes.Buffer
	cmd.Stderr = &stderr
	out, err := cmd.Output()
	if err != nil {
		return nil, fmt.Errorf("go list -export: %v\n%s", err, stderr.String())
	}
	m := map[string]string{}
	for _, line := range strings.Split(string(out), "\n") {
		if i := strings.IndexByte(line, '='); i > 0 && i < len(line)-1 {
			m[line[:i]] = line[i+1:]
		}
	}
	return m, nil
}

type rewriter struct {
	fset     *token.FileSet
	info     *types.Info
	opt      Options
	file     *ast.File
	fname    string
	used     bool // vsched import needed
	errs     []string
	rmw      map[string]bool
	ioName   string
	ctxName  string
	syncSpec *ast.ImportSpec
	ntmp     int
}

func instrumentPackage(ov *Overlay, repo, pkg string, exports map[string]string, opt Options) error {
	dir := filepath.Join(repo, pkg)
	ents, err := os.ReadDir(dir)
	if err != nil {
		return err
	}
	fset := token.NewFileSet()
	var files []*ast.File
	var names []string
	skip := map[string]bool{}
	for _, e := range ents {
		n := e.Name()
		if !strings.HasSuffix(n, ".go") || strings.HasSuffix(n, "_test.go") {
			continue
		}
		path := filepath.Join(dir, n)
		src, err := ov.Current(path)
		if strings.HasSuffix(n, ".pb.go") {
			// generated code: parsed for type checking, never rewritten
			skip[path] = true
		}
		if err != nil {
			return err
		}
		f, err := parser.ParseFile(fset, path, src, parser.ParseComments|parser.SkipObjectResolution)
		if err != nil {
			return err
		}
		files = append(files, f)
		names = append(names, path)
	}
	imp := importer.ForCompiler(fset, "gc", func(path string) (io.ReadCloser, error) {
		f, ok := exports[path]
		if !ok || f == "" {
			return nil, fmt.Errorf("no export data for %s", path)
		}
		return os.Open(f)
	})
	info := &types.Info{Types: map[ast.Expr]types.TypeAndValue{}, Uses: map[*ast.Ident]types.Object{}, Defs: map[*ast.Ident]types.Object{}}
	conf := types.Config{Importer: imp, Error: func(err error) {}}
	if _, err := conf.Check(wharfMod+"/"+pkg, fset, files, info); err != nil {
		return fmt.Errorf("type check: %w", err)
	}
	for i, f := range files {
		if skip[names[i]] {
			continue
		}
		rw := &rewriter{fset: fset, info: info, opt: opt, file: f, fname: names[i], rmw: map[string]bool{}}
		for _, v := range opt.SplitRMW {
			rw.rmw[v] = true
		}
		changed := rw.rewriteFile()
		if len(rw.errs) > 0 {
			return fmt.Errorf("%s: %s", names[i], strings.Join(rw.errs, "; "))
		}
		if !changed {
			continue
		}
		// comments are positioned by offset and would land inside rewritten
		// expressions: keep only those before the package clause (build tags)
		var keep []*ast.CommentGroup
		for _, cg := range f.Comments {
			if cg.End() < f.Package {
				keep = append(keep, cg)
			}
		}
		f.Comments = keep
		var buf bytes.Buffer
		if err := format.Node(&buf, fset, f); err != nil {
			return fmt.Errorf("%s: print: %w", names[i], err)
		}
		if err := ov.Put(names[i], buf.Bytes()); err != nil {
			return err
		}
	}
	return nil
}

func (rw *rewriter) errorf(n ast.Node, format string, args ...any) {
	rw.errs = append(rw.errs, fmt.Sprintf("%s: %s", rw.fset.Position(n.Pos()), fmt.Sprintf(format, args...)))
}

func (rw *rewriter) vs(name string) ast.Expr {
	rw.used = true
	return &ast.SelectorExpr{X: ast.NewIdent(vschedIdent), Sel: ast.NewIdent(name)}
}

func (rw *rewriter) call(name string, args ...ast.Expr) *ast.CallExpr {
	return &ast.CallExpr{Fun: rw.vs(name), Args: args}
}

func (rw *rewriter) typeOf(e ast.Expr) types.Type {
	if tv, ok := rw.info.Types[e]; ok {
		return tv.Type
	}
	return nil
}

func (rw *rewriter) isChan(e ast.Expr) (*types.Chan, bool) {
	t := rw.typeOf(e)
	if t == nil {
		return nil, false
	}
	c, ok := t.Underlying().(*types.Chan)
	return c, ok
}

func (rw *rewriter) isDoneChan(e ast.Expr) bool {
	c, ok := rw.isChan(e)
	if !ok || c.Dir() != types.RecvOnly {
		return false
	}
	st, ok := c.Elem().Underlying().(*types.Struct)
	return ok && st.NumFields() == 0
}

// tmp returns a fresh identifier for a hoisted temporary (unique per file).
func (rw *rewriter) tmp(prefix string) *ast.Ident {
	rw.ntmp++
	return ast.NewIdent(fmt.Sprintf("%s%d", prefix, rw.ntmp))
}

func (rw *rewriter) isAnyBuiltin(id *ast.Ident) bool {
	_, ok := rw.info.Uses[id].(*types.Builtin)
	return ok
}

func (rw *rewriter) isBuiltin(id *ast.Ident, name string) bool {
	if id.Name != name {
		return false
	}
	_, ok := rw.info.Uses[id].(*types.Builtin)
	return ok
}

func (rw *rewriter) pkgOf(id *ast.Ident) string {
	if pn, ok := rw.info.Uses[id].(*types.PkgName); ok {
		return pn.Imported().Path()
	}
	return ""
}

// pure reports whether re-evaluating e is harmless.
func pure(e ast.Expr) bool {
	switch v := e.(type) {
	case *ast.Ident:
		return true
	case *ast.SelectorExpr:
		return pure(v.X)
	case *ast.IndexExpr:
		return pure(v.X) && pure(v.Index)
	case *ast.ParenExpr:
		return pure(v.X)
	case *ast.BasicLit:
		return true
	case *ast.CallExpr:
		// ctx.Done() and similar niladic getters
		if len(v.Args) == 0 {
			if s, ok := v.Fun.(*ast.SelectorExpr); ok && s.Sel.Name == "Done" {
				return pure(s.X)
			}
		}
	}
	return false
}

func (rw *rewriter) rewriteFile() bool {
	f := rw.file
	// imports
	for _, is := range f.Imports {
		p, _ := strconv.Unquote(is.Path.Value)
		switch p {
		case "sync":
			is.Path.Value = strconv.Quote(vsyncPath)
			if is.Name == nil {
				is.Name = ast.NewIdent("sync")
			}
			rw.syncSpec = is
		}
	}
	changed := rw.syncSpec != nil
	// statements and expressions
	for _, d := range f.Decls {
		if fd, ok := d.(*ast.FuncDecl); ok && fd.Body != nil {
			rw.block(fd.Body)
		}
		if gd, ok := d.(*ast.GenDecl); ok {
			for _, sp := range gd.Specs {
				if vs, ok := sp.(*ast.ValueSpec); ok {
					for i := range vs.Values {
						vs.Values[i] = rw.expr(vs.Values[i])
					}
					if vs.Type != nil {
						vs.Type = rw.expr(vs.Type)
					}
				}
				if ts, ok := sp.(*ast.TypeSpec); ok {
					ts.Type = rw.expr(ts.Type)
				}
			}
		}
		if fd, ok := d.(*ast.FuncDecl); ok {
			rw.fieldList(fd.Type.Params)
			rw.fieldList(fd.Type.Results)
			rw.fieldList(fd.Recv)
		}
	}
	if rw.used {
		changed = true
		addImport(f, vschedIdent, vschedPath)
	}
	if changed {
		dropUnusedImports(f)
	}
	return changed
}

func (rw *rewriter) fieldList(fl *ast.FieldList) {
	if fl == nil {
		return
	}
	for _, fld := range fl.List {
		fld.Type = rw.expr(fld.Type)
	}
}

func addImport(f *ast.File, name, path string) {
	spec := &ast.ImportSpec{Name: ast.NewIdent(name), Path: &ast.BasicLit{Kind: token.STRING, Value: strconv.Quote(path)}}
	gd := &ast.GenDecl{Tok: token.IMPORT, Specs: []ast.Spec{spec}}
	f.Decls = append([]ast.Decl{gd}, f.Decls...)
	f.Imports = append(f.Imports, spec)
}

func dropUnusedImports(f *ast.File) {
	used := map[string]bool{}
	ast.Inspect(f, func(n ast.Node) bool {
		if s, ok := n.(*ast.SelectorExpr); ok {
			if id, ok := s.X.(*ast.Ident); ok {
				used[id.Name] = true
			}
		}
		return true
	})
	for _, d := range f.Decls {
		gd, ok := d.(*ast.GenDecl)
		if !ok || gd.Tok != token.IMPORT {
			continue
		}
		var keep []ast.Spec
		for _, sp := range gd.Specs {
			is := sp.(*ast.ImportSpec)
			p, _ := strconv.Unquote(is.Path.Value)
			name := filepath.Base(p)
			if is.Name != nil {
				name = is.Name.Name
			}
			if name == "_" || name == "." || used[name] {
				keep = append(keep, sp)
				continue
			}
			// only drop imports we may have orphaned
			if p == "io" || p == "context" || p == "time" || p == vsyncPath || p == "sync" {
				continue
			}
			keep = append(keep, sp)
		}
		gd.Specs = keep
	}
	// remove empty import decls
	var decls []ast.Decl
	for _, d := range f.Decls {
		if gd, ok := d.(*ast.GenDecl); ok && gd.Tok == token.IMPORT && len(gd.Specs) == 0 {
			continue
		}
		decls = append(decls, d)
	}
	f.Decls = decls
}

// ---- statements -------------------------------------------------------------

func (rw *rewriter) block(b *ast.BlockStmt) {
	if b == nil {
		return
	}
	b.List = rw.stmts(b.List)
}

func (rw *rewriter) stmts(list []ast.Stmt) []ast.Stmt {
	var out []ast.Stmt
	for _, s := range list {
		pre, ns := rw.stmt(s)
		out = append(out, pre...)
		out = append(out, ns)
	}
	return out
}

// visiblePoint returns a vsched.Point statement if s (shallowly) contains a
// call matching the visible-call list.
func (rw *rewriter) visiblePoint(nodes ...ast.Node) []ast.Stmt {
	if len(rw.opt.VisibleCalls) == 0 {
		return nil
	}
	var label string
	var first ast.Node
	for _, n := range nodes {
		if n == nil || (reflectNil(n)) {
			continue
		}
		if first == nil {
			first = n
		}
		ast.Inspect(n, func(m ast.Node) bool {
			if label != "" {
				return false
			}
			switch v := m.(type) {
			case *ast.FuncLit:
				return false
			case *ast.BlockStmt:
				return false
			case *ast.CallExpr:
				if name := rw.matchVisible(v); name != "" {
					label = name
					return false
				}
			}
			return true
		})
	}
	if label == "" {
		return nil
	}
	pos := rw.fset.Position(first.Pos())
	lit := &ast.BasicLit{Kind: token.STRING, Value: strconv.Quote(fmt.Sprintf("fs:%s@%s:%d", label, filepath.Base(pos.Filename), pos.Line))}
	return []ast.Stmt{&ast.ExprStmt{X: rw.call("Point", lit)}}
}

func reflectNil(n ast.Node) bool {
	switch v := n.(type) {
	case ast.Expr:
		return v == nil
	case ast.Stmt:
		return v == nil
	}
	return false
}

func (rw *rewriter) matchVisible(c *ast.CallExpr) string {
	sel, ok := c.Fun.(*ast.SelectorExpr)
	if !ok {
		return ""
	}
	if id, ok := sel.X.(*ast.Ident); ok {
		if p := rw.pkgOf(id); p != "" {
			q := filepath.Base(p) + "." + sel.Sel.Name
			for _, v := range rw.opt.VisibleCalls {
				if !strings.HasPrefix(v, ".") && strings.HasPrefix(q, v) {
					return q
				}
			}
			return ""
		}
	}
	for _, v := range rw.opt.VisibleCalls {
		if strings.HasPrefix(v, ".") && v[1:] == sel.Sel.Name {
			return v
		}
	}
	return ""
}

func (rw *rewriter) stmt(s ast.Stmt) (pre []ast.Stmt, out ast.Stmt) {
	switch v := s.(type) {
	case nil:
		return nil, s
	case *ast.BlockStmt:
		rw.block(v)
	case *ast.LabeledStmt:
		p, ns := rw.stmt(v.Stmt)
		v.Stmt = ns
		return p, v
	case *ast.ExprStmt:
		pre = rw.visiblePoint(v.X)
		v.X = rw.expr(v.X)
	case *ast.SendStmt:
		return nil, &ast.ExprStmt{X: rw.call("Send", rw.expr(v.Chan), rw.expr(v.Value))}
	case *ast.IncDecStmt:
		if id, ok := v.X.(*ast.Ident); ok && rw.rmw[id.Name] {
			return rw.splitRMW(id, v.Tok == token.INC)
		}
		v.X = rw.expr(v.X)
	case *ast.AssignStmt:
		pre = rw.visiblePoint(v)
		// v, ok := <-ch
		if len(v.Rhs) == 1 && len(v.Lhs) == 2 {
			if u, ok := v.Rhs[0].(*ast.UnaryExpr); ok && u.Op == token.ARROW {
				v.Rhs[0] = rw.call("Recv2", rw.expr(u.X))
				return pre, v
			}
		}
		for i := range v.Rhs {
			v.Rhs[i] = rw.expr(v.Rhs[i])
		}
		for i := range v.Lhs {
			v.Lhs[i] = rw.expr(v.Lhs[i])
		}
	case *ast.GoStmt:
		return nil, rw.goStmt(v)
	case *ast.DeferStmt:
		v.Call = rw.expr(v.Call).(*ast.CallExpr)
	case *ast.ReturnStmt:
		pre = rw.visiblePoint(v)
		for i := range v.Results {
			v.Results[i] = rw.expr(v.Results[i])
		}
	case *ast.IfStmt:
		pre = rw.visiblePoint(v.Init, v.Cond)
		if v.Init != nil {
			p, ns := rw.stmt(v.Init)
			if len(p) > 0 {
				pre = append(pre, p...)
			}
			v.Init = ns
		}
		v.Cond = rw.expr(v.Cond)
		rw.block(v.Body)
		if v.Else != nil {
			_, ns := rw.stmt(v.Else)
			v.Else = ns
		}
	case *ast.ForStmt:
		if v.Init != nil {
			_, v.Init = rw.stmt(v.Init)
		}
		if v.Cond != nil {
			v.Cond = rw.expr(v.Cond)
		}
		if v.Post != nil {
			_, v.Post = rw.stmt(v.Post)
		}
		rw.block(v.Body)
	case *ast.RangeStmt:
		return rw.rangeStmt(v)
	case *ast.SwitchStmt:
		pre = rw.visiblePoint(v.Init, v.Tag)
		if v.Init != nil {
			_, v.Init = rw.stmt(v.Init)
		}
		if v.Tag != nil {
			v.Tag = rw.expr(v.Tag)
		}
		rw.clauses(v.Body)
	case *ast.TypeSwitchStmt:
		if v.Init != nil {
			_, v.Init = rw.stmt(v.Init)
		}
		_, v.Assign = rw.stmt(v.Assign)
		rw.clauses(v.Body)
	case *ast.SelectStmt:
		return rw.selectStmt(v)
	case *ast.DeclStmt:
		if gd, ok := v.Decl.(*ast.GenDecl); ok {
			for _, sp := range gd.Specs {
				if vs, ok := sp.(*ast.ValueSpec); ok {
					if len(vs.Values) == 1 && len(vs.Names) == 2 {
						if u, ok := vs.Values[0].(*ast.UnaryExpr); ok && u.Op == token.ARROW {
							vs.Values[0] = rw.call("Recv2", rw.expr(u.X))
							continue
						}
					}
					for i := range vs.Values {
						vs.Values[i] = rw.expr(vs.Values[i])
					}
					if vs.Type != nil {
						vs.Type = rw.expr(vs.Type)
					}
				}
			}
		}
	}
	return pre, s
}

func (rw *rewriter) clauses(b *ast.BlockStmt) {
	for _, c := range b.List {
		switch cc := c.(type) {
		case *ast.CaseClause:
			for i := range cc.List {
				cc.List[i] = rw.expr(cc.List[i])
			}
			cc.Body = rw.stmts(cc.Body)
		}
	}
}

func (rw *rewriter) splitRMW(id *ast.Ident, inc bool) ([]ast.Stmt, ast.Stmt) {
	tmp := ast.NewIdent("vsched_rmw_" + id.Name)
	op := token.ADD
	if !inc {
		op = token.SUB
	}
	lit := &ast.BasicLit{Kind: token.STRING, Value: strconv.Quote("rmw:" + id.Name)}
	return []ast.Stmt{
			&ast.AssignStmt{Lhs: []ast.Expr{tmp}, Tok: token.DEFINE, Rhs: []ast.Expr{ast.NewIdent(id.Name)}},
			&ast.ExprStmt{X: rw.call("Point", lit)},
		}, &ast.AssignStmt{Lhs: []ast.Expr{ast.NewIdent(id.Name)}, Tok: token.ASSIGN, Rhs: []ast.Expr{
			&ast.BinaryExpr{X: tmp, Op: op, Y: &ast.BasicLit{Kind: token.INT, Value: "1"}}}}
}

// goStmt: `go f(a, b)` becomes
//
//	{ vsched_gof, vsched_goa0, vsched_goa1 := f, a, b; vsched.Go0(func() { vsched_gof(vsched_goa0, vsched_goa1) }) }
//
// so that function value and arguments are evaluated by the parent at the go
// statement (as the language says) whatever their number and types are
// (interface conversions at the call, results dropped, variadic spread kept).
// Constants, nil and other untyped operands stay in the call: a temporary
// would give them their default type.
func (rw *rewriter) goStmt(g *ast.GoStmt) ast.Stmt {
	call := g.Call
	if id, ok := call.Fun.(*ast.Ident); ok && rw.isAnyBuiltin(id) {
		// go close(ch), go panic(x), ...: run the rewritten call in a goroutine
		inner := rw.expr(call)
		rw.used = true
		return &ast.ExprStmt{X: rw.call("Go0", &ast.FuncLit{Type: &ast.FuncType{Params: &ast.FieldList{}},
			Body: &ast.BlockStmt{List: []ast.Stmt{&ast.ExprStmt{X: inner}}}})}
	}
	sig, _ := rw.typeOf(call.Fun).(*types.Signature)
	if len(call.Args) == 0 && sig != nil && sig.Results().Len() == 0 {
		return &ast.ExprStmt{X: rw.call("Go0", rw.expr(call.Fun))}
	}
	fID := ast.NewIdent("vsched_gof")
	lhs := []ast.Expr{fID}
	rhs := []ast.Expr{rw.expr(call.Fun)}
	var args []ast.Expr
	for i, a := range call.Args {
		tv, known := rw.info.Types[a]
		inline := !known || tv.Value != nil || tv.IsNil()
		if b, ok := tv.Type.(*types.Basic); known && ok && b.Info()&types.IsUntyped != 0 {
			inline = true
		}
		if _, ok := tv.Type.(*types.Tuple); known && ok {
			rw.errorf(g, "go statement with a multi-valued argument is not supported")
			return g
		}
		if inline {
			args = append(args, rw.expr(a))
			continue
		}
		tmp := ast.NewIdent(fmt.Sprintf("vsched_goa%d", i))
		lhs = append(lhs, tmp)
		rhs = append(rhs, rw.expr(a))
		args = append(args, ast.NewIdent(tmp.Name))
	}
	inner := &ast.CallExpr{Fun: ast.NewIdent(fID.Name), Args: args}
	if call.Ellipsis.IsValid() {
		inner.Ellipsis = 1
	}
	return &ast.BlockStmt{List: []ast.Stmt{
		&ast.AssignStmt{Lhs: lhs, Tok: token.DEFINE, Rhs: rhs},
		&ast.ExprStmt{X: rw.call("Go0", &ast.FuncLit{Type: &ast.FuncType{Params: &ast.FieldList{}},
			Body: &ast.BlockStmt{List: []ast.Stmt{&ast.ExprStmt{X: inner}}}})},
	}}
}

func (rw *rewriter) rangeStmt(r *ast.RangeStmt) ([]ast.Stmt, ast.Stmt) {
	t := rw.typeOf(r.X)
	if t == nil {
		r.X = rw.expr(r.X)
		rw.block(r.Body)
		return nil, r
	}
	switch u := t.Underlying().(type) {
	case *types.Chan:
		var pre []ast.Stmt
		if !pure(r.X) {
			// the channel expression is evaluated once, before the loop
			tmp := rw.tmp("vsched_rangech")
			pre = []ast.Stmt{&ast.AssignStmt{Lhs: []ast.Expr{tmp}, Tok: token.DEFINE, Rhs: []ast.Expr{rw.expr(r.X)}}}
			r.X = ast.NewIdent(tmp.Name)
		}
		rw.block(r.Body)
		okID := ast.NewIdent("vsched_ok")
		var head []ast.Stmt
		recv := rw.call("Recv2", rw.expr(r.X))
		if r.Key == nil {
			head = append(head, &ast.AssignStmt{Lhs: []ast.Expr{ast.NewIdent("_"), okID}, Tok: token.DEFINE, Rhs: []ast.Expr{recv}})
		} else if r.Tok == token.DEFINE {
			head = append(head, &ast.AssignStmt{Lhs: []ast.Expr{r.Key, okID}, Tok: token.DEFINE, Rhs: []ast.Expr{recv}})
		} else {
			tmp := ast.NewIdent("vsched_v")
			head = append(head, &ast.AssignStmt{Lhs: []ast.Expr{tmp, okID}, Tok: token.DEFINE, Rhs: []ast.Expr{recv}})
			head = append(head, &ast.AssignStmt{Lhs: []ast.Expr{r.Key}, Tok: token.ASSIGN, Rhs: []ast.Expr{tmp}})
		}
		brk := &ast.IfStmt{Cond: &ast.UnaryExpr{Op: token.NOT, X: okID}, Body: &ast.BlockStmt{List: []ast.Stmt{&ast.BranchStmt{Tok: token.BREAK}}}}
		// insert the break right after the receive
		body := append([]ast.Stmt{head[0], brk}, head[1:]...)
		body = append(body, r.Body.List...)
		return pre, &ast.ForStmt{Body: &ast.BlockStmt{List: body}}
	case *types.Map:
		rw.block(r.Body)
		if rw.opt.NoMapOrder || !orderedKey(u.Key()) || !pure(r.X) || r.Key == nil || r.Tok != token.DEFINE {
			// left as a plain range; the ranged-over expression may still contain
			// channel operations (`for k, v := range <-ch`)
			r.X = rw.expr(r.X)
			return nil, r
		}
		if id, ok := r.Key.(*ast.Ident); ok && id.Name == "_" {
			if r.Value == nil {
				r.X = rw.expr(r.X)
				return nil, r
			}
			if vid, ok := r.Value.(*ast.Ident); ok && vid.Name == "_" {
				r.X = rw.expr(r.X)
				return nil, r
			}
			// the key is not named: give it a name so the value can be looked up
			r.Key = ast.NewIdent("vsched_key")
		}
		// for _, k := range vsched.MapKeys(m) { v, ok := m[k]; if !ok { continue }; body }
		var head []ast.Stmt
		if r.Value != nil {
			if id, ok := r.Value.(*ast.Ident); !ok || id.Name != "_" {
				okID := ast.NewIdent("vsched_present")
				head = append(head,
					&ast.AssignStmt{Lhs: []ast.Expr{r.Value, okID}, Tok: token.DEFINE, Rhs: []ast.Expr{&ast.IndexExpr{X: r.X, Index: r.Key}}},
					&ast.IfStmt{Cond: &ast.UnaryExpr{Op: token.NOT, X: okID}, Body: &ast.BlockStmt{List: []ast.Stmt{&ast.BranchStmt{Tok: token.CONTINUE}}}})
			}
		}
		r.Body.List = append(head, r.Body.List...)
		r.Value = r.Key
		r.Key = ast.NewIdent("_")
		r.X = rw.call("MapKeys", r.X)
		return nil, r
	}
	r.X = rw.expr(r.X)
	rw.block(r.Body)
	return nil, r
}

func orderedKey(t types.Type) bool {
	b, ok := t.Underlying().(*types.Basic)
	if !ok {
		return false
	}
	return b.Info()&(types.IsInteger|types.IsFloat|types.IsString) != 0
}

func (rw *rewriter) selectStmt(s *ast.SelectStmt) (pre []ast.Stmt, out ast.Stmt) {
	selID := ast.NewIdent("vsched_sel")
	hasDefault := false
	var cases []ast.Expr
	var clauses []ast.Stmt
	idx := 0
	for _, c := range s.Body.List {
		cc := c.(*ast.CommClause)
		body := rw.stmts(cc.Body)
		if cc.Comm == nil {
			hasDefault = true
			clauses = append(clauses, &ast.CaseClause{List: nil, Body: body})
			continue
		}
		lit := &ast.BasicLit{Kind: token.INT, Value: strconv.Itoa(idx)}
		idx++
		switch comm := cc.Comm.(type) {
		case *ast.SendStmt:
			cases = append(cases, rw.call("CaseSend", rw.expr(comm.Chan), rw.expr(comm.Value)))
		case *ast.ExprStmt:
			u, ok := comm.X.(*ast.UnaryExpr)
			if !ok || u.Op != token.ARROW {
				rw.errorf(cc, "unsupported select case")
				return nil, s
			}
			cases = append(cases, rw.caseRecv(u.X))
		case *ast.AssignStmt:
			u, ok := comm.Rhs[0].(*ast.UnaryExpr)
			if !ok || u.Op != token.ARROW {
				rw.errorf(cc, "unsupported select case")
				return nil, s
			}
			if !pure(u.X) {
				// the channel is named twice below (case + typed value): evaluate it once, before the select
				tmp := rw.tmp("vsched_selch")
				typ := rw.typeOf(u.X)
				pre = append(pre, &ast.AssignStmt{Lhs: []ast.Expr{tmp}, Tok: token.DEFINE, Rhs: []ast.Expr{rw.expr(u.X)}})
				u.X = ast.NewIdent(tmp.Name)
				if typ != nil {
					rw.info.Types[u.X] = types.TypeAndValue{Type: typ}
				}
			}
			cases = append(cases, rw.caseRecv(u.X))
			fn := "RecvVal"
			if len(comm.Lhs) == 2 {
				fn = "RecvVal2"
			}
			as := &ast.AssignStmt{Lhs: comm.Lhs, Tok: comm.Tok, Rhs: []ast.Expr{rw.call(fn, rw.expr(u.X), selID)}}
			body = append([]ast.Stmt{as}, body...)
			// keep "declared and not used" errors away for `case v := <-ch` with unused v: not possible in valid Go
		}
		clauses = append(clauses, &ast.CaseClause{List: []ast.Expr{lit}, Body: body})
	}
	hd := ast.NewIdent("false")
	if hasDefault {
		hd = ast.NewIdent("true")
	} else {
		// a select whose clauses all end in terminating statements is itself terminating;
		// the switch only is with a default clause (never taken: Index is one of the cases)
		clauses = append(clauses, &ast.CaseClause{List: nil, Body: []ast.Stmt{&ast.ExprStmt{X: &ast.CallExpr{
			Fun: ast.NewIdent("panic"), Args: []ast.Expr{&ast.BasicLit{Kind: token.STRING, Value: strconv.Quote("vsched: select resolved to no case")}}}}}})
	}
	args := append([]ast.Expr{hd}, cases...)
	return pre, &ast.SwitchStmt{
		Init: &ast.AssignStmt{Lhs: []ast.Expr{selID}, Tok: token.DEFINE, Rhs: []ast.Expr{rw.call("Select", args...)}},
		Tag:  &ast.SelectorExpr{X: selID, Sel: ast.NewIdent("Index")},
		Body: &ast.BlockStmt{List: clauses},
	}
}

func (rw *rewriter) caseRecv(ch ast.Expr) ast.Expr {
	if rw.isDoneChan(ch) {
		return rw.call("CaseDone", rw.expr(ch))
	}
	return rw.call("CaseRecv", rw.expr(ch))
}

// ---- expressions ------------------------------------------------------------

func (rw *rewriter) expr(e ast.Expr) ast.Expr {
	switch v := e.(type) {
	case nil:
		return nil
	case *ast.UnaryExpr:
		if v.Op == token.ARROW {
			if rw.isDoneChan(v.X) {
				return rw.call("RecvDone", rw.expr(v.X))
			}
			return rw.call("Recv", rw.expr(v.X))
		}
		v.X = rw.expr(v.X)
	case *ast.BinaryExpr:
		v.X = rw.expr(v.X)
		v.Y = rw.expr(v.Y)
	case *ast.ParenExpr:
		v.X = rw.expr(v.X)
	case *ast.StarExpr:
		v.X = rw.expr(v.X)
	case *ast.ArrayType:
		v.Elt = rw.expr(v.Elt)
	case *ast.MapType:
		v.Key = rw.expr(v.Key)
		v.Value = rw.expr(v.Value)
	case *ast.ChanType:
		v.Value = rw.expr(v.Value)
	case *ast.StructType:
		rw.fieldList(v.Fields)
	case *ast.FuncType:
		rw.fieldList(v.Params)
		rw.fieldList(v.Results)
	case *ast.SelectorExpr:
		if id, ok := v.X.(*ast.Ident); ok {
			switch rw.pkgOf(id) {
			case "io":
				switch v.Sel.Name {
				case "Pipe", "PipeReader", "PipeWriter":
					return rw.vs(v.Sel.Name)
				}
			case "context":
				switch v.Sel.Name {
				case "WithCancel", "WithTimeout", "WithDeadline":
					return rw.vs(v.Sel.Name)
				}
			case "time":
				switch v.Sel.Name {
				case "After", "Tick", "Sleep", "NewTimer", "AfterFunc", "Timer":
					return rw.vs(v.Sel.Name)
				}
			}
			return v
		}
		v.X = rw.expr(v.X)
	case *ast.IndexExpr:
		v.X = rw.expr(v.X)
		v.Index = rw.expr(v.Index)
	case *ast.SliceExpr:
		v.X = rw.expr(v.X)
		v.Low, v.High, v.Max = rw.expr(v.Low), rw.expr(v.High), rw.expr(v.Max)
	case *ast.TypeAssertExpr:
		v.X = rw.expr(v.X)
	case *ast.KeyValueExpr:
		v.Value = rw.expr(v.Value)
	case *ast.CompositeLit:
		if v.Type != nil {
			v.Type = rw.expr(v.Type)
		}
		for i := range v.Elts {
			v.Elts[i] = rw.expr(v.Elts[i])
		}
	case *ast.FuncLit:
		rw.fieldList(v.Type.Params)
		rw.fieldList(v.Type.Results)
		rw.block(v.Body)
	case *ast.CallExpr:
		if id, ok := v.Fun.(*ast.Ident); ok {
			if rw.isBuiltin(id, "close") && len(v.Args) == 1 {
				return rw.call("Close", rw.expr(v.Args[0]))
			}
			if rw.isBuiltin(id, "len") && len(v.Args) == 1 {
				// (cap needs nothing: the real channel has the capacity of the model)
				if _, ok := rw.isChan(v.Args[0]); ok {
					return rw.call("ChanLen", rw.expr(v.Args[0]))
				}
			}
			if rw.isBuiltin(id, "make") && len(v.Args) >= 1 {
				if ct, ok := v.Args[0].(*ast.ChanType); ok && ct.Dir == ast.SEND|ast.RECV {
					var n ast.Expr = &ast.BasicLit{Kind: token.INT, Value: "0"}
					if len(v.Args) == 2 {
						n = rw.expr(v.Args[1])
						if lit, ok := v.Args[1].(*ast.BasicLit); ok && rw.opt.ScaleCaps && lit.Kind == token.INT {
							n = rw.call("ScaleCap", lit)
						} else if tv, ok := rw.info.Types[v.Args[1]]; ok && rw.opt.ScaleCaps && tv.Value != nil {
							// a named constant (or constant expression) is a fixed capacity as well
							n = rw.call("ScaleCap", &ast.CallExpr{Fun: ast.NewIdent("int"), Args: []ast.Expr{n}})
						}
					}
					rw.used = true
					return &ast.CallExpr{Fun: &ast.IndexExpr{X: rw.vs("Make"), Index: rw.expr(ct.Value)}, Args: []ast.Expr{n}}
				}
			}
		}
		v.Fun = rw.expr(v.Fun)
		for i := range v.Args {
			v.Args[i] = rw.expr(v.Args[i])
		}
	}
	return e
}
