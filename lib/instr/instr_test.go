package instr

import (
	"encoding/json"
	"os"
	"os/exec"
	"path/filepath"
	"sort"
	"strings"
	"testing"
)

// TestTorture instruments a package made of the constructs the rewriter has to
// translate (testdata/torture), explores every scenario exhaustively under the
// scheduler and compares the set of results with the set seen free-running in
// an ordinary build: free-running results must all be reachable under the
// scheduler, no schedule may deadlock or panic, and scenarios with a known
// result set must produce exactly that.
func TestTorture(t *testing.T) {
	verifRoot, err := filepath.Abs("../..")
	if err != nil {
		t.Fatal(err)
	}
	src := filepath.Join(verifRoot, "lib/instr/testdata/torture")
	mod := t.TempDir()
	err = filepath.Walk(src, func(p string, info os.FileInfo, err error) error {
		if err != nil || info.IsDir() {
			return err
		}
		rel, _ := filepath.Rel(src, p)
		b, err := os.ReadFile(p)
		if err != nil {
			return err
		}
		dst := filepath.Join(mod, strings.TrimSuffix(rel, ".txt"))
		os.MkdirAll(filepath.Dir(dst), 0o755)
		return os.WriteFile(dst, b, 0o644)
	})
	if err != nil {
		t.Fatal(err)
	}
	run := func(dir string, name string, args ...string) (string, string) {
		cmd := exec.Command(name, args...)
		cmd.Dir = dir
		cmd.Env = append(os.Environ(), "GOFLAGS=-mod=mod", "GOPROXY=off")
		var stderr strings.Builder
		cmd.Stderr = &stderr
		out, err := cmd.Output()
		if err != nil {
			t.Fatalf("%s %v: %v\n%s", name, args, err, stderr.String())
		}
		return string(out), stderr.String()
	}
	run(mod, "go", "build", "-o", "plain.bin", "./cmd/run")
	plainOut, _ := run(mod, filepath.Join(mod, "plain.bin"))

	ov := NewOverlay(filepath.Join(mod, "_ov"))
	if err := Instrument(ov, mod, verifRoot, Options{Packages: []string{"torture"}}); err != nil {
		t.Fatal(err)
	}
	b, _ := json.Marshal(map[string]any{"Replace": ov.Replace})
	ovPath := filepath.Join(mod, "_ov.json")
	os.WriteFile(ovPath, b, 0o644)
	run(mod, "go", "build", "-overlay", ovPath, "-tags", "vsched", "-o", "sched.bin", "./cmd/run")
	schedOut, stats := run(mod, filepath.Join(mod, "sched.bin"))
	t.Logf("exploration:\n%s", stats)

	parse := func(s string) map[string][]string {
		m := map[string][]string{}
		for _, l := range strings.Split(strings.TrimSpace(s), "\n") {
			if f := strings.SplitN(l, "\t", 2); len(f) == 2 {
				m[f[0]] = append(m[f[0]], f[1])
			}
		}
		return m
	}
	plain, sched := parse(plainOut), parse(schedOut)
	for name, rs := range sched {
		for _, r := range rs {
			if strings.HasPrefix(r, "!") {
				t.Errorf("%s: a schedule ends in %s", name, r)
			}
		}
	}
	for name, rs := range plain {
		for _, r := range rs {
			found := false
			for _, s := range sched[name] {
				found = found || s == r
			}
			if !found {
				t.Errorf("%s: free-running result %q is not reachable under the scheduler (explored: %q)", name, r, sched[name])
			}
		}
	}
	want := map[string][]string{
		"GoForms":     {"desc=x/7/true,lit=1,ten=55,work=13"},
		"SendSelect":  {"nil-blocks,sent=2 len=2 cap=2,sum=1"},
		"Lost":        {"err", "nil"},
		"MapOrder":    {"a1b2c3/first=a", "a1b2c3/first=b", "a1b2c3/first=c"},
		"Pipes":       {"read=4 last=unexpected EOF shared=10"},
		"TimerSelect": {"timeout", "timer", "work=1"},
		"CtxTimeout":  {"alive", "done:context deadline exceeded"},
	}
	for name, w := range want {
		got := append([]string{}, sched[name]...)
		sort.Strings(got)
		if strings.Join(got, "|") != strings.Join(w, "|") {
			t.Errorf("%s: explored results %q, want %q", name, got, w)
		}
	}
	t.Logf("SelectForms results: %q (free-running: %q)", sched["SelectForms"], plain["SelectForms"])
	if len(sched["SelectForms"]) < 2 {
		t.Errorf("SelectForms: expected several results, got %q", sched["SelectForms"])
	}
}
