// Package instr produces `go build -overlay` inputs from /repo's current
// working tree: scaled constants (this file) and scheduler instrumentation
// (rewrite.go). /repo is never modified.
package instr

import (
	"bytes"
	"fmt"
	"go/ast"
	"go/format"
	"go/parser"
	"go/token"
	"os"
	"path/filepath"
	"strings"
)

// Overlay accumulates replaced files.
type Overlay struct {
	Replace map[string]string
	OutDir  string
	n       int
}

func NewOverlay(outDir string) *Overlay {
	os.MkdirAll(outDir, 0o755)
	return &Overlay{Replace: map[string]string{}, OutDir: outDir}
}

// Put registers content as the replacement of path (which need not exist).
func (o *Overlay) Put(path string, content []byte) error {
	o.n++
	name := fmt.Sprintf("%03d_%s", o.n, strings.ReplaceAll(strings.TrimPrefix(path, "/"), "/", "__"))
	dst := filepath.Join(o.OutDir, name)
	if err := os.WriteFile(dst, content, 0o644); err != nil {
		return err
	}
	o.Replace[path] = dst
	return nil
}

// Current returns the current content of path: the overlay's if already
// replaced, else the file on disk.
func (o *Overlay) Current(path string) ([]byte, error) {
	if p, ok := o.Replace[path]; ok {
		return os.ReadFile(p)
	}
	return os.ReadFile(path)
}

// SetConst rewrites the value of a package-level constant or variable `name` declared in
// some non-test file of pkgDir to the Go expression value. The declaration must
// be found, otherwise an error is returned (callers report the scaled
// sub-check as skipped, never as an alarm).
func (o *Overlay) SetConst(pkgDir, name, value string) error {
	ents, err := os.ReadDir(pkgDir)
	if err != nil {
		return err
	}
	for _, e := range ents {
		if !strings.HasSuffix(e.Name(), ".go") || strings.HasSuffix(e.Name(), "_test.go") {
			continue
		}
		path := filepath.Join(pkgDir, e.Name())
		src, err := o.Current(path)
		if err != nil {
			return err
		}
		fset := token.NewFileSet()
		f, err := parser.ParseFile(fset, path, src, parser.ParseComments)
		if err != nil {
			return err
		}
		found := false
		for _, d := range f.Decls {
			gd, ok := d.(*ast.GenDecl)
			if !ok || (gd.Tok != token.CONST && gd.Tok != token.VAR) {
				continue
			}
			for _, sp := range gd.Specs {
				vs := sp.(*ast.ValueSpec)
				for i, n := range vs.Names {
					if n.Name == name && i < len(vs.Values) {
						ex, err := parser.ParseExpr(value)
						if err != nil {
							return err
						}
						vs.Values[i] = ex
						found = true
					}
				}
			}
		}
		if found {
			var buf bytes.Buffer
			if err := format.Node(&buf, fset, f); err != nil {
				return err
			}
			return o.Put(path, buf.Bytes())
		}
	}
	return fmt.Errorf("constant %s not found in %s", name, pkgDir)
}

// SetLocalConst rewrites a constant declared inside function funcName.
func (o *Overlay) SetLocalConst(pkgDir, funcName, name, value string) error {
	ents, err := os.ReadDir(pkgDir)
	if err != nil {
		return err
	}
	for _, e := range ents {
		if !strings.HasSuffix(e.Name(), ".go") || strings.HasSuffix(e.Name(), "_test.go") {
			continue
		}
		path := filepath.Join(pkgDir, e.Name())
		src, err := o.Current(path)
		if err != nil {
			return err
		}
		fset := token.NewFileSet()
		f, err := parser.ParseFile(fset, path, src, parser.ParseComments)
		if err != nil {
			return err
		}
		found := false
		for _, d := range f.Decls {
			fd, ok := d.(*ast.FuncDecl)
			if !ok || fd.Name.Name != funcName || fd.Body == nil {
				continue
			}
			ast.Inspect(fd.Body, func(n ast.Node) bool {
				vs, ok := n.(*ast.ValueSpec)
				if !ok {
					return true
				}
				for i, nm := range vs.Names {
					if nm.Name == name && i < len(vs.Values) {
						ex, err := parser.ParseExpr(value)
						if err == nil {
							vs.Values[i] = ex
							found = true
						}
					}
				}
				return true
			})
		}
		if found {
			var buf bytes.Buffer
			if err := format.Node(&buf, fset, f); err != nil {
				return err
			}
			return o.Put(path, buf.Bytes())
		}
	}
	return fmt.Errorf("constant %s not found in func %s of %s", name, funcName, pkgDir)
}
