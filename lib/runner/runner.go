// Package runner is the shared driver of every check: it shards an enumeration
// over worker sub-processes, attributes hard crashes to the case that was
// running, matches violations against /verif/known_findings.json, writes replay
// files and the evidence file, and implements --replay.
//
// A check is a main package that calls runner.Main with a body. The body
// declares sub-checks (runner.NewSub) whose cases are JSON-serialisable values;
// a case is therefore its own replay artefact.
package runner

import (
	"bufio"
	"bytes"
	"encoding/json"
	"flag"
	"fmt"
	"io"
	"os"
	"os/exec"
	"path/filepath"
	"runtime"
	"runtime/debug"
	"sort"
	"strconv"
	"strings"
	"sync"
	"sync/atomic"
	"time"
)

// Config describes one check (one property).
type Config struct {
	ID          string // property id, e.g. "C11"
	Level       string // evidence level: model_checking | fault_enumeration
	Rule        string // how cases are enumerated and what makes one non-trivial
	Assumptions []string
	// Variants lists extra binaries (bin/<id>.<variant>) built with an overlay
	// (scaled constant, instrumented scheduler). Sub-checks name the variant
	// they need; "" is the plain build.
	Variants []string
	// QuickBudget/ThoroughBudget: internal deadline per variant. When it is hit
	// workers stop cleanly and the evidence says exhaustive:false.
	QuickBudget    time.Duration
	ThoroughBudget time.Duration
	// Workers overrides the number of worker processes (default: NumCPU).
	Workers int
	// GOMAXPROCS1 pins every worker to one P (used by scheduler-controlled checks).
	GOMAXPROCS1 bool
}

// W is the worker-side context handed to the check body.
type W struct {
	cfg       Config
	Tier      string
	Seed      int64
	Variant   string
	idx, n    int
	deadline  time.Time
	expired   bool
	subs      []*subState
	out       *bufio.Writer
	outMu     sync.Mutex
	replaySub string
	replayRaw json.RawMessage
	scratch   string
	skip      map[string]int // sub -> number of owned cases to skip (restart after crash)
}

// Quick reports whether the quick tier is running.
func (w *W) Quick() bool { return w.Tier == "quick" }

// Expired reports whether the internal deadline has passed; enumeration loops
// should poll it (Do polls it by itself and becomes a no-op).
func (w *W) Expired() bool {
	if w.expired {
		return true
	}
	if !w.deadline.IsZero() && time.Now().After(w.deadline) {
		w.expired = true
	}
	return w.expired
}

// Deadline is the instant at which enumeration should stop (zero = none).
func (w *W) Deadline() time.Time { return w.deadline }

// Scratch returns a private scratch directory on tmpfs for this worker.
func (w *W) Scratch() string { return w.scratch }

// Index and N give the shard coordinates.
func (w *W) Index() int { return w.idx }
func (w *W) N() int     { return w.n }

// Owns is the round-robin ownership test for an ordinal.
func (w *W) Owns(ord int) bool { return w.n <= 1 || ord%w.n == w.idx }

type subState struct {
	Name        string           `json:"name"`
	Variant     string           `json:"variant"`
	Evals       int64            `json:"evals"`
	Nontrivial  int64            `json:"nontrivial"`
	Transitions int64            `json:"transitions"`
	States      int64            `json:"states"`
	Outcomes    map[string]int   `json:"outcomes"`
	Samples     []any            `json:"samples"`
	Complete    bool             `json:"complete"`
	Skipped     string           `json:"skipped,omitempty"`
	Notes       map[string]any   `json:"notes,omitempty"`
	Sums        map[string]int64 `json:"sums,omitempty"`
	Maxs        map[string]int64 `json:"maxs,omitempty"`
	Mins        map[string]int64 `json:"mins,omitempty"`
	Partial     string           `json:"partial,omitempty"`
	ord         int
	owned       int
	journal     bool
	watchdog    time.Duration
	replay      func(raw json.RawMessage, w *W)
	w           *W
	started     bool
	emitted     bool
}

// Rec is handed to a case body to record what happened.
type Rec struct {
	s        *subState
	fails    []failure
	nontriv  bool
	outcome  string
	caseJSON func() json.RawMessage
}

type failure struct {
	FP     string `json:"fp"`
	Msg    string `json:"msg"`
	Detail string `json:"detail,omitempty"`
}

// Nontrivial marks the current case as non-trivial by the check's rule.
func (r *Rec) Nontrivial() { r.nontriv = true }

// Outcome records the observable outcome class of this case (for the distinct
// outcome count that guards against vacuity).
func (r *Rec) Outcome(o string) { r.outcome = o }

// Trans adds n transitions (choice steps / operations applied) to the counters.
func (r *Rec) Trans(n int) { r.s.Transitions += int64(n) }

// States adds n explored states.
func (r *Rec) States(n int) { r.s.States += int64(n) }

// Failf records a violation of the property for this case. fp is the
// fingerprint used for matching known findings: it must name the class of the
// failure narrowly, not the case.
func (r *Rec) Failf(fp string, format string, args ...any) {
	r.fails = append(r.fails, failure{FP: fp, Msg: fmt.Sprintf(format, args...)})
}

// Failed reports whether the case already has a failure.
func (r *Rec) Failed() bool { return len(r.fails) > 0 }

// Sub is a typed sub-check.
type Sub[C any] struct {
	st  *subState
	run func(c C, r *Rec)
}

// Opt configures a sub-check.
type Opt func(*subState)

// Variant says which binary variant runs this sub-check.
func Variant(v string) Opt { return func(s *subState) { s.Variant = v } }

// Journal (the default since every sub-check journals) makes the worker announce every case before running it, so that a
// hard process crash (panic in a goroutine the harness does not own, fatal
// error) is attributed to the case.
func Journal() Opt { return func(s *subState) { s.journal = true } }

// NoJournal switches the announcement off (sub-checks with millions of tiny cases whose
// bodies recover from panics themselves).
func NoJournal() Opt { return func(s *subState) { s.journal = false } }

// Watchdog gives every case of the sub-check a termination oracle: a case that has not
// returned after d is reported as a violation ("hang:case-did-not-return") and the worker
// process is replaced, continuing after that case (a goroutine that is stuck inside the code
// under test cannot be stopped any other way). d must be orders of magnitude above what a
// case takes on a loaded machine.
func Watchdog(d time.Duration) Opt { return func(s *subState) { s.watchdog = d } }

// defaultWatchdog applies to every sub-check that does not set its own, except those of
// scheduler variants (one "case" there is a whole exploration that runs up to the tier's
// deadline; the scheduler has its own per-execution watchdog). No case of any check takes
// more than seconds.
const defaultWatchdog = 15 * time.Minute

// stuckGrace: how long after its deadline a worker may still be running before the parent
// ends it.
const stuckGrace = 10 * time.Minute

// replayOut is the real standard output while a replay captures the worker's records.
var replayOut = os.Stdout

// hangExit is the exit status of a worker whose watchdog fired.
const hangExit = 97

// NewSub declares a sub-check. run is called once per case.
func NewSub[C any](w *W, name string, run func(c C, r *Rec), opts ...Opt) *Sub[C] {
	// journaling is on for every sub-check: code under test that panics on a goroutine of
	// its own takes the worker process down, and only the journal says which case it was
	st := &subState{Name: name, Outcomes: map[string]int{}, w: w, Notes: map[string]any{}, journal: true}
	for _, o := range opts {
		o(st)
	}
	if st.watchdog == 0 && !strings.HasPrefix(st.Variant, "sched") {
		st.watchdog = defaultWatchdog
	}
	s := &Sub[C]{st: st, run: run}
	st.replay = func(raw json.RawMessage, w *W) {
		var c C
		if err := json.Unmarshal(raw, &c); err != nil {
			fmt.Fprintf(os.Stderr, "replay: cannot decode case: %v\n", err)
			os.Exit(2)
		}
		if st.watchdog > 0 {
			// replay of a case that does not return: say so instead of hanging
			t := time.AfterFunc(st.watchdog, func() {
				fmt.Fprintf(replayOut, "VIOLATION property=%s replay=%s\n  sub=%s fingerprint=hang:case-did-not-return: the case did not return within %v\n", w.cfg.ID, os.Getenv("VERIF_REPLAY_PATH"), st.Name, st.watchdog)
				os.Exit(1)
			})
			defer t.Stop()
		}
		s.exec(c)
	}
	w.subs = append(w.subs, st)
	return s
}

// Active reports whether this worker should enumerate the sub-check at all
// (right variant, not in replay mode for another sub, deadline not hit).
func (s *Sub[C]) Active() bool {
	w := s.st.w
	if w.replaySub != "" {
		return false
	}
	if s.st.Variant != w.Variant {
		return false
	}
	if w.skip[s.st.Name] >= skipAll {
		// completed (and reported) by this worker before it crashed and was restarted
		s.st.emitted = true
		return false
	}
	s.st.started = true
	return !w.Expired()
}

// Note attaches a key/value to the sub-check's evidence.
func (s *Sub[C]) Note(k string, v any) { s.st.Notes[k] = v }

// AddNote accumulates a counter in the evidence (summed over workers).
func (s *Sub[C]) AddNote(k string, n int) {
	if s.st.Sums == nil {
		s.st.Sums = map[string]int64{}
	}
	s.st.Sums[k] += int64(n)
}

// MaxNote keeps the maximum of a measure in the evidence.
func (s *Sub[C]) MaxNote(k string, n int) {
	if s.st.Maxs == nil {
		s.st.Maxs = map[string]int64{}
	}
	if int64(n) > s.st.Maxs[k] {
		s.st.Maxs[k] = int64(n)
	}
}

// MinNote keeps the minimum of a measure in the evidence (e.g. the bound completed by
// every shard of a scenario).
func (s *Sub[C]) MinNote(k string, n int) {
	if s.st.Mins == nil {
		s.st.Mins = map[string]int64{}
	}
	if v, ok := s.st.Mins[k]; !ok || int64(n) < v {
		s.st.Mins[k] = int64(n)
	}
}

// Incomplete says that part of the sub-check's stated space was not covered (a scenario
// ended below its target bound): the evidence then reports exhaustive:false.
func (s *Sub[C]) Incomplete(reason string) { s.st.Partial = reason }

// Count adds explicit evaluation/state/transition counts (explorer-driven sub-checks).
func (s *Sub[C]) Count(evals, states, transitions int64) {
	s.st.Evals += evals
	s.st.States += states
	s.st.Transitions += transitions
}

// Skip records that the sub-check could not run (e.g. scaled constant not
// found); never an alarm.
func (s *Sub[C]) Skip(reason string) { s.st.Skipped = reason }

// skipAll in the restart arguments means: the sub-check was completed before the crash.
const skipAll = 1 << 30

// Done marks the enumeration of this sub-check as complete (call it after the
// loop if the deadline did not cut it short). The counters are reported right
// away, so they survive a later crash of the worker.
func (s *Sub[C]) Done() {
	if s.st.started && !s.st.w.Expired() && s.st.Partial == "" {
		s.st.Complete = true
	}
	if !s.st.emitted && s.st.w.replaySub == "" {
		s.st.emitted = true
		s.st.w.emit(map[string]any{"t": "s", "sub": s.st})
	}
}

// Do runs the case if this worker owns its ordinal.
func (s *Sub[C]) Do(c C) {
	st := s.st
	ord := st.ord
	st.ord++
	if !st.w.Owns(ord) {
		return
	}
	s.DoOwned(c)
}

// DoOwned runs the case unconditionally (the caller sharded already).
func (s *Sub[C]) DoOwned(c C) {
	st := s.st
	w := st.w
	if w.Expired() {
		return
	}
	st.owned++
	if k := w.skip[st.Name]; k > 0 && st.owned <= k {
		return
	}
	if st.journal {
		b, _ := json.Marshal(c)
		w.emit(map[string]any{"t": "j", "sub": st.Name, "owned": st.owned, "case": json.RawMessage(b)})
	}
	if st.watchdog > 0 && w.replaySub == "" {
		owned := st.owned
		t := time.AfterFunc(st.watchdog, func() {
			b, _ := json.Marshal(c)
			w.emit(map[string]any{"t": "hang", "sub": st.Name, "owned": owned, "case": json.RawMessage(b),
				"msg": fmt.Sprintf("the case did not return within %v", st.watchdog)})
			os.Exit(hangExit)
		})
		defer t.Stop()
	}
	s.exec(c)
}

// Bulk lets a hot loop account for n evaluations it ran without Do.
func (s *Sub[C]) Bulk(evals, nontrivial, transitions int64) {
	s.st.Evals += evals
	s.st.Nontrivial += nontrivial
	s.st.Transitions += transitions
	s.st.States += evals
}

// BulkOutcome counts an outcome class from a hot loop.
func (s *Sub[C]) BulkOutcome(o string, n int) { s.st.Outcomes[o] += n }

// Report records a failure found by a hot loop for case c.
func (s *Sub[C]) Report(c C, fp, format string, args ...any) {
	b, _ := json.Marshal(c)
	t := "v"
	if strings.HasPrefix(fp, "harness:") {
		t = "h"
	}
	s.st.w.emit(map[string]any{"t": t, "sub": s.st.Name, "fp": fp, "msg": fmt.Sprintf(format, args...), "case": json.RawMessage(b)})
}

// Sample stores a case in the evidence samples (bounded).
func (s *Sub[C]) Sample(c C) {
	if len(s.st.Samples) < 3 {
		s.st.Samples = append(s.st.Samples, c)
	}
}

// PanicSite extracts the first wharf function on a stack trace.
func PanicSite(stack string) string {
	const pfx = "github.com/itchio/wharf/"
	for _, line := range strings.Split(stack, "\n") {
		if strings.HasPrefix(line, "\t") || !strings.HasPrefix(line, pfx) {
			continue
		}
		m := strings.TrimPrefix(line, pfx)
		if strings.HasPrefix(m, "zzverif/") {
			continue
		}
		if i := strings.LastIndex(m, "("); i > 0 {
			m = m[:i]
		}
		if strings.HasPrefix(m, "created by ") {
			continue
		}
		// strip closure suffixes so that the fingerprint names the function
		for {
			i := strings.LastIndex(m, ".func")
			if i < 0 {
				break
			}
			m = m[:i]
		}
		m = strings.TrimSuffix(m, ".")
		m = strings.TrimSuffix(m, "[...]")
		return m
	}
	return "unknown"
}

func (s *Sub[C]) exec(c C) {
	st := s.st
	r := &Rec{s: st}
	func() {
		defer func() {
			if e := recover(); e != nil {
				stack := string(debug.Stack())
				site := PanicSite(stack)
				fp := "panic:" + site
				if site == "unknown" {
					// no wharf function anywhere on the stack: the harness itself panicked
					fp = "harness:panic-in-harness"
				}
				r.fails = append(r.fails, failure{FP: fp, Msg: fmt.Sprintf("panic: %v", e), Detail: trimStack(stack)})
			}
		}()
		s.run(c, r)
	}()
	st.Evals++
	st.States++
	if r.nontriv {
		st.Nontrivial++
	}
	if r.outcome != "" {
		st.Outcomes[r.outcome]++
	}
	if len(st.Samples) < 2 || (r.nontriv && len(st.Samples) < 4) {
		st.Samples = append(st.Samples, c)
	}
	if len(r.fails) > 0 {
		b, _ := json.Marshal(c)
		for _, f := range r.fails {
			t := "v"
			if strings.HasPrefix(f.FP, "harness:") {
				// the check could not decide this case (its own machinery failed): never a
				// VIOLATION line; the run ends with exit 2
				t = "h"
			}
			st.w.emit(map[string]any{"t": t, "sub": st.Name, "fp": f.FP, "msg": f.Msg, "detail": f.Detail, "case": json.RawMessage(b)})
		}
	}
}

func trimStack(s string) string {
	lines := strings.Split(s, "\n")
	if len(lines) > 40 {
		lines = lines[:40]
	}
	return strings.Join(lines, "\n")
}

func (w *W) emit(m map[string]any) {
	b, err := json.Marshal(m)
	if err != nil {
		panic(err)
	}
	w.outMu.Lock()
	w.out.Write(b)
	w.out.WriteByte('\n')
	w.out.Flush()
	w.outMu.Unlock()
}

// ---------------------------------------------------------------------------

type knownFinding struct {
	Status      string `json:"status"` // known | fixed
	Property    string `json:"property"`
	Sub         string `json:"sub,omitempty"`
	Fingerprint string `json:"fingerprint,omitempty"`
	What        string `json:"what"`
	Commit      string `json:"commit,omitempty"`
}

func verifRoot() string {
	if r := os.Getenv("VERIF_ROOT"); r != "" {
		return r
	}
	exe, err := os.Executable()
	if err == nil {
		d := filepath.Dir(filepath.Dir(exe))
		if _, err := os.Stat(filepath.Join(d, "properties.jsonl")); err == nil {
			return d
		}
	}
	wd, _ := os.Getwd()
	return wd
}

// Main is the entry point of every check binary.
func Main(cfg Config, body func(w *W)) {
	tier := flag.String("tier", envOr("VERIF_TIER", "quick"), "quick|thorough")
	worker := flag.String("worker", "", "internal: i/n")
	variant := flag.String("variant", "", "internal: binary variant")
	replay := flag.String("replay", "", "replay file")
	skipArg := flag.String("skip", "", "internal: sub=count,... owned cases to skip")
	budget := flag.Duration("budget", 0, "override internal deadline")
	flag.Parse()
	if *tier != "quick" && *tier != "thorough" {
		*tier = "quick"
	}
	seed, _ := strconv.ParseInt(envOr("VERIF_SEED", "1"), 10, 64)

	if *worker != "" {
		runWorker(cfg, body, *tier, seed, *worker, *variant, *skipArg, *budget, "", nil)
		return
	}
	if *replay != "" {
		os.Exit(runReplay(cfg, body, *replay, seed))
	}
	os.Exit(runParent(cfg, *tier, seed, *budget))
}

func envOr(k, d string) string {
	if v := os.Getenv(k); v != "" {
		return v
	}
	return d
}

func runWorker(cfg Config, body func(w *W), tier string, seed int64, shard, variant, skipArg string, budget time.Duration, replaySub string, replayRaw json.RawMessage) {
	var idx, n int
	fmt.Sscanf(shard, "%d/%d", &idx, &n)
	if n == 0 {
		n = 1
	}
	if cfg.GOMAXPROCS1 || strings.HasPrefix(variant, "sched") {
		// scheduler-controlled workers: one P per process (hand-offs are cheaper)
		runtime.GOMAXPROCS(1)
	}
	w := &W{cfg: cfg, Tier: tier, Seed: seed, Variant: variant, idx: idx, n: n, out: bufio.NewWriter(os.Stdout), skip: map[string]int{}}
	if skipArg != "" {
		for _, kv := range strings.Split(skipArg, ",") {
			p := strings.SplitN(kv, "=", 2)
			if len(p) == 2 {
				k, _ := strconv.Atoi(p[1])
				w.skip[p[0]] = k
			}
		}
	}
	if budget == 0 {
		budget = cfg.QuickBudget
		if tier == "thorough" {
			budget = cfg.ThoroughBudget
		}
	}
	if budget > 0 && replaySub == "" {
		w.deadline = time.Now().Add(budget)
	}
	base := os.Getenv("VERIF_SCRATCH")
	if base == "" {
		base = scratchBase()
		defer os.RemoveAll(base)
	}
	w.scratch = filepath.Join(base, fmt.Sprintf("w%d-%s", idx, variant))
	// a worker restarted after a crash must not inherit the leftovers of its predecessor
	os.RemoveAll(w.scratch)
	os.MkdirAll(w.scratch, 0o755)
	defer os.RemoveAll(w.scratch)
	w.replaySub, w.replayRaw = replaySub, replayRaw

	body(w)

	if replaySub != "" {
		found := false
		for _, s := range w.subs {
			if s.Name == replaySub {
				found = true
				s.replay(replayRaw, w)
			}
		}
		if !found {
			fmt.Fprintf(os.Stderr, "replay: no sub-check %q in this binary (variant %q)\n", replaySub, variant)
			os.Exit(2)
		}
	}
	for _, s := range w.subs {
		if s.Variant != variant && replaySub == "" {
			continue
		}
		if s.emitted {
			continue
		}
		w.emit(map[string]any{"t": "s", "sub": s})
	}
	w.emit(map[string]any{"t": "end"})
}

func scratchBase() string {
	root := "/dev/shm"
	if st, err := os.Stat(root); err != nil || !st.IsDir() {
		root = os.TempDir()
	}
	d, err := os.MkdirTemp(root, "verif-")
	if err != nil {
		d, _ = os.MkdirTemp("", "verif-")
	}
	return d
}

type violation struct {
	Sub    string          `json:"sub"`
	FP     string          `json:"fp"`
	Msg    string          `json:"msg"`
	Detail string          `json:"detail,omitempty"`
	Case   json.RawMessage `json:"case"`
}

type workerResult struct {
	subs       []*subState
	violations []violation
	harness    []violation
	ended      bool
}

func binFor(variant string) string {
	exe, _ := os.Executable()
	if variant == "" {
		return exe
	}
	return exe + "." + variant
}

func runParent(cfg Config, tier string, seed int64, budget time.Duration) int {
	start := time.Now()
	root := verifRoot()
	known := loadKnown(root, cfg.ID)
	base := scratchBase()
	defer os.RemoveAll(base)
	os.Setenv("VERIF_SCRATCH", base)

	nw := cfg.Workers
	if nw == 0 {
		nw = runtime.NumCPU()
	}
	if v := os.Getenv("VERIF_WORKERS"); v != "" {
		nw, _ = strconv.Atoi(v)
	}
	variants := append([]string{""}, cfg.Variants...)
	agg := map[string]*subState{}
	var order []string
	var viols []violation
	var skippedVariants []string
	harnessErr := false

	for _, v := range variants {
		bin := binFor(v)
		if _, err := os.Stat(bin); err != nil {
			skippedVariants = append(skippedVariants, v)
			continue
		}
		results := make([]workerResult, nw)
		var wg sync.WaitGroup
		for i := 0; i < nw; i++ {
			wg.Add(1)
			go func(i int) {
				defer wg.Done()
				results[i] = superviseWorker(bin, v, tier, i, nw, budget)
			}(i)
		}
		wg.Wait()
		for _, r := range results {
			if !r.ended {
				harnessErr = true
			}
			viols = append(viols, r.violations...)
			for i, h := range r.harness {
				harnessErr = true
				if i < 3 {
					fmt.Fprintf(os.Stderr, "HARNESS-ERROR property=%s sub=%s %s: %s\n", cfg.ID, h.Sub, h.FP, firstLine(h.Msg))
				}
			}
			for _, s := range r.subs {
				a := agg[s.Name]
				if a == nil {
					a = &subState{Name: s.Name, Variant: s.Variant, Outcomes: map[string]int{}, Complete: true, Notes: map[string]any{}}
					agg[s.Name] = a
					order = append(order, s.Name)
				}
				a.Evals += s.Evals
				a.Nontrivial += s.Nontrivial
				a.Transitions += s.Transitions
				a.States += s.States
				for k, n := range s.Outcomes {
					a.Outcomes[k] += n
				}
				if len(a.Samples) < 4 {
					a.Samples = append(a.Samples, s.Samples...)
					if len(a.Samples) > 4 {
						a.Samples = a.Samples[:4]
					}
				}
				if !s.Complete {
					a.Complete = false
				}
				if s.Skipped != "" {
					a.Skipped = s.Skipped
				}
				for k, v := range s.Notes {
					a.Notes[k] = v
				}
				for k, v := range s.Sums {
					if n, ok := a.Notes[k].(int64); ok {
						a.Notes[k] = n + v
					} else {
						a.Notes[k] = v
					}
				}
				for k, v := range s.Maxs {
					if n, ok := a.Notes[k].(int64); !ok || v > n {
						a.Notes[k] = v
					}
				}
				for k, v := range s.Mins {
					if n, ok := a.Notes[k].(int64); !ok || v < n {
						a.Notes[k] = v
					}
				}
				if s.Partial != "" {
					a.Notes["partial"] = s.Partial
				}
			}
		}
	}

	// classify violations
	os.MkdirAll(filepath.Join(root, "replays"), 0o755)
	knownHit := map[int]int{}
	type unk struct {
		v    violation
		path string
	}
	var unknown []unk
	seenFP := map[string]int{}
	for _, v := range viols {
		if k := matchKnown(known, v); k >= 0 {
			knownHit[k]++
			continue
		}
		key := v.Sub + "|" + v.FP
		seenFP[key]++
		if seenFP[key] > 3 { // keep at most 3 replay files per failure class
			continue
		}
		name := fmt.Sprintf("%s-%s-%d.json", cfg.ID, sanitize(v.Sub+"-"+v.FP), seenFP[key])
		path := filepath.Join(root, "replays", name)
		rf := map[string]any{"property": cfg.ID, "sub": v.Sub, "variant": agg[v.Sub].variantOrEmpty(), "fingerprint": v.FP, "message": v.Msg, "detail": v.Detail, "case": v.Case, "seed": seed, "tier": tier}
		b, _ := json.MarshalIndent(rf, "", " ")
		os.WriteFile(path, b, 0o644)
		unknown = append(unknown, unk{v, path})
	}

	var knownLines []string
	for k, n := range knownHit {
		knownLines = append(knownLines, fmt.Sprintf("KNOWN-FINDING: property=%s %s [sub=%s fingerprint=%s cases=%d]", cfg.ID, known[k].What, known[k].Sub, known[k].Fingerprint, n))
	}
	sort.Strings(knownLines)
	for _, l := range knownLines {
		fmt.Println(l)
	}
	totalUnknown := 0
	for _, n := range seenFP {
		totalUnknown += n
	}
	for _, u := range unknown {
		fmt.Printf("VIOLATION property=%s replay=%s\n", cfg.ID, u.path)
		fmt.Printf("  sub=%s fingerprint=%s: %s\n", u.v.Sub, u.v.FP, firstLine(u.v.Msg))
	}

	// evidence
	var evals, nontriv, trans, states int64
	exhaustive := true
	var samples []any
	subsOut := []any{}
	distinctOutcomes := 0
	for _, name := range order {
		a := agg[name]
		evals += a.Evals
		nontriv += a.Nontrivial
		trans += a.Transitions
		states += a.States
		if !a.Complete || a.Skipped != "" {
			exhaustive = false
		}
		for _, s := range a.Samples {
			if len(samples) < 12 {
				samples = append(samples, map[string]any{"sub": name, "case": s})
			}
		}
		distinctOutcomes += len(a.Outcomes)
		subsOut = append(subsOut, map[string]any{"name": a.Name, "variant": a.Variant, "evaluations": a.Evals, "distinct_nontrivial": a.Nontrivial, "states": a.States, "transitions": a.Transitions, "outcomes": a.Outcomes, "complete": a.Complete, "skipped": a.Skipped, "notes": a.Notes})
	}
	if len(skippedVariants) > 0 {
		exhaustive = false
	}
	if trans == 0 {
		trans = evals
	}
	cov := map[string]any{
		"evaluations": evals, "distinct_nontrivial": nontriv, "rule": cfg.Rule, "samples": samples,
		"states": states, "transitions": trans, "traces_validated_against_impl": evals,
		"exhaustive": exhaustive && !harnessErr, "sub_checks": subsOut, "distinct_outcomes": distinctOutcomes,
		"skipped_variants": skippedVariants, "known_findings_hit": knownLines, "workers": nw,
	}
	ev := map[string]any{
		"property_id": cfg.ID, "tier": tier, "seed": seed, "level": cfg.Level, "coverage": cov,
		"assumptions": cfg.Assumptions, "wall_s": time.Since(start).Seconds(), "violations": totalUnknown,
	}
	b, _ := json.MarshalIndent(ev, "", " ")
	os.MkdirAll(filepath.Join(root, "evidence"), 0o755)
	if err := os.WriteFile(filepath.Join(root, "evidence", cfg.ID+".json"), b, 0o644); err != nil {
		fmt.Fprintf(os.Stderr, "cannot write evidence: %v\n", err)
		return 2
	}
	fmt.Printf("%s tier=%s evaluations=%d nontrivial=%d states=%d transitions=%d outcomes=%d exhaustive=%v known=%d violations=%d wall=%.1fs\n",
		cfg.ID, tier, evals, nontriv, states, trans, distinctOutcomes, exhaustive && !harnessErr, len(knownHit), totalUnknown, time.Since(start).Seconds())
	for _, name := range order {
		a := agg[name]
		fmt.Printf("  sub %-28s evals=%-9d nontrivial=%-9d outcomes=%d complete=%v %s\n", name, a.Evals, a.Nontrivial, len(a.Outcomes), a.Complete, a.Skipped)
	}
	if totalUnknown > 0 {
		return 1
	}
	if harnessErr {
		fmt.Fprintln(os.Stderr, "harness error: the check's own machinery failed (worker died without a journaled case, or HARNESS-ERROR lines above); nothing is claimed for the affected cases")
		return 2
	}
	return 0
}

func (s *subState) variantOrEmpty() string {
	if s == nil {
		return ""
	}
	return s.Variant
}

func firstLine(s string) string {
	if i := strings.IndexByte(s, '\n'); i >= 0 {
		s = s[:i]
	}
	if len(s) > 300 {
		s = s[:300]
	}
	return s
}

func sanitize(s string) string {
	var b strings.Builder
	for _, c := range s {
		if c >= 'a' && c <= 'z' || c >= 'A' && c <= 'Z' || c >= '0' && c <= '9' || c == '-' || c == '_' || c == '.' {
			b.WriteRune(c)
		} else {
			b.WriteByte('_')
		}
	}
	r := b.String()
	if len(r) > 80 {
		r = r[:80]
	}
	return r
}

// superviseWorker runs one shard, restarting it after the crashing case if the
// process dies.
func superviseWorker(bin, variant, tier string, i, n int, budget time.Duration) workerResult {
	var res workerResult
	skip := map[string]int{}
	hangs := 0
	for attempt := 0; attempt < 200; attempt++ {
		args := []string{"--worker", fmt.Sprintf("%d/%d", i, n), "--tier", tier, "--variant", variant}
		if budget > 0 {
			args = append(args, "--budget", budget.String())
		}
		if len(skip) > 0 {
			var parts []string
			for k, v := range skip {
				parts = append(parts, fmt.Sprintf("%s=%d", k, v))
			}
			args = append(args, "--skip", strings.Join(parts, ","))
		}
		cmd := exec.Command(bin, args...)
		if strings.HasPrefix(variant, "race") {
			logBase := filepath.Join(os.Getenv("VERIF_SCRATCH"), fmt.Sprintf("racelog-%d", i))
			cmd.Env = append(os.Environ(), "GORACE=log_path="+logBase+" halt_on_error=0", "VERIF_RACE_LOG="+logBase)
		}
		var stderr bytes.Buffer
		cmd.Stderr = &limitedWriter{w: &stderr, n: 1 << 20}
		stdout, _ := cmd.StdoutPipe()
		if err := cmd.Start(); err != nil {
			fmt.Fprintf(os.Stderr, "cannot start worker: %v\n", err)
			return res
		}
		// a worker checks its deadline between cases; one that is still there long after
		// it is stuck inside a case (hot loops have no per-case watchdog): it is ended and
		// the run is a harness error ("could not decide"), never a silent pass
		var stuck atomic.Bool
		var killer *time.Timer
		if budget > 0 {
			killer = time.AfterFunc(budget+stuckGrace, func() {
				stuck.Store(true)
				cmd.Process.Kill()
			})
		}
		var lastJ struct {
			Sub   string
			Owned int
			Case  json.RawMessage
		}
		haveJ, hung := false, false
		doneSubs := map[string]bool{}
		ended := false
		rd := bufio.NewReaderSize(stdout, 1<<20)
		for {
			line, err := rd.ReadBytes('\n')
			if len(line) > 0 {
				var m struct {
					T      string          `json:"t"`
					Sub    json.RawMessage `json:"sub"`
					Owned  int             `json:"owned"`
					Case   json.RawMessage `json:"case"`
					FP     string          `json:"fp"`
					Msg    string          `json:"msg"`
					Detail string          `json:"detail"`
				}
				if json.Unmarshal(line, &m) == nil {
					switch m.T {
					case "j":
						json.Unmarshal(m.Sub, &lastJ.Sub)
						lastJ.Owned, lastJ.Case = m.Owned, m.Case
						haveJ = true
					case "v":
						var sn string
						json.Unmarshal(m.Sub, &sn)
						res.violations = append(res.violations, violation{Sub: sn, FP: m.FP, Msg: m.Msg, Detail: m.Detail, Case: m.Case})
					case "h":
						var sn string
						json.Unmarshal(m.Sub, &sn)
						res.harness = append(res.harness, violation{Sub: sn, FP: m.FP, Msg: m.Msg, Detail: m.Detail, Case: m.Case})
					case "s":
						var s subState
						if json.Unmarshal(m.Sub, &s) == nil {
							res.subs = append(res.subs, &s)
							doneSubs[s.Name] = true
						}
					case "hang":
						json.Unmarshal(m.Sub, &lastJ.Sub)
						lastJ.Owned, lastJ.Case = m.Owned, m.Case
						haveJ, hung = true, true
						res.violations = append(res.violations, violation{Sub: lastJ.Sub, FP: "hang:case-did-not-return", Msg: m.Msg, Case: m.Case})
					case "end":
						ended = true
					}
				}
			}
			if err != nil {
				break
			}
		}
		werr := cmd.Wait()
		if killer != nil {
			killer.Stop()
		}
		if ended && werr == nil {
			res.ended = true
			return res
		}
		if stuck.Load() {
			res.harness = append(res.harness, violation{Sub: lastJ.Sub, FP: "harness:worker-stuck", Msg: fmt.Sprintf("worker %d/%d (%s) was still running %v after its deadline and was ended; last journaled case attached (if any)", i, n, variant, stuckGrace), Case: lastJ.Case})
			return res
		}
		// crashed
		if !haveJ {
			fmt.Fprintf(os.Stderr, "worker %d/%d (%s) died without a journaled case: %v\n%s\n", i, n, variant, werr, tail(stderr.String(), 3000))
			return res
		}
		st := stderr.String()
		site := crashSite(st)
		if hung {
			// reported already; the worker ended itself
			hangs++
			if hangs >= 3 {
				// enough examples; the rest of this shard stays unexplored (exhaustive:false)
				return res
			}
		} else if site == "unknown" {
			// no wharf function on the crashing goroutine's stack: the harness itself crashed
			res.harness = append(res.harness, violation{Sub: lastJ.Sub, FP: "harness:crash-in-harness", Msg: "worker crashed outside wharf code: " + firstLine(crashLine(st)), Detail: tail(st, 3000), Case: lastJ.Case})
		} else {
			res.violations = append(res.violations, violation{Sub: lastJ.Sub, FP: "crash:" + site, Msg: "process crashed: " + firstLine(crashLine(st)), Detail: tail(st, 3000), Case: lastJ.Case})
		}
		// counters of the crashed attempt are lost for the cases before the crash;
		// they are re-enumerated as skipped, so account for them here (only the
		// cases since the previous restart point of this sub-check).
		for name := range doneSubs {
			if name != lastJ.Sub {
				skip[name] = skipAll
			}
		}
		delta := int64(lastJ.Owned - skip[lastJ.Sub])
		skip[lastJ.Sub] = lastJ.Owned
		what := "crash"
		if hung {
			what = "hang"
		}
		res.subs = append(res.subs, &subState{Name: lastJ.Sub, Variant: variant, Evals: delta, States: delta, Outcomes: map[string]int{what: 1}, Complete: true})
	}
	return res
}

type limitedWriter struct {
	w io.Writer
	n int
}

func (l *limitedWriter) Write(p []byte) (int, error) {
	if l.n > 0 {
		q := p
		if len(q) > l.n {
			q = q[:l.n]
		}
		l.w.Write(q)
		l.n -= len(q)
	}
	return len(p), nil
}

func tail(s string, n int) string {
	if len(s) > n {
		return s[:n]
	}
	return s
}

func crashLine(st string) string {
	for _, l := range strings.Split(st, "\n") {
		if strings.HasPrefix(l, "panic:") || strings.HasPrefix(l, "fatal error:") {
			return l
		}
	}
	return firstLine(st)
}

func crashSite(st string) string {
	i := strings.Index(st, "[running]:")
	if i < 0 {
		return PanicSite(st)
	}
	return PanicSite(st[i:])
}

func loadKnown(root, id string) []knownFinding {
	var all []knownFinding
	b, err := os.ReadFile(filepath.Join(root, "known_findings.json"))
	if err != nil {
		return nil
	}
	var f struct {
		Findings []knownFinding `json:"findings"`
	}
	if json.Unmarshal(b, &f) != nil {
		return nil
	}
	for _, k := range f.Findings {
		if k.Property == id && k.Status == "known" {
			all = append(all, k)
		}
	}
	return all
}

func matchKnown(known []knownFinding, v violation) int {
	for i, k := range known {
		if (k.Sub == v.Sub || k.Sub == "*") && k.Fingerprint == v.FP {
			return i
		}
	}
	return -1
}

func runReplay(cfg Config, body func(w *W), path string, seed int64) int {
	b, err := os.ReadFile(path)
	if err != nil {
		fmt.Fprintln(os.Stderr, err)
		return 2
	}
	var rf struct {
		Sub     string          `json:"sub"`
		Variant string          `json:"variant"`
		Case    json.RawMessage `json:"case"`
		Tier    string          `json:"tier"`
		Seed    int64           `json:"seed"`
		Worker  string          `json:"worker"`
	}
	if err := json.Unmarshal(b, &rf); err != nil {
		fmt.Fprintln(os.Stderr, err)
		return 2
	}
	if rf.Seed != 0 {
		seed = rf.Seed
	}
	if rf.Variant != "" && os.Getenv("VERIF_REPLAY_CHILD") == "" {
		cmd := exec.Command(binFor(rf.Variant), "--replay", path)
		cmd.Env = append(os.Environ(), "VERIF_REPLAY_CHILD=1")
		cmd.Stdout, cmd.Stderr = os.Stdout, os.Stderr
		if err := cmd.Run(); err != nil {
			if ee, ok := err.(*exec.ExitError); ok {
				return ee.ExitCode()
			}
			return 2
		}
		return 0
	}
	// run the worker body in-process with stdout captured through a pipe
	pr, pw, _ := os.Pipe()
	realOut := os.Stdout
	replayOut = realOut
	os.Stdout = pw
	done := make(chan []violation)
	go func() {
		var vs []violation
		rd := bufio.NewReaderSize(pr, 1<<20)
		for {
			line, err := rd.ReadBytes('\n')
			if len(line) > 0 {
				var m struct {
					T      string          `json:"t"`
					Sub    json.RawMessage `json:"sub"`
					FP     string          `json:"fp"`
					Msg    string          `json:"msg"`
					Detail string          `json:"detail"`
					Case   json.RawMessage `json:"case"`
				}
				if json.Unmarshal(line, &m) == nil && m.T == "v" {
					var sn string
					json.Unmarshal(m.Sub, &sn)
					vs = append(vs, violation{Sub: sn, FP: m.FP, Msg: m.Msg, Detail: m.Detail, Case: m.Case})
				}
			}
			if err != nil {
				break
			}
		}
		done <- vs
	}()
	tier := rf.Tier
	if tier == "" {
		tier = "quick"
	}
	os.Setenv("VERIF_REPLAY_PATH", path)
	runWorker(cfg, body, tier, seed, "0/1", rf.Variant, "", 0, rf.Sub, rf.Case)
	pw.Close()
	os.Stdout = realOut
	vs := <-done
	if len(vs) == 0 {
		fmt.Printf("replay: case passes (property %s, sub %s)\n", cfg.ID, rf.Sub)
		return 0
	}
	for _, v := range vs {
		fmt.Printf("VIOLATION property=%s replay=%s\n  sub=%s fingerprint=%s: %s\n", cfg.ID, path, v.Sub, v.FP, v.Msg)
		if v.Detail != "" {
			fmt.Println(v.Detail)
		}
	}
	return 1
}
