// selfcheck is a miniature check used by lib/runner's own test: one sub-check whose third
// case never returns and whose fifth case crashes the process inside (pretended) wharf code.
package main

import (
	"time"

	"verif/lib/runner"
)

type Case struct {
	N int `json:"n"`
}

func main() {
	runner.Main(runner.Config{ID: "T00", Level: "model_checking", Rule: "runner self-test", QuickBudget: time.Minute, ThoroughBudget: time.Minute}, func(w *runner.W) {
		sub := runner.NewSub(w, "hangs", func(c Case, r *runner.Rec) {
			if c.N == 3 {
				select {}
			}
			r.Outcome("ok")
		}, runner.Watchdog(2*time.Second))
		if sub.Active() {
			for i := 0; i < 40; i++ {
				sub.Do(Case{N: i})
			}
			sub.Done()
		}
	})
}
