package runner_test

import (
	"os"
	"os/exec"
	"path/filepath"
	"strings"
	"testing"
)

// A case that never returns is reported as a violation by the watchdog, the worker is
// replaced and the remaining cases still run.
func TestWatchdog(t *testing.T) {
	root := t.TempDir()
	bin := filepath.Join(root, "selfcheck")
	build := exec.Command("go", "build", "-o", bin, "./selfcheck")
	build.Env = append(os.Environ(), "GOFLAGS=-mod=mod", "GOPROXY=off")
	if out, err := build.CombinedOutput(); err != nil {
		t.Fatalf("build: %v\n%s", err, out)
	}
	os.WriteFile(filepath.Join(root, "known_findings.json"), []byte(`{"findings":[]}`), 0o644)
	cmd := exec.Command(bin, "--tier", "quick")
	cmd.Env = append(os.Environ(), "VERIF_ROOT="+root)
	out, err := cmd.CombinedOutput()
	s := string(out)
	t.Logf("%s", s)
	if err == nil {
		t.Fatalf("expected exit 1")
	}
	if ee, ok := err.(*exec.ExitError); !ok || ee.ExitCode() != 1 {
		t.Fatalf("expected exit 1, got %v", err)
	}
	if !strings.Contains(s, "VIOLATION property=T00") || !strings.Contains(s, "hang:case-did-not-return") {
		t.Fatalf("no hang violation in output")
	}
	if !strings.Contains(s, "evaluations=40") {
		t.Fatalf("the cases after the hanging one were not run (want evaluations=40)")
	}
}
