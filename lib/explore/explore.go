// Package explore is engine E1: a choice-tape explorer. A body is a
// deterministic function of the answers it gets from Tape.Choose; the explorer
// enumerates all tapes depth-first, optionally bounding the number of
// deviations (non-zero answers) per execution.
package explore

import "fmt"

// Tape answers the choices of one execution.
type Tape struct {
	prefix  []int
	Choices []int
	Arity   []int
	Labels  []string
	Cost    []int // cost of taking a non-default answer at this point
}

// Choose returns an int in [0,n). Answer 0 is the default answer.
func (t *Tape) Choose(n int, label string) int { return t.ChooseCost(n, label, 1) }

// ChooseCost is Choose with an explicit deviation cost for non-default answers
// (0 = free choice, always fully explored).
func (t *Tape) ChooseCost(n int, label string, cost int) int {
	if n <= 0 {
		panic("explore: Choose with n <= 0")
	}
	i := len(t.Choices)
	c := 0
	if i < len(t.prefix) {
		c = t.prefix[i]
		if c >= n {
			panic(fmt.Sprintf("explore: replay divergence at choice %d (%s): recorded answer %d, arity now %d", i, label, c, n))
		}
	}
	t.Choices = append(t.Choices, c)
	t.Arity = append(t.Arity, n)
	t.Labels = append(t.Labels, label)
	t.Cost = append(t.Cost, cost)
	return c
}

// Deviations returns the total cost of the non-default answers taken.
func (t *Tape) Deviations() int {
	d := 0
	for i, c := range t.Choices {
		if c != 0 {
			d += t.Cost[i]
		}
	}
	return d
}

// NewTape returns a tape that replays prefix and then answers 0.
func NewTape(prefix []int) *Tape { return &Tape{prefix: prefix} }

// Stats are the counters of one exploration.
type Stats struct {
	Executions  int
	ChoicePts   int
	Transitions int
	MaxDepth    int
	Truncated   bool
}

// DFS explores every tape of body whose deviation cost is <= bound (bound < 0:
// unbounded). body returns false to stop the whole exploration (deadline).
func DFS(bound int, body func(t *Tape) bool) Stats {
	var st Stats
	var rec func(prefix []int) bool
	rec = func(prefix []int) bool {
		t := NewTape(prefix)
		ok := body(t)
		st.Executions++
		st.ChoicePts += len(t.Choices)
		st.Transitions += len(t.Choices) - len(prefix) + 1
		if len(t.Choices) > st.MaxDepth {
			st.MaxDepth = len(t.Choices)
		}
		if !ok {
			st.Truncated = true
			return false
		}
		if len(t.Choices) < len(prefix) {
			panic("explore: replay divergence: execution made fewer choices than its prefix")
		}
		used := 0
		for i := 0; i < len(prefix); i++ {
			if t.Choices[i] != 0 {
				used += t.Cost[i]
			}
		}
		for i := len(prefix); i < len(t.Choices); i++ {
			if bound >= 0 && used+t.Cost[i] > bound {
				continue
			}
			for alt := 1; alt < t.Arity[i]; alt++ {
				np := make([]int, i+1)
				copy(np, t.Choices[:i])
				np[i] = alt
				if !rec(np) {
					return false
				}
			}
		}
		return true
	}
	rec(nil)
	return st
}
