// Package mempool is a boring in-memory lake.Pool / lake.WritablePool.
package mempool

import (
	"bytes"
	"fmt"
	"io"
)

// Pool serves a fixed list of byte strings as files.
type Pool struct {
	Files [][]byte
	// Written receives the content of files written through GetWriter.
	Written map[int64]*bytes.Buffer
	Closed  map[int64]bool
}

func New(files [][]byte) *Pool {
	return &Pool{Files: files, Written: map[int64]*bytes.Buffer{}, Closed: map[int64]bool{}}
}

func (p *Pool) GetSize(i int64) int64 { return int64(len(p.Files[i])) }

func (p *Pool) GetReader(i int64) (io.Reader, error) { return p.GetReadSeeker(i) }

func (p *Pool) GetReadSeeker(i int64) (io.ReadSeeker, error) {
	if i < 0 || i >= int64(len(p.Files)) {
		return nil, fmt.Errorf("mempool: no file %d", i)
	}
	return bytes.NewReader(p.Files[i]), nil
}

func (p *Pool) Close() error { return nil }

type wc struct {
	p *Pool
	i int64
	b *bytes.Buffer
}

func (w *wc) Write(b []byte) (int, error) { return w.b.Write(b) }
func (w *wc) Close() error                { w.p.Closed[w.i] = true; return nil }

func (p *Pool) GetWriter(i int64) (io.WriteCloser, error) {
	b := &bytes.Buffer{}
	p.Written[i] = b
	return &wc{p, i, b}, nil
}
