//go:build vsched

// Package sync (import path .../zzverif/vsync) stands in for the standard sync
// package in instrumented files.
package sync

import "github.com/itchio/wharf/zzverif/vsched"

type Mutex = vsched.Mutex
type RWMutex = vsched.RWMutex
type Once = vsched.Once
type WaitGroup = vsched.WaitGroup
