package vsched

import "sync"

// Mutex is the controlled replacement of sync.Mutex (zero value ready).
type Mutex struct {
	real   sync.Mutex
	locked bool
	obj    *object
}

func (m *Mutex) init(x *Exec) {
	if m.obj == nil {
		m.obj = x.anonObj()
	}
}

func (m *Mutex) Lock() {
	x := theExec.Load()
	if x == nil {
		m.real.Lock()
		return
	}
	x.mu.Lock()
	m.init(x)
	x.mu.Unlock()
	yield(&pendingOp{kind: opLock, mu: m})
}

func (m *Mutex) Unlock() {
	x := theExec.Load()
	if x == nil {
		m.real.Unlock()
		return
	}
	x.mu.Lock()
	m.locked = false
	x.mu.Unlock()
}

func (m *Mutex) TryLock() bool {
	x := theExec.Load()
	if x == nil {
		return m.real.TryLock()
	}
	Point("trylock")
	x.mu.Lock()
	defer x.mu.Unlock()
	if m.locked {
		return false
	}
	m.locked = true
	return true
}

// RWMutex is the controlled replacement of sync.RWMutex.
type RWMutex struct {
	real    sync.RWMutex
	wlocked bool
	readers int
	obj     *object
}

func (m *RWMutex) init(x *Exec) {
	if m.obj == nil {
		m.obj = x.anonObj()
	}
}

func (m *RWMutex) Lock() {
	x := theExec.Load()
	if x == nil {
		m.real.Lock()
		return
	}
	x.mu.Lock()
	m.init(x)
	x.mu.Unlock()
	yield(&pendingOp{kind: opLock, rw: m})
}

func (m *RWMutex) Unlock() {
	x := theExec.Load()
	if x == nil {
		m.real.Unlock()
		return
	}
	x.mu.Lock()
	m.wlocked = false
	x.mu.Unlock()
}

func (m *RWMutex) RLock() {
	x := theExec.Load()
	if x == nil {
		m.real.RLock()
		return
	}
	x.mu.Lock()
	m.init(x)
	x.mu.Unlock()
	yield(&pendingOp{kind: opRLock, rw: m})
}

func (m *RWMutex) RUnlock() {
	x := theExec.Load()
	if x == nil {
		m.real.RUnlock()
		return
	}
	x.mu.Lock()
	m.readers--
	x.mu.Unlock()
}

// Once is the controlled replacement of sync.Once: concurrent callers wait for
// the first call to finish, exactly like a mutex around a done flag.
type Once struct {
	real sync.Once
	m    Mutex
	done bool
}

func (o *Once) Do(f func()) {
	if theExec.Load() == nil {
		o.real.Do(f)
		return
	}
	o.m.Lock()
	defer o.m.Unlock()
	if !o.done {
		defer func() { o.done = true }()
		f()
	}
}

// WaitGroup is the controlled replacement of sync.WaitGroup.
type WaitGroup struct {
	real sync.WaitGroup
	n    int
	obj  *object
}

func (w *WaitGroup) Add(d int) {
	x := theExec.Load()
	if x == nil {
		w.real.Add(d)
		return
	}
	x.mu.Lock()
	if w.obj == nil {
		w.obj = x.anonObj()
	}
	w.n += d
	neg := w.n < 0
	x.mu.Unlock()
	if neg {
		panic("sync: negative WaitGroup counter")
	}
}

func (w *WaitGroup) Done() { w.Add(-1) }

func (w *WaitGroup) Wait() {
	x := theExec.Load()
	if x == nil {
		w.real.Wait()
		return
	}
	x.mu.Lock()
	if w.obj == nil {
		w.obj = x.anonObj()
	}
	x.mu.Unlock()
	yield(&pendingOp{kind: opWait, wg: w})
}
