package vsched

import (
	"fmt"
	"runtime"
	"sync/atomic"
	"time"
)

// Result of one controlled execution, handed to the check callback.
type Result struct {
	Outcome
	Arity   []int
	Costs   []int
	AltKeys map[int][][2]uint64
	Used    []int // preemptions used before each choice point
}

// Stats of an exploration.
type Stats struct {
	Executions    int
	Pruned        int
	Transitions   int
	States        int // distinct happens-before states recorded in the cache
	MaxDepth      int
	MaxPreempts   int
	MaxGoroutines int
	Deadlocks     int
	Skipped       int  // alternatives skipped without executing (successor state already covered)
	NotOwned      int  // level-2 subtrees owned by another shard
	Complete      bool // the whole bounded space was explored
	HarnessError  string
	ChoicePoints  int
}

// TeardownLeaks counts managed goroutines that were still parked when the teardown of their
// execution gave up waiting for them (they are leaked; the execution's verdict stands).
var TeardownLeaks int64

// executionWatchdog bounds one execution (which normally takes well under a second).
const executionWatchdog = 240 * time.Second

// run performs one controlled execution of body with the given choice prefix.
func run(opts Options, prefix []int, cache map[[2]uint64]int8, body func()) (*Exec, Result) {
	x := &Exec{opts: opts, prefix: prefix, chans: map[uintptr]*chanState{}, objs: map[string]*object{}, doneCh: make(chan struct{}), idle: make(chan struct{}, 1), cache: cache}
	g0 := &G{id: 0, cid: 0x9E3779B1, wake: make(chan wakeMsg, 1), x: x, clock: vclock{}}
	x.gs = []*G{g0}
	x.current = g0
	x.maxG = 1
	atomic.AddInt32(&x.live, 1)
	if !theExec.CompareAndSwap(nil, x) {
		panic("vsched: nested exploration")
	}
	go g0.run(body)
	g0.wake <- wakeMsg{}
	// watchdog: a managed goroutine that blocks on a real (un-hooked) primitive
	// would hang the process; executions take milliseconds, so give up long before
	watchdog := time.NewTimer(executionWatchdog)
	select {
	case <-x.doneCh:
		watchdog.Stop()
	case <-watchdog.C:
		x.mu.Lock()
		x.finish("harness-stuck", "no scheduling event: a managed goroutine is blocked on an operation the scheduler does not control")
		x.mu.Unlock()
	}
	// teardown: poison every goroutine that is still parked
	x.mu.Lock()
	for _, g := range x.gs {
		if !g.done {
			select {
			case g.wake <- wakeMsg{poison: true}:
			default:
			}
		}
	}
	x.mu.Unlock()
	if atomic.LoadInt32(&x.live) > 0 {
		unwind := 60 * time.Second
		if x.outcome.Kind == "harness-stuck" {
			unwind = 2 * time.Second // the blocked goroutine cannot unwind anyway; it is leaked
		}
		timer := time.NewTimer(unwind)
	wait:
		for atomic.LoadInt32(&x.live) > 0 {
			select {
			case <-x.idle:
			case <-timer.C:
				// The verdict of this execution was reached before the teardown began; goroutines
				// that do not unwind in time (a heavily loaded machine, a poison message that
				// lost the race against a regular wake-up) stay parked and are leaked. That is
				// a resource matter, not a reason to distrust the verdict: it is counted.
				atomic.AddInt64(&TeardownLeaks, int64(atomic.LoadInt32(&x.live)))
				break wait
			}
		}
		timer.Stop()
	}
	theExec.Store(nil)
	if x.selfErr != "" && x.outcome.Kind != "harness-stuck" {
		x.outcome.Kind = "harness-selfcheck"
		x.outcome.Detail = x.selfErr
	}
	r := Result{Outcome: x.outcome, Arity: x.arity, Costs: x.costs, AltKeys: x.altKeys}
	r.Choices = x.choices
	r.Labels = x.labels
	r.Steps = x.steps
	r.Preempts = x.preempts
	r.MaxG = x.maxG
	return x, r
}

// RunOnce performs a single execution under the given choice prefix (replay).
func RunOnce(opts Options, prefix []int, body func()) Result {
	_, r := run(opts, prefix, nil, body)
	return r
}

// Explore enumerates the executions of body depth-first: every scheduling,
// select, partner, map-order and environment choice is a choice point; choice
// 0 is the default (non-preemptive) answer. check is called after every
// completed (not pruned) execution and returns false to stop the exploration.
// body must build a fresh scenario each time it is called.
func Explore(opts Options, body func(), check func(r Result) bool) Stats {
	var st Stats
	var cache map[[2]uint64]int8
	if !opts.NoCache {
		cache = map[[2]uint64]int8{}
	}
	st.Complete = true
	var rec func(prefix []int, level int) bool
	rec = func(prefix []int, level int) bool {
		if !opts.Deadline.IsZero() && time.Now().After(opts.Deadline) {
			st.Complete = false
			return false
		}
		if opts.MaxExecutions > 0 && st.Executions >= opts.MaxExecutions {
			st.Complete = false
			return false
		}
		_, r := run(opts, prefix, cache, body)
		st.Executions++
		st.ChoicePoints += len(r.Choices)
		if len(r.Choices) > len(prefix) {
			st.Transitions += len(r.Choices) - len(prefix)
		}
		st.Transitions++
		if len(r.Choices) > st.MaxDepth {
			st.MaxDepth = len(r.Choices)
		}
		if r.Preempts > st.MaxPreempts {
			st.MaxPreempts = r.Preempts
		}
		if r.MaxG > st.MaxGoroutines {
			st.MaxGoroutines = r.MaxG
		}
		switch r.Kind {
		case "harness-stuck", "harness-selfcheck":
			st.HarnessError = r.Kind + ": " + r.Detail
			st.Complete = false
			return false
		case "pruned":
			st.Pruned++
		default:
			if r.Kind == "deadlock" {
				st.Deadlocks++
			}
			if !check(r) {
				st.Complete = false
				return false
			}
		}
		if len(r.Choices) < len(prefix) {
			st.HarnessError = fmt.Sprintf("replay divergence: execution made %d choices, prefix has %d (%v)", len(r.Choices), len(prefix), prefix)
			st.Complete = false
			return false
		}
		used := 0
		for i := 0; i < len(prefix); i++ {
			if r.Choices[i] != 0 {
				used += r.Costs[i]
			}
		}
		// deepest alternatives first keeps the cache most effective
		for i := len(r.Choices) - 1; i >= len(prefix); i-- {
			if opts.PreemptionBound >= 0 && used+r.Costs[i] > opts.PreemptionBound {
				continue
			}
			keys := r.AltKeys[i]
			for alt := 1; alt < r.Arity[i]; alt++ {
				if cache != nil && keys != nil && alt < len(keys) && keys[alt] != ([2]uint64{}) {
					after := used + r.Costs[i]
					if after > 120 {
						after = 120
					}
					if prev, ok := cache[keys[alt]]; ok && int(prev) <= after {
						st.Skipped++
						continue
					}
				}
				np := make([]int, i+1)
				copy(np, r.Choices[:i])
				np[i] = alt
				if opts.ShardN > 1 && level+1 == 2 && prefixHash(np)%uint64(opts.ShardN) != uint64(opts.ShardIdx) {
					st.NotOwned++
					continue
				}
				if !rec(np, level+1) {
					return false
				}
			}
		}
		return true
	}
	rec(opts.Prefix, 0)
	st.States = len(cache)
	return st
}

func prefixHash(p []int) uint64 {
	h := uint64(0x9E3779B97F4A7C15)
	for _, c := range p {
		h = mix(h, uint64(c)+1)
	}
	return h
}

// Abort ends the current execution immediately with the given outcome kind
// (models a crash of the process under test at this scheduling instant); the
// calling goroutine does not return. Outside an exploration it is a no-op.
func Abort(kind string) {
	x := theExec.Load()
	if x == nil {
		return
	}
	x.mu.Lock()
	x.finish(kind, "")
	x.mu.Unlock()
	runtime.Goexit()
}

// ExploreIterative is iterative context bounding: it explores body with
// preemption bound from, from+1, ..., to (to < 0: then unbounded), each with a
// fresh cache, as long as the previous bound completed before the deadline.
// It returns the accumulated statistics and the largest bound that was
// completed (from-1 if not even the first one was; -1 stands for "unbounded
// completed" only when to < 0 and everything finished — see unbounded).
func ExploreIterative(opts Options, from, to int, body func(), check func(r Result) bool) (total Stats, completed int, unbounded bool) {
	completed = from - 1
	bounds := []int{}
	if to < 0 {
		for b := from; b <= 4; b++ {
			bounds = append(bounds, b)
		}
		bounds = append(bounds, -1)
	} else {
		for b := from; b <= to; b++ {
			bounds = append(bounds, b)
		}
	}
	total.Complete = true
	for _, b := range bounds {
		o := opts
		o.PreemptionBound = b
		st := Explore(o, body, check)
		total.Executions += st.Executions
		total.Pruned += st.Pruned
		total.Transitions += st.Transitions
		total.Skipped += st.Skipped
		total.NotOwned += st.NotOwned
		total.Deadlocks += st.Deadlocks
		total.ChoicePoints += st.ChoicePoints
		if st.States > total.States {
			total.States = st.States
		}
		if st.MaxDepth > total.MaxDepth {
			total.MaxDepth = st.MaxDepth
		}
		if st.MaxPreempts > total.MaxPreempts {
			total.MaxPreempts = st.MaxPreempts
		}
		if st.MaxGoroutines > total.MaxGoroutines {
			total.MaxGoroutines = st.MaxGoroutines
		}
		if st.HarnessError != "" {
			total.HarnessError = st.HarnessError
			total.Complete = false
			return
		}
		if !st.Complete {
			total.Complete = false
			return
		}
		if b < 0 {
			unbounded = true
		} else {
			completed = b
		}
	}
	return
}
