package vsched

import (
	"fmt"
	"reflect"
	"runtime"
	"runtime/debug"
	"sort"
	"strings"
	"sync"
	"sync/atomic"
	"time"
)

type opKind int

const (
	opStart opKind = iota
	opSend
	opRecv
	opClose
	opSelect
	opLock
	opRLock
	opWait
	opPoint
	opPipeRead
	opPipeWrite // second phase: wait until the offered data is consumed
	opPipeClose
	opChoice
	opChanLen
)

var kindNames = []string{"start", "send", "recv", "close", "select", "lock", "rlock", "wait", "point", "pipe-read", "pipe-write", "pipe-close", "choice", "chan-len"}

type chanState struct {
	id      uint64 // canonical id (first touch)
	cap     int
	buf     []any
	closed  bool
	foreign <-chan struct{} // close-only channel owned by someone else (ctx.Done())
	keep    any
	clock   vclock
}

type object struct {
	id    uint64
	clock vclock
}

type pendingOp struct {
	kind       opKind
	ch         *chanState
	val        any
	cases      []SelCase
	hasDefault bool
	label      string
	obj        *object
	mu         *Mutex
	rw         *RWMutex
	wg         *WaitGroup
	pipe       *pipe
	// results
	completed bool // completed by a partner: the goroutine is simply ready to continue
	rval      any
	rok       bool
	selIdx    int
	panicMsg  string
	n         int
	choice    int
	cost      int
}

type wakeMsg struct{ poison bool }

// G is a managed goroutine.
type G struct {
	id       int
	cid      uint64 // canonical id: hash(parent cid, spawn index)
	wake     chan wakeMsg
	op       *pendingOp
	done     bool
	clock    vclock
	events   int
	spawns   int
	made     int
	lastKind opKind
	lazyAt   int
	lazyN    int
	x        *Exec
}

type vclock map[uint64]int

func (c vclock) join(o vclock) {
	for k, v := range o {
		if c[k] < v {
			c[k] = v
		}
	}
}
func (c vclock) copyOf() vclock {
	n := make(vclock, len(c))
	for k, v := range c {
		n[k] = v
	}
	return n
}

func mix(a, b uint64) uint64 {
	x := a*0x9E3779B97F4A7C15 ^ (b + 0x7F4A7C159E3779B9 + (a << 6) + (a >> 2))
	x ^= x >> 31
	x *= 0xBF58476D1CE4E5B9
	x ^= x >> 29
	return x
}

func hashStr(s string) uint64 {
	var h uint64 = 14695981039346656037
	for i := 0; i < len(s); i++ {
		h ^= uint64(s[i])
		h *= 1099511628211
	}
	return h
}

// Options configures an exploration.
type Options struct {
	// PreemptionBound: maximum number of preemptions per execution; < 0 = unbounded.
	PreemptionBound int
	// StepBudget: maximum visible operations per execution.
	StepBudget int
	// NoCache disables happens-before state caching.
	NoCache bool
	// MapOrderCost: deviation cost of a non-default map iteration pick.
	MapOrderCost int
	// Deadline: stop exploring after this instant (zero = none).
	Deadline time.Time
	// MaxExecutions: safety cap (0 = none).
	MaxExecutions int
	// Prefix: explore only the subtree below this choice prefix.
	Prefix []int
	// ShardN > 1: nodes at tree level 2 are owned by hash(prefix) % ShardN; this
	// process explores only those owned by ShardIdx (levels 0 and 1 are executed
	// by every shard). Collectively the shards cover the whole bounded space.
	ShardIdx, ShardN int
}

// Outcome of one execution.
type Outcome struct {
	Kind     string // done | deadlock | panic | step-budget | pruned
	Detail   string
	Leaks    []string
	Choices  []int
	Labels   []string
	Steps    int
	Preempts int
	MaxG     int
}

// Exec is one controlled execution.
type Exec struct {
	opts     Options
	mu       sync.Mutex
	gs       []*G
	current  *G
	chans    map[uintptr]*chanState
	objs     map[string]*object
	prefix   []int
	choices  []int
	arity    []int
	costs    []int
	labels   []string
	steps    int
	preempts int
	over     bool
	outcome  Outcome
	doneCh   chan struct{}
	idle     chan struct{}
	live     int32
	fp1, fp2 uint64
	cache    map[[2]uint64]int8
	cacheOff bool
	maxG     int
	altKeys  map[int][][2]uint64 // predicted successor state keys per scheduling choice
	selfErr  string
}

var theExec atomic.Pointer[Exec]

func active() bool { return theExec.Load() != nil }

func cur() *G {
	x := theExec.Load()
	return x.current
}

// Active reports whether an exploration is running (harness side).
func Active() bool { return active() }

func (x *Exec) choose(n int, label string, cost int) int {
	i := len(x.choices)
	c := 0
	if i < len(x.prefix) {
		c = x.prefix[i]
		if c >= n {
			panic(fmt.Sprintf("vsched: replay divergence at choice %d (%s): recorded %d, arity %d", i, label, c, n))
		}
	}
	x.choices = append(x.choices, c)
	x.arity = append(x.arity, n)
	x.costs = append(x.costs, cost)
	x.labels = append(x.labels, label)
	return c
}

// Choose lets harness code running inside a managed goroutine take an
// environment decision from the tape (answer 0 = default).
func Choose(n int, label string, cost int) int {
	x := theExec.Load()
	if x == nil || n <= 1 {
		return 0
	}
	x.mu.Lock()
	c := x.choose(n, label, cost)
	g := x.current
	x.event(g, hashStr("choice:"+label)+uint64(c)*977, nil)
	x.mu.Unlock()
	return c
}

func chanFor(p uintptr, capacity int, keep any) *chanState {
	x := theExec.Load()
	if p == 0 {
		return nil
	}
	x.mu.Lock()
	defer x.mu.Unlock()
	c := x.chans[p]
	if c == nil {
		c = &chanState{id: x.lazyID(x.current), cap: capacity, keep: keep, clock: vclock{}}
		x.chans[p] = c
	}
	return c
}

// newID names an object created by g through a hooked constructor (canonical).
func (x *Exec) newID(g *G) uint64 {
	g.made++
	return mix(mix(g.cid, 0xC0FFEE), uint64(g.made))
}

// lazyID names an object first seen when g touches it.
func (x *Exec) lazyID(g *G) uint64 {
	if g.lazyAt != g.events+1 {
		g.lazyAt, g.lazyN = g.events+1, 0
	}
	g.lazyN++
	return mix(mix(g.cid, 0xABCD+uint64(g.events)), uint64(g.lazyN))
}

func doneChanFor(ch <-chan struct{}) *chanState {
	x := theExec.Load()
	p := recvPtr(ch)
	if p == 0 {
		return nil
	}
	x.mu.Lock()
	defer x.mu.Unlock()
	c := x.chans[p]
	if c == nil {
		// all foreign done channels share one dependence object ("ctx")
		c = &chanState{id: hashStr("ctx"), foreign: ch, keep: ch, clock: x.objLocked("pt:ctx").clock}
		x.chans[p] = c
	}
	return c
}

func objFor(name string) *object {
	x := theExec.Load()
	x.mu.Lock()
	defer x.mu.Unlock()
	return x.objLocked(name)
}

func (x *Exec) objLocked(name string) *object {
	o := x.objs[name]
	if o == nil {
		o = &object{id: hashStr(name), clock: vclock{}}
		x.objs[name] = o
	}
	return o
}

// anonymous objects (mutexes etc.) are named by first touch
func (x *Exec) anonObj() *object {
	return &object{id: x.lazyID(x.current), clock: vclock{}}
}

func spawn(f func()) {
	x := theExec.Load()
	x.mu.Lock()
	parent := x.current
	g := &G{id: len(x.gs), wake: make(chan wakeMsg, 1), x: x, clock: parent.clock.copyOf()}
	parent.spawns++
	g.cid = mix(parent.cid, uint64(parent.spawns))
	g.op = &pendingOp{kind: opStart}
	x.gs = append(x.gs, g)
	if n := x.liveCount(); n > x.maxG {
		x.maxG = n
	}
	atomic.AddInt32(&x.live, 1)
	x.mu.Unlock()
	go g.run(f)
}

func (x *Exec) liveCount() int {
	n := 0
	for _, g := range x.gs {
		if !g.done {
			n++
		}
	}
	return n
}

func (g *G) run(f func()) {
	x := g.x
	defer func() {
		if atomic.AddInt32(&x.live, -1) == 0 {
			select {
			case x.idle <- struct{}{}:
			default:
			}
		}
	}()
	msg := <-g.wake
	if msg.poison {
		return
	}
	defer func() {
		// runs on normal return, on panic and on Goexit
		if e := recover(); e != nil {
			x.mu.Lock()
			if !x.over {
				x.finish("panic", fmt.Sprintf("goroutine %d: %v\n%s", g.id, e, trimStack(string(debug.Stack()))))
			}
			g.done = true
			x.mu.Unlock()
			return
		}
		x.mu.Lock()
		g.done = true
		g.op = nil
		if !x.over {
			x.event(g, 31, nil)
			if g.id == 0 {
				x.finish("done", "")
			} else {
				x.schedule(g)
			}
		}
		x.mu.Unlock()
	}()
	f()
}

func trimStack(s string) string {
	lines := strings.Split(s, "\n")
	var out []string
	for _, l := range lines {
		if strings.Contains(l, "zzverif/vsched") || strings.Contains(l, "runtime/") {
			continue
		}
		out = append(out, l)
		if len(out) > 24 {
			break
		}
	}
	return strings.Join(out, "\n")
}

// yield announces op for the running goroutine, lets the scheduler decide who
// runs next, and returns once this goroutine has been chosen and its
// operation has been performed.
func yield(op *pendingOp) {
	x := theExec.Load()
	x.mu.Lock()
	g := x.current
	if x.over {
		x.mu.Unlock()
		runtime.Goexit()
	}
	g.op = op
	if op.kind == opPipeWrite {
		// phase 1 of a pipe write (the offer) is glued to the arrival
		op.pipe.offer(g, op)
	}
	next := x.schedule(g)
	x.mu.Unlock()
	if next != g {
		msg := <-g.wake
		if msg.poison {
			runtime.Goexit()
		}
	}
}

// finish ends the execution; must be called with x.mu held.
func (x *Exec) finish(kind, detail string) {
	if x.over {
		return
	}
	x.over = true
	x.outcome.Kind = kind
	x.outcome.Detail = detail
	for _, g := range x.gs {
		if !g.done && g.op != nil && !(kind == "done" && g.id == 0) {
			x.outcome.Leaks = append(x.outcome.Leaks, fmt.Sprintf("g%d:%s", g.id, x.describe(g.op)))
		}
	}
	close(x.doneCh)
}

func (x *Exec) describe(op *pendingOp) string {
	s := kindNames[op.kind]
	if op.label != "" {
		s += "(" + op.label + ")"
	}
	if op.completed {
		s += "[ready]"
	}
	return s
}

// enabledOp reports whether g's announced operation can be performed now.
func (x *Exec) enabledOp(g *G) bool {
	op := g.op
	if op == nil || g.done {
		return false
	}
	if op.completed {
		return true
	}
	switch op.kind {
	case opStart, opPoint, opClose, opPipeClose, opChoice, opChanLen:
		return true
	case opSend:
		return x.canSend(g, op.ch)
	case opRecv:
		return x.canRecv(g, op.ch)
	case opSelect:
		if op.hasDefault {
			return true
		}
		for _, c := range op.cases {
			if c.send && x.canSend(g, c.ch) || !c.send && x.canRecv(g, c.ch) {
				return true
			}
		}
		return false
	case opLock:
		if op.mu != nil {
			return !op.mu.locked
		}
		return !op.rw.wlocked && op.rw.readers == 0
	case opRLock:
		return !op.rw.wlocked
	case opWait:
		return op.wg.n <= 0
	case opPipeRead:
		return op.pipe.canRead()
	case opPipeWrite:
		return op.pipe.writeDone(op)
	}
	return false
}

func (x *Exec) canSend(g *G, c *chanState) bool {
	if c == nil {
		return false
	}
	if c.closed {
		return true // will panic
	}
	if c.cap > 0 {
		// buffered: never a direct hand-off, see doSend
		return len(c.buf) < c.cap
	}
	return len(x.waiters(g, c, false)) > 0
}

func (x *Exec) canRecv(g *G, c *chanState) bool {
	if c == nil {
		return false
	}
	if c.foreign != nil {
		select {
		case <-c.foreign:
			return true
		default:
			return false
		}
	}
	if len(c.buf) > 0 || c.closed {
		return true
	}
	if c.cap > 0 {
		return false
	}
	return len(x.waiters(g, c, true)) > 0
}

type waiter struct {
	g   *G
	idx int // select case index or -1
}

// waiters lists goroutines other than g parked on c as senders (senders=true) or receivers.
func (x *Exec) waiters(g *G, c *chanState, senders bool) []waiter {
	var ws []waiter
	for _, o := range x.gs {
		if o == g || o.done || o.op == nil || o.op.completed {
			continue
		}
		switch o.op.kind {
		case opSend:
			if senders && o.op.ch == c {
				ws = append(ws, waiter{o, -1})
			}
		case opRecv:
			if !senders && o.op.ch == c {
				ws = append(ws, waiter{o, -1})
			}
		case opSelect:
			for i, sc := range o.op.cases {
				if sc.ch == c && sc.send == senders {
					ws = append(ws, waiter{o, i})
					break
				}
			}
		}
	}
	return ws
}

// schedule picks and performs the next operation; called with x.mu held by the
// goroutine that holds the token (about to park or exit). Returns the chosen G.
func (x *Exec) schedule(caller *G) *G {
	if x.over {
		return nil
	}
	x.steps++
	if x.opts.StepBudget > 0 && x.steps > x.opts.StepBudget {
		x.finish("step-budget", fmt.Sprintf("more than %d visible operations", x.opts.StepBudget))
		return nil
	}
	var enabled []*G
	curEnabled := false
	if x.current != nil && !x.current.done && x.enabledOp(x.current) {
		enabled = append(enabled, x.current)
		curEnabled = true
	}
	for _, g := range x.gs {
		if g != x.current && x.enabledOp(g) {
			enabled = append(enabled, g)
		}
	}
	if len(enabled) == 0 {
		var parked []string
		for _, g := range x.gs {
			if !g.done && g.op != nil {
				parked = append(parked, fmt.Sprintf("g%d:%s", g.id, x.describe(g.op)))
			}
		}
		x.finish("deadlock", strings.Join(parked, " "))
		return nil
	}
	caching := !x.opts.NoCache && x.cache != nil
	cost := 0
	if curEnabled {
		cost = 1
	}
	c := 0
	var predicted [2]uint64
	if len(enabled) > 1 {
		idx := len(x.choices)
		var keys [][2]uint64
		if caching && idx >= len(x.prefix) {
			// predicted keys of the successor states of every alternative: lets the
			// explorer skip alternatives whose successor is already covered
			keys = make([][2]uint64, len(enabled))
			for k, g := range enabled {
				if key, ok := x.predict(g); ok {
					keys[k] = key
				}
			}
			if x.altKeys == nil {
				x.altKeys = map[int][][2]uint64{}
			}
			x.altKeys[idx] = keys
		}
		c = x.choose(len(enabled), "sched", cost)
		if keys != nil {
			predicted = keys[c]
		}
	}
	next := enabled[c]
	if curEnabled && next != x.current {
		x.preempts++
	}
	x.current = next
	x.perform(next)
	// happens-before state caching: the state is (trace so far, who runs next);
	// only beyond the replayed prefix
	if caching && len(x.choices) >= len(x.prefix) {
		key := mkKey(x.fp1, x.fp2, next.cid)
		if predicted != ([2]uint64{}) && predicted != key && x.selfErr == "" {
			x.selfErr = fmt.Sprintf("successor key prediction mismatch for %s of g%d", kindNames[opKindOf(next)], next.id)
		}
		used := int8(x.preempts)
		if x.preempts > 120 {
			used = 120
		}
		if prev, ok := x.cache[key]; ok && prev <= used {
			x.finish("pruned", "")
			return nil
		} else if !ok || used < prev {
			x.cache[key] = used
		}
	}
	if next != caller {
		next.wake <- wakeMsg{}
	}
	return next
}

func mkKey(fp1, fp2, cid uint64) [2]uint64 { return [2]uint64{mix(fp1, cid), fp2 + cid} }

func opKindOf(g *G) opKind {
	if g.lastKind >= 0 {
		return g.lastKind
	}
	return opStart
}

func eventHash(cid uint64, events int, what uint64, clock vclock) (uint64, uint64) {
	var h1, h2 uint64
	for k, v := range clock {
		e := mix(k, uint64(v))
		h1 += e
		h2 += mix(e, 0x51ED270B)
	}
	ev := mix(mix(cid, uint64(events)), what)
	return mix(ev, h1), mix(mix(ev, 0xA0761D6478BD642F), h2)
}

// plan describes the events that performing g's announced operation produces,
// when that is determined without further choices.
type plan struct {
	ok      bool
	what    uint64
	clocks  []*vclock
	partner *G
	pwhat   uint64
}

func (x *Exec) planSend(g *G, c *chanState) plan {
	what := mix(10, c.id)
	if c.closed {
		return plan{ok: true, what: what, clocks: []*vclock{&c.clock}}
	}
	if ws := x.waiters(g, c, false); c.cap == 0 && len(ws) > 0 {
		if len(ws) > 1 {
			return plan{}
		}
		return plan{ok: true, what: what, clocks: []*vclock{&c.clock}, partner: ws[0].g, pwhat: mix(11, c.id)}
	}
	return plan{ok: true, what: what, clocks: []*vclock{&c.clock}}
}

func (x *Exec) planRecv(g *G, c *chanState) plan {
	what := mix(11, c.id)
	if c.foreign != nil {
		return plan{ok: true, what: what, clocks: []*vclock{&c.clock}}
	}
	if len(c.buf) > 0 {
		return plan{ok: true, what: what, clocks: []*vclock{&c.clock}}
	}
	if ws := x.waiters(g, c, true); c.cap == 0 && len(ws) > 0 {
		if len(ws) > 1 {
			return plan{}
		}
		return plan{ok: true, what: what, clocks: []*vclock{&c.clock}, partner: ws[0].g, pwhat: mix(10, c.id)}
	}
	return plan{ok: true, what: what, clocks: []*vclock{&c.clock}}
}

func (x *Exec) plan(g *G) plan {
	op := g.op
	if op.completed && op.kind != opPipeWrite {
		return plan{ok: true, what: 30}
	}
	switch op.kind {
	case opStart:
		return plan{ok: true, what: 1}
	case opPoint:
		return plan{ok: true, what: mix(2, hashStr(op.label)), clocks: []*vclock{&op.obj.clock}}
	case opChoice:
		return plan{ok: true, what: 3}
	case opSend:
		return x.planSend(g, op.ch)
	case opRecv:
		return x.planRecv(g, op.ch)
	case opClose:
		return plan{ok: true, what: mix(4, op.ch.id), clocks: []*vclock{&op.ch.clock}}
	case opChanLen:
		return plan{ok: true, what: mix(12, op.ch.id), clocks: []*vclock{&op.ch.clock}}
	case opSelect:
		var en []int
		for i, sc := range op.cases {
			if sc.send && x.canSend(g, sc.ch) || !sc.send && x.canRecv(g, sc.ch) {
				en = append(en, i)
			}
		}
		switch len(en) {
		case 0:
			return plan{ok: true, what: 5}
		case 1:
			if op.cases[en[0]].send {
				return x.planSend(g, op.cases[en[0]].ch)
			}
			return x.planRecv(g, op.cases[en[0]].ch)
		}
		return plan{}
	case opLock:
		if op.mu != nil {
			return plan{ok: true, what: mix(6, op.mu.obj.id), clocks: []*vclock{&op.mu.obj.clock}}
		}
		return plan{ok: true, what: mix(6, op.rw.obj.id), clocks: []*vclock{&op.rw.obj.clock}}
	case opRLock:
		return plan{ok: true, what: mix(7, op.rw.obj.id), clocks: []*vclock{&op.rw.obj.clock}}
	case opWait:
		return plan{ok: true, what: mix(8, op.wg.obj.id), clocks: []*vclock{&op.wg.obj.clock}}
	case opPipeRead:
		return plan{ok: true, what: mix(20, op.pipe.obj.id), clocks: []*vclock{&op.pipe.obj.clock}}
	case opPipeWrite:
		return plan{ok: true, what: mix(21, op.pipe.obj.id), clocks: []*vclock{&op.pipe.obj.clock}}
	case opPipeClose:
		return plan{ok: true, what: mix(22, op.pipe.obj.id), clocks: []*vclock{&op.pipe.obj.clock}}
	}
	return plan{}
}

// predict computes the key of the state reached by performing g's operation
// and handing the token to g, without changing anything.
func (x *Exec) predict(g *G) ([2]uint64, bool) {
	p := x.plan(g)
	if !p.ok {
		return [2]uint64{}, false
	}
	gc := g.clock.copyOf()
	gc[g.cid] = g.events + 1
	for _, c := range p.clocks {
		gc.join(*c)
	}
	d1, d2 := eventHash(g.cid, g.events+1, p.what, gc)
	fp1, fp2 := x.fp1+d1, x.fp2+d2
	if p.partner != nil {
		w := p.partner
		wc := w.clock.copyOf()
		wc[w.cid] = w.events + 1
		wc.join(gc)
		e1, e2 := eventHash(w.cid, w.events+1, p.pwhat, wc)
		fp1 += e1
		fp2 += e2
	}
	return mkKey(fp1, fp2, g.cid), true
}

// event records one executed operation of g for the happens-before fingerprint.
func (x *Exec) event(g *G, what uint64, clocks []*vclock) {
	g.events++
	g.clock[g.cid] = g.events
	for _, c := range clocks {
		g.clock.join(*c)
	}
	for _, c := range clocks {
		for k := range *c {
			delete(*c, k)
		}
		for k, v := range g.clock {
			(*c)[k] = v
		}
	}
	d1, d2 := eventHash(g.cid, g.events, what, g.clock)
	x.fp1 += d1
	x.fp2 += d2
}

// perform applies the state change of g's announced operation.
func (x *Exec) perform(g *G) {
	op := g.op
	g.lastKind = op.kind
	if op.completed && op.kind != opPipeWrite {
		// already performed by the partner; resuming is a transition of its own
		x.event(g, 30, nil)
		g.op = nil
		return
	}
	switch op.kind {
	case opStart:
		x.event(g, 1, nil)
	case opPoint:
		x.event(g, mix(2, hashStr(op.label)), []*vclock{&op.obj.clock})
	case opChoice:
		x.event(g, 3, nil)
	case opSend:
		x.doSend(g, op, op.ch, op.val, -1)
	case opRecv:
		x.doRecv(g, op, op.ch, -1)
	case opClose:
		c := op.ch
		if c.closed {
			op.panicMsg = "close of closed channel"
		}
		c.closed = true
		x.event(g, mix(4, c.id), []*vclock{&c.clock})
	case opChanLen:
		op.selIdx = len(op.ch.buf)
		x.event(g, mix(12, op.ch.id), []*vclock{&op.ch.clock})
	case opSelect:
		var en []int
		for i, sc := range op.cases {
			if sc.send && x.canSend(g, sc.ch) || !sc.send && x.canRecv(g, sc.ch) {
				en = append(en, i)
			}
		}
		if len(en) == 0 {
			op.selIdx = -1
			x.event(g, 5, nil)
			break
		}
		k := 0
		if len(en) > 1 {
			k = x.choose(len(en), "select", 0)
		}
		i := en[k]
		op.selIdx = i
		if op.cases[i].send {
			x.doSend(g, op, op.cases[i].ch, op.cases[i].val, i)
		} else {
			x.doRecv(g, op, op.cases[i].ch, i)
		}
	case opLock:
		if op.mu != nil {
			op.mu.locked = true
			x.event(g, mix(6, op.mu.obj.id), []*vclock{&op.mu.obj.clock})
		} else {
			op.rw.wlocked = true
			x.event(g, mix(6, op.rw.obj.id), []*vclock{&op.rw.obj.clock})
		}
	case opRLock:
		op.rw.readers++
		x.event(g, mix(7, op.rw.obj.id), []*vclock{&op.rw.obj.clock})
	case opWait:
		x.event(g, mix(8, op.wg.obj.id), []*vclock{&op.wg.obj.clock})
	case opPipeRead:
		op.pipe.doRead(x, g, op)
	case opPipeWrite:
		op.pipe.finishWrite(x, g, op)
	case opPipeClose:
		op.pipe.doClose(x, g, op)
	}
	g.op = nil
}

func (x *Exec) pick(ws []waiter, label string) waiter {
	if len(ws) == 1 {
		return ws[0]
	}
	sort.Slice(ws, func(i, j int) bool { return ws[i].g.id < ws[j].g.id })
	return ws[x.choose(len(ws), label, 0)]
}

func (x *Exec) doSend(g *G, op *pendingOp, c *chanState, val any, caseIdx int) {
	what := mix(10, c.id)
	if c.closed {
		op.panicMsg = "send on closed channel"
		x.event(g, what, []*vclock{&c.clock})
		return
	}
	// A goroutine whose pending operation is a receive on a buffered channel is
	// not necessarily parked in it yet: the value goes through the buffer and the
	// receiver (possibly a select with other ready cases by then) takes it when it
	// is scheduled. This covers the runtime's direct hand-off to a parked receiver
	// (schedule the receiver next and pick that case) and the receiver that arrives
	// later. Only unbuffered channels need the rendezvous.
	if ws := x.waiters(g, c, false); c.cap == 0 && len(ws) > 0 {
		w := x.pick(ws, "partner-recv")
		pop := w.g.op
		pop.completed = true
		pop.rval, pop.rok = val, true
		pop.selIdx = w.idx
		x.event(g, what, []*vclock{&c.clock})
		x.event(w.g, mix(11, c.id), []*vclock{&c.clock, &g.clock})
		return
	}
	c.buf = append(c.buf, val)
	x.event(g, what, []*vclock{&c.clock})
}

func (x *Exec) doRecv(g *G, op *pendingOp, c *chanState, caseIdx int) {
	what := mix(11, c.id)
	if c.foreign != nil {
		op.rval, op.rok = nil, false
		x.event(g, what, []*vclock{&c.clock})
		return
	}
	if len(c.buf) > 0 {
		// a sender waiting for room becomes enabled and sends when it is scheduled
		op.rval, op.rok = c.buf[0], true
		c.buf = c.buf[1:]
		x.event(g, what, []*vclock{&c.clock})
		return
	}
	if ws := x.waiters(g, c, true); c.cap == 0 && len(ws) > 0 {
		w := x.pick(ws, "partner-send")
		sop := w.g.op
		v := sop.val
		if w.idx >= 0 {
			v = sop.cases[w.idx].val
		}
		op.rval, op.rok = v, true
		sop.completed = true
		sop.selIdx = w.idx
		x.event(g, what, []*vclock{&c.clock})
		x.event(w.g, mix(10, c.id), []*vclock{&c.clock, &g.clock})
		return
	}
	// closed and drained
	op.rval, op.rok = nil, false
	x.event(g, what, []*vclock{&c.clock})
}

// ---------------------------------------------------------------------------

func realSelect(hasDefault bool, cases []SelCase) *Sel {
	rc := make([]reflect.SelectCase, 0, len(cases)+1)
	for _, c := range cases {
		v := reflect.ValueOf(c.rc)
		if c.send {
			var sv reflect.Value
			if c.val == nil {
				sv = reflect.Zero(v.Type().Elem())
			} else {
				sv = reflect.ValueOf(c.val)
			}
			rc = append(rc, reflect.SelectCase{Dir: reflect.SelectSend, Chan: v, Send: sv})
		} else {
			rc = append(rc, reflect.SelectCase{Dir: reflect.SelectRecv, Chan: v})
		}
	}
	if hasDefault {
		rc = append(rc, reflect.SelectCase{Dir: reflect.SelectDefault})
	}
	i, rv, ok := reflect.Select(rc)
	if hasDefault && i == len(cases) {
		return &Sel{Index: -1}
	}
	s := &Sel{Index: i, ok: ok}
	if !cases[i].send && rv.IsValid() {
		s.val = rv.Interface()
	}
	return s
}
