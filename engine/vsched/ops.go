// Package vsched is engine E2: a controlled cooperative scheduler for real Go
// code. Instrumented wharf files (see verif/lib/instr) call these functions in
// place of go statements, channel operations, select, sync primitives, io.Pipe
// and context.WithCancel. When no exploration is active every function
// performs the real operation, so instrumented packages stay ordinary Go
// packages. During an exploration all managed goroutines are real goroutines
// of which exactly one runs at a time; channel/mutex/pipe state lives in side
// tables so no real operation can block the process.
package vsched

import (
	"context"
	"fmt"
	"reflect"
	"sort"
	"unsafe"
)

func chanPtr[T any](ch chan T) uintptr   { return uintptr(*(*unsafe.Pointer)(unsafe.Pointer(&ch))) }
func sendPtr[T any](ch chan<- T) uintptr { return uintptr(*(*unsafe.Pointer)(unsafe.Pointer(&ch))) }
func recvPtr[T any](ch <-chan T) uintptr { return uintptr(*(*unsafe.Pointer)(unsafe.Pointer(&ch))) }

// ---- goroutines -----------------------------------------------------------

func Go0(f func()) {
	if !active() {
		go f()
		return
	}
	spawn(f)
}
func Go1[A any](f func(A), a A)            { Go0(func() { f(a) }) }
func Go2[A, B any](f func(A, B), a A, b B) { Go0(func() { f(a, b) }) }
func Go3[A, B, C any](f func(A, B, C), a A, b B, c C) {
	Go0(func() { f(a, b, c) })
}
func Go4[A, B, C, D any](f func(A, B, C, D), a A, b B, c C, d D) {
	Go0(func() { f(a, b, c, d) })
}
func Go5[A, B, C, D, E any](f func(A, B, C, D, E), a A, b B, c C, d D, e E) {
	Go0(func() { f(a, b, c, d, e) })
}
func Go6[A, B, C, D, E, F any](f func(A, B, C, D, E, F), a A, b B, c C, d D, e E, g F) {
	Go0(func() { f(a, b, c, d, e, g) })
}

func Go7[A, B, C, D, E, F, G any](f func(A, B, C, D, E, F, G), a A, b B, c C, d D, e E, g F, h G) {
	Go0(func() { f(a, b, c, d, e, g, h) })
}
func Go8[A, B, C, D, E, F, G, H any](f func(A, B, C, D, E, F, G, H), a A, b B, c C, d D, e E, g F, h G, i H) {
	Go0(func() { f(a, b, c, d, e, g, h, i) })
}
func Go9[A, B, C, D, E, F, G, H, I any](f func(A, B, C, D, E, F, G, H, I), a A, b B, c C, d D, e E, g F, h G, i H, j I) {
	Go0(func() { f(a, b, c, d, e, g, h, i, j) })
}

// ---- channels -------------------------------------------------------------

// Make stands in for make(chan T, n): the channel gets a canonical identity
// (creator, creation index) for the happens-before fingerprint.
func Make[T any](n int) chan T {
	ch := make(chan T, n)
	if x := theExec.Load(); x != nil {
		x.mu.Lock()
		g := x.current
		x.chans[chanPtr(ch)] = &chanState{id: x.newID(g), cap: n, keep: ch, clock: vclock{}}
		x.mu.Unlock()
	}
	return ch
}

func Send[T any](ch chan<- T, v T) {
	if !active() {
		ch <- v
		return
	}
	op := &pendingOp{kind: opSend, ch: chanFor(sendPtr(ch), cap(ch), ch), val: v}
	yield(op)
	if op.panicMsg != "" {
		panic(op.panicMsg)
	}
}

func Recv[T any](ch <-chan T) T {
	if !active() {
		return <-ch
	}
	op := &pendingOp{kind: opRecv, ch: chanFor(recvPtr(ch), cap(ch), ch)}
	yield(op)
	v, _ := op.rval.(T)
	return v
}

func Recv2[T any](ch <-chan T) (T, bool) {
	if !active() {
		v, ok := <-ch
		return v, ok
	}
	op := &pendingOp{kind: opRecv, ch: chanFor(recvPtr(ch), cap(ch), ch)}
	yield(op)
	v, _ := op.rval.(T)
	return v, op.rok
}

// RecvDone receives from a receive-only struct{} channel, typically
// ctx.Done(): if the channel is not known to the scheduler it is treated as a
// foreign close-only channel, probed with a non-blocking real receive.
func RecvDone(ch <-chan struct{}) struct{} {
	if !active() {
		<-ch
		return struct{}{}
	}
	op := &pendingOp{kind: opRecv, ch: doneChanFor(ch)}
	yield(op)
	return struct{}{}
}

func Close[T any](ch chan<- T) {
	if !active() {
		close(ch)
		return
	}
	if ch == nil {
		panic("close of nil channel")
	}
	op := &pendingOp{kind: opClose, ch: chanFor(sendPtr(ch), cap(ch), ch)}
	yield(op)
	if op.panicMsg != "" {
		panic(op.panicMsg)
	}
}

// ChanLen stands in for len(ch): the model keeps the buffered values, the real
// channel stays empty. Reading the length is a visible operation on the channel.
func ChanLen(ch any) int {
	v := reflect.ValueOf(ch)
	if !active() || v.IsNil() {
		return v.Len()
	}
	x := theExec.Load()
	x.mu.Lock()
	c := x.chans[v.Pointer()]
	x.mu.Unlock()
	if c == nil || c.foreign != nil {
		return v.Len()
	}
	op := &pendingOp{kind: opChanLen, ch: c}
	yield(op)
	return op.selIdx
}

// SelCase is one communication clause of a select.
type SelCase struct {
	send bool
	ch   *chanState
	val  any
	rc   interface{} // the real channel (passthrough mode)
}

// Sel is the outcome of a Select.
type Sel struct {
	Index int
	val   any
	ok    bool
}

func CaseRecv[T any](ch <-chan T) SelCase {
	if !active() {
		return SelCase{rc: ch}
	}
	return SelCase{ch: chanFor(recvPtr(ch), cap(ch), ch)}
}

func CaseDone(ch <-chan struct{}) SelCase {
	if !active() {
		return SelCase{rc: ch}
	}
	return SelCase{ch: doneChanFor(ch)}
}

func CaseSend[T any](ch chan<- T, v T) SelCase {
	if !active() {
		return SelCase{send: true, rc: ch, val: v}
	}
	return SelCase{send: true, ch: chanFor(sendPtr(ch), cap(ch), ch), val: v}
}

// Select performs a select over cases. Index is the chosen case, -1 for default.
func Select(hasDefault bool, cases ...SelCase) *Sel {
	if !active() {
		return realSelect(hasDefault, cases)
	}
	op := &pendingOp{kind: opSelect, cases: cases, hasDefault: hasDefault}
	yield(op)
	if op.panicMsg != "" {
		panic(op.panicMsg)
	}
	return &Sel{Index: op.selIdx, val: op.rval, ok: op.rok}
}

func RecvVal[T any](ch <-chan T, s *Sel) T {
	v, _ := s.val.(T)
	return v
}

func RecvVal2[T any](ch <-chan T, s *Sel) (T, bool) {
	v, _ := s.val.(T)
	return v, s.ok
}

// ---- misc -----------------------------------------------------------------

// Point is a pure scheduling point (used before file-system calls and other
// visible calls). All points with the same object are mutually dependent.
func Point(label string) {
	if !active() {
		return
	}
	yield(&pendingOp{kind: opPoint, label: label, obj: objFor("pt:" + pointClass(label))})
}

func pointClass(label string) string {
	for i := 0; i < len(label); i++ {
		if label[i] == ':' {
			return label[:i]
		}
	}
	return label
}

// WithCancel is context.WithCancel whose cancel function is a visible operation.
func WithCancel(parent context.Context) (context.Context, context.CancelFunc) {
	ctx, cancel := context.WithCancel(parent)
	return ctx, func() {
		Point("ctx:cancel")
		cancel()
	}
}

// Ordered is the constraint of map keys whose iteration order is explored.
type Ordered interface {
	~int | ~int8 | ~int16 | ~int32 | ~int64 | ~uint | ~uint8 | ~uint16 | ~uint32 | ~uint64 | ~uintptr | ~float32 | ~float64 | ~string
}

// MapKeys returns the keys of m in the order in which a range over m visits
// them: sorted by default, any permutation under exploration.
func MapKeys[K Ordered, V any](m map[K]V) []K {
	keys := make([]K, 0, len(m))
	for k := range m {
		keys = append(keys, k)
	}
	sort.Slice(keys, func(i, j int) bool { return keys[i] < keys[j] })
	if !active() || len(keys) < 2 {
		return keys
	}
	// Lehmer-code choice of a permutation; each non-default pick costs MapOrderCost.
	out := make([]K, 0, len(keys))
	rest := keys
	for len(rest) > 1 {
		c := Choose(len(rest), fmt.Sprintf("maporder/%d", len(rest)), cur().x.opts.MapOrderCost)
		out = append(out, rest[c])
		rest = append(append([]K{}, rest[:c]...), rest[c+1:]...)
	}
	return append(out, rest...)
}

// capOverride, when > 0, replaces channel capacities larger than 16.
var capOverride int

// ScaleCap scales a literal channel capacity (capacity scaling of large buffers).
func ScaleCap(k int) int {
	if capOverride > 0 && k > 16 {
		return capOverride
	}
	return k
}

// SetCapOverride sets the capacity used in place of large literal capacities.
func SetCapOverride(k int) { capOverride = k }
