package vsched

import (
	"io"
)

// pipe is an atomic model of io.Pipe with Go's documented semantics: a Write
// blocks until readers have consumed all of its data or the read side is
// closed; a Read blocks until a writer offers data or the write side is closed.
type pipe struct {
	real    bool
	rr      *io.PipeReader
	rw      *io.PipeWriter
	obj     *object
	pending []byte     // data offered by the parked writer
	writer  *pendingOp // the parked writer's operation
	queue   []*pendingOp
	rerr    error // set by reader.CloseWithError
	werr    error // set by writer.CloseWithError
	rclosed bool
	wclosed bool
}

// PipeReader / PipeWriter stand in for io.PipeReader / io.PipeWriter.
type PipeReader struct{ p *pipe }
type PipeWriter struct{ p *pipe }

// Pipe stands in for io.Pipe.
func Pipe() (*PipeReader, *PipeWriter) {
	x := theExec.Load()
	if x == nil {
		r, w := io.Pipe()
		p := &pipe{real: true, rr: r, rw: w}
		return &PipeReader{p}, &PipeWriter{p}
	}
	x.mu.Lock()
	p := &pipe{obj: x.anonObj()}
	x.mu.Unlock()
	return &PipeReader{p}, &PipeWriter{p}
}

func (p *pipe) offer(g *G, op *pendingOp) {
	if p.writer == nil {
		p.writer = op
		p.pending = op.val.([]byte)
	} else {
		p.queue = append(p.queue, op)
	}
}

func (p *pipe) canRead() bool {
	return p.rclosed || p.writer != nil || p.wclosed
}

func (p *pipe) writeDone(op *pendingOp) bool {
	if p.rclosed || p.wclosed {
		return true
	}
	return op.completed
}

func (p *pipe) doRead(x *Exec, g *G, op *pendingOp) {
	x.event(g, mix(20, p.obj.id), []*vclock{&p.obj.clock})
	if p.rclosed {
		op.n, op.rval = 0, io.ErrClosedPipe
		return
	}
	if p.writer != nil {
		buf := op.val.([]byte)
		n := copy(buf, p.pending)
		p.pending = p.pending[n:]
		p.writer.n += n
		op.n, op.rval = n, nil
		if len(p.pending) == 0 {
			p.writer.completed = true
			p.writer = nil
			if len(p.queue) > 0 {
				p.writer = p.queue[0]
				p.queue = p.queue[1:]
				p.pending = p.writer.val.([]byte)
			}
		}
		return
	}
	// write side closed
	err := p.werr
	if err == nil {
		err = io.EOF
	}
	op.n, op.rval = 0, err
}

func (p *pipe) finishWrite(x *Exec, g *G, op *pendingOp) {
	x.event(g, mix(21, p.obj.id), []*vclock{&p.obj.clock})
	if op.completed {
		return
	}
	// closed before everything was consumed
	if p.writer == op {
		p.writer, p.pending = nil, nil
	}
	for i, q := range p.queue {
		if q == op {
			p.queue = append(p.queue[:i], p.queue[i+1:]...)
			break
		}
	}
	if p.rclosed {
		err := p.rerr
		if err == nil {
			err = io.ErrClosedPipe
		}
		op.rval = err
	} else {
		op.rval = io.ErrClosedPipe
	}
}

func (p *pipe) doClose(x *Exec, g *G, op *pendingOp) {
	x.event(g, mix(22, p.obj.id), []*vclock{&p.obj.clock})
	err, _ := op.val.(error)
	if op.label == "r" {
		if !p.rclosed {
			p.rclosed = true
			p.rerr = err
		}
	} else {
		if !p.wclosed && !p.rclosed {
			p.wclosed = true
			p.werr = err
		} else if !p.wclosed {
			p.wclosed = true
		}
	}
}

func (r *PipeReader) Read(b []byte) (int, error) {
	if r.p.real {
		return r.p.rr.Read(b)
	}
	op := &pendingOp{kind: opPipeRead, pipe: r.p, val: b}
	yield(op)
	err, _ := op.rval.(error)
	return op.n, err
}

func (r *PipeReader) Close() error { return r.CloseWithError(nil) }

func (r *PipeReader) CloseWithError(err error) error {
	if r.p.real {
		return r.p.rr.CloseWithError(err)
	}
	yield(&pendingOp{kind: opPipeClose, pipe: r.p, val: err, label: "r"})
	return nil
}

func (w *PipeWriter) Write(b []byte) (int, error) {
	if w.p.real {
		return w.p.rw.Write(b)
	}
	x := theExec.Load()
	x.mu.Lock()
	closed := w.p.rclosed || w.p.wclosed
	x.mu.Unlock()
	if closed {
		// io.Pipe checks the done channel first
		Point("pipe:closed-write")
		x.mu.Lock()
		defer x.mu.Unlock()
		if w.p.rclosed && w.p.rerr != nil {
			return 0, w.p.rerr
		}
		return 0, io.ErrClosedPipe
	}
	op := &pendingOp{kind: opPipeWrite, pipe: w.p, val: b}
	yield(op)
	err, _ := op.rval.(error)
	return op.n, err
}

func (w *PipeWriter) Close() error { return w.CloseWithError(nil) }

func (w *PipeWriter) CloseWithError(err error) error {
	if w.p.real {
		return w.p.rw.CloseWithError(err)
	}
	yield(&pendingOp{kind: opPipeClose, pipe: w.p, val: err, label: "w"})
	return nil
}
