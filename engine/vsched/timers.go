//go:build vsched

package vsched

import (
	"context"
	"time"
)

// Timers under the scheduler: real time does not exist for an exploration, so a timer may
// fire at ANY moment after it was started — it is a goroutine of its own whose single step
// is "fire", scheduled like every other goroutine (an execution in which it never gets to
// run before the body ends corresponds to a very long duration). This over-approximates
// every real timing; code whose correctness depends on a timer NOT firing early is reported,
// which is what a property quantified over all schedules asks for.

// After stands in for time.After.
func After(d time.Duration) <-chan time.Time {
	if !active() {
		return time.After(d)
	}
	ch := Make[time.Time](1)
	Go0(func() { Send(ch, time.Time{}) })
	return ch
}

// Tick stands in for time.Tick: under the scheduler it fires at most twice.
func Tick(d time.Duration) <-chan time.Time {
	if !active() {
		return time.Tick(d)
	}
	ch := Make[time.Time](1)
	Go0(func() {
		Send(ch, time.Time{})
		Send(ch, time.Time{})
	})
	return ch
}

// Sleep stands in for time.Sleep: a pure scheduling point.
func Sleep(d time.Duration) {
	if !active() {
		time.Sleep(d)
		return
	}
	Point("time:sleep")
}

// Timer stands in for time.Timer.
type Timer struct {
	C    <-chan time.Time
	real *time.Timer
	mu   Mutex
	ch   chan time.Time
	gen  int // bumped by Stop and Reset: a firing of an older generation is dropped
	live bool
}

func NewTimer(d time.Duration) *Timer {
	if !active() {
		rt := time.NewTimer(d)
		return &Timer{C: rt.C, real: rt}
	}
	t := &Timer{ch: Make[time.Time](1)}
	t.C = t.ch
	t.start()
	return t
}

// AfterFunc stands in for time.AfterFunc.
func AfterFunc(d time.Duration, f func()) *Timer {
	if !active() {
		return &Timer{real: time.AfterFunc(d, f)}
	}
	t := &Timer{}
	t.mu.Lock()
	t.live = true
	gen := t.gen
	t.mu.Unlock()
	Go0(func() {
		t.mu.Lock()
		fire := t.live && t.gen == gen
		t.live = false
		t.mu.Unlock()
		if fire {
			f()
		}
	})
	return t
}

func (t *Timer) start() {
	t.mu.Lock()
	t.live = true
	gen := t.gen
	t.mu.Unlock()
	Go0(func() {
		t.mu.Lock()
		fire := t.live && t.gen == gen
		if fire {
			t.live = false
		}
		t.mu.Unlock()
		if fire {
			// like the runtime: a non-blocking send into the 1-slot channel
			Select(true, CaseSend[time.Time](t.ch, time.Time{}))
		}
	})
}

// Stop reports whether the call stopped the timer before it fired.
func (t *Timer) Stop() bool {
	if t.real != nil {
		return t.real.Stop()
	}
	t.mu.Lock()
	was := t.live
	t.live = false
	t.gen++
	t.mu.Unlock()
	return was
}

func (t *Timer) Reset(d time.Duration) bool {
	if t.real != nil {
		return t.real.Reset(d)
	}
	was := t.Stop()
	if t.ch != nil {
		t.start()
	}
	return was
}

// WithTimeout / WithDeadline: a cancellable context whose cancellation may also come from
// the timer goroutine at any moment; Err() then says DeadlineExceeded like the real one.
func WithTimeout(parent context.Context, d time.Duration) (context.Context, context.CancelFunc) {
	if !active() {
		return context.WithTimeout(parent, d)
	}
	ctx, cancel := context.WithCancelCause(parent)
	Go0(func() {
		Point("ctx:cancel")
		cancel(context.DeadlineExceeded)
	})
	return deadlineCtx{ctx}, func() {
		Point("ctx:cancel")
		cancel(context.Canceled)
	}
}

func WithDeadline(parent context.Context, t time.Time) (context.Context, context.CancelFunc) {
	if !active() {
		return context.WithDeadline(parent, t)
	}
	return WithTimeout(parent, 0)
}

type deadlineCtx struct{ context.Context }

func (c deadlineCtx) Err() error {
	if c.Context.Err() == nil {
		return nil
	}
	if cause := context.Cause(c.Context); cause == context.DeadlineExceeded {
		return cause
	}
	return c.Context.Err()
}
