package vsched

import (
	"testing"
)

func TestLostUpdate(t *testing.T) {
	for _, nocache := range []bool{true, false} {
		outcomes := map[int]int{}
		var x int
		st := Explore(Options{PreemptionBound: 2, StepBudget: 1000, NoCache: nocache}, func() {
			x = 0
			done := Make[bool](0)
			for i := 0; i < 2; i++ {
				Go0(func() {
					t := x
					Point("rmw:x")
					x = t + 1
					Send(done, true)
				})
			}
			Recv(done)
			Recv(done)
		}, func(r Result) bool {
			if r.Kind != "done" {
				t.Fatalf("outcome %s %s", r.Kind, r.Detail)
			}
			outcomes[x]++
			return true
		})
		t.Logf("nocache=%v %+v outcomes=%v", nocache, st, outcomes)
		if outcomes[1] == 0 || outcomes[2] == 0 {
			t.Fatalf("expected both outcomes, got %v", outcomes)
		}
		if !st.Complete {
			t.Fatal("incomplete")
		}
	}
}

func TestDeadlock(t *testing.T) {
	dead := 0
	st := Explore(Options{PreemptionBound: 2, StepBudget: 1000}, func() {
		var a, b Mutex
		done := Make[bool](2)
		Go0(func() { a.Lock(); b.Lock(); b.Unlock(); a.Unlock(); Send(done, true) })
		Go0(func() { b.Lock(); a.Lock(); a.Unlock(); b.Unlock(); Send(done, true) })
		Recv(done)
		Recv(done)
	}, func(r Result) bool {
		if r.Kind == "deadlock" {
			dead++
		}
		return true
	})
	t.Logf("%+v dead=%d", st, dead)
	if dead == 0 {
		t.Fatal("deadlock not found")
	}
}

func TestSelectAndClose(t *testing.T) {
	got := map[string]int{}
	st := Explore(Options{PreemptionBound: -1, StepBudget: 1000}, func() {
		c1 := Make[int](0)
		c2 := Make[int](1)
		quit := Make[struct{}](0)
		res := ""
		Go0(func() { Send(c1, 1) })
		Go0(func() { Send(c2, 2) })
		Go0(func() { Close(quit) })
		for i := 0; i < 2; i++ {
			s := Select(false, CaseRecv(c1), CaseRecv(c2), CaseRecv(quit))
			switch s.Index {
			case 0:
				res += "a"
			case 1:
				res += "b"
			case 2:
				res += "q"
			}
		}
		got[res]++
	}, func(r Result) bool { return true })
	t.Logf("%+v %v", st, got)
	if len(got) < 6 {
		t.Fatalf("too few outcomes: %v", got)
	}
}

func TestPipe(t *testing.T) {
	n := 0
	st := Explore(Options{PreemptionBound: 2, StepBudget: 1000}, func() {
		r, w := Pipe()
		Go0(func() { w.Write([]byte("hello")); w.Write(nil); w.Close() })
		var out []byte
		buf := make([]byte, 2)
		for {
			k, err := r.Read(buf)
			out = append(out, buf[:k]...)
			if err != nil {
				break
			}
		}
		if string(out) != "hello" {
			panic("got " + string(out))
		}
	}, func(r Result) bool {
		n++
		if r.Kind != "done" {
			t.Fatalf("%s %s", r.Kind, r.Detail)
		}
		return true
	})
	t.Logf("%+v", st)
}

// A select that finds two cases ready must be explored both ways (the caller
// is not parked in the select yet when both become ready).
func TestSelectBothReady(t *testing.T) {
	for _, nocache := range []bool{true, false} {
		outcomes := map[string]int{}
		var got string
		st := Explore(Options{PreemptionBound: 1, StepBudget: 1000, NoCache: nocache}, func() {
			got = ""
			errs := Make[int](3)
			allDone := Make[struct{}](0)
			var wg WaitGroup
			wg.Add(3)
			for i := 0; i < 3; i++ {
				Go0(func() {
					defer wg.Done()
					Send(errs, 1)
				})
			}
			Go0(func() {
				wg.Wait()
				Close(allDone)
			})
			s := Select(false, CaseRecv[int](errs), CaseRecv[struct{}](allDone))
			if s.Index == 0 {
				got = "err"
			} else {
				got = "nil"
			}
		}, func(r Result) bool {
			if r.Kind != "done" {
				t.Fatalf("outcome %s %s", r.Kind, r.Detail)
			}
			outcomes[got]++
			return true
		})
		t.Logf("nocache=%v %+v outcomes=%v", nocache, st, outcomes)
		if outcomes["err"] == 0 || outcomes["nil"] == 0 {
			t.Fatalf("expected both outcomes, got %v", outcomes)
		}
	}
}
